#!/usr/bin/env python3
"""Write /verif/seeded/README.md: which checks catch which seeded change (from seeded/*/meta.json)."""
import json, glob, os
rows = []
for d in sorted(glob.glob('/verif/seeded/*/')):
    m = json.load(open(os.path.join(d, 'meta.json')))
    sid = os.path.basename(d.rstrip('/'))
    own = m.get('detected_by_own_check')
    rules = []
    for p, rs in (m.get('reported') or {}).items():
        for r in rs[:2]:
            rules.append(f"{p}: {r.split(' ')[0]}")
    rows.append((sid, m['property'], (m.get('summary') or '').replace('\n', ' ').replace('|', '/')[:230], (m.get('needs') or '').replace('\n', ' ').replace('|', '/')[:160], 'yes' if own else 'NO', ', '.join(m.get('detected_by') or []), '; '.join(sorted(set(rules)))[:200]))
out = ["# Seeded changes and which checks catch them", "",
       "Each directory holds `patch.diff` (apply with `git -C /repo apply`), the demonstration (`demo_test.go.txt`, copy to `demo_place` without the `.txt`) and `meta.json`.",
       "Every change was produced by an independent sub-agent that saw only the property text, and was confirmed by `tools/seedcheck.py`",
       "(demo passes on the unchanged tree, patch applies, `go build ./...`, stable suite passes, demo fails with the patch) before all quick checks were run on the patched copy.", "",
       "| seed | property | change | needs | caught by own check | caught by | first rules reported |", "|---|---|---|---|---|---|---|"]
for r in rows:
    out.append("| " + " | ".join(r) + " |")
n = len(rows); own = sum(1 for r in rows if r[4] == 'yes'); anyc = sum(1 for r in rows if r[5])
out += ["", f"{n} seeded changes; {own} caught by the check of the property they were written against; {anyc} caught by at least one check."]
open('/verif/seeded/README.md', 'w').write("\n".join(out) + "\n")
print(out[-1])
