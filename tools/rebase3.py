#!/usr/bin/env python3
"""rebase3.py DIR... : three-way rebase of DIR/patch.diff onto the current /repo HEAD. The newest ancestor commit of
/repo on which the patch applies cleanly is the merge base; `git merge-file` merges the patched files with HEAD's.
Written back only when the merge has no conflicts, the result builds and `git apply --check` accepts the new patch."""
import sys, os, subprocess, tempfile, shutil, re
ENV = dict(os.environ, GOFLAGS='-mod=mod', GOPROXY='off', GOSUMDB='off', GOTOOLCHAIN='local')
def sh(*a, **k): return subprocess.run(list(a), capture_output=True, text=True, **k)
commits = sh('git', '-C', '/repo', 'log', '--format=%H', '-40').stdout.split()
for sd in sys.argv[1:]:
    pf = os.path.join(os.path.abspath(sd), 'patch.diff')
    if sh('git', '-C', '/repo', 'apply', '--check', pf).returncode == 0:
        print(sd, 'applies'); continue
    base = None
    for cm in commits:
        d = tempfile.mkdtemp(prefix='rb3-', dir='/tmp')
        sh('git', '-C', '/repo', 'worktree', 'add', '--detach', d, cm)
        ok = sh('git', '-C', d, 'apply', '--check', pf).returncode == 0
        if ok:
            base = (cm, d); break
        sh('git', '-C', '/repo', 'worktree', 'remove', '--force', d)
    if not base:
        print(sd, 'MANUAL: no recent commit on which the patch applies'); continue
    cm, bd = base
    try:
        files = re.findall(r'^\+\+\+ b/(.*)$', open(pf).read(), flags=re.M)
        sh('git', '-C', bd, 'apply', pf)
        out = tempfile.mkdtemp(prefix='rb3o-', dir='/tmp')
        subprocess.run(['rsync', '-a', '--exclude', '.git', '/repo/', out + '/'], check=True)
        g = lambda *a: sh('git', '-C', out, '-c', 'user.name=x', '-c', 'user.email=x@x', *a)
        g('init', '-q'); g('add', '-A'); g('commit', '-q', '-m', 'base')
        conflict = False
        for f in files:
            theirs = os.path.join(bd, f)
            ours = os.path.join(out, f)
            basef = tempfile.mktemp(dir='/tmp')
            r = sh('git', '-C', '/repo', 'show', cm + ':' + f)
            open(basef, 'w').write(r.stdout if r.returncode == 0 else '')
            if not os.path.exists(ours):
                os.makedirs(os.path.dirname(ours), exist_ok=True); shutil.copy(theirs, ours); continue
            if not os.path.exists(theirs):
                os.remove(ours); continue
            m = sh('git', 'merge-file', ours, basef, theirs)
            os.remove(basef)
            if m.returncode != 0 and os.environ.get('RESOLVE') in ('theirs', 'ours'):
                # development aid: take one side of every conflict, then let POSTFIX (a python script run in
                # the merged tree) re-apply by hand what the other side had changed there
                txt = open(ours).read()
                pick = 2 if os.environ['RESOLVE'] == 'theirs' else 1
                txt = re.sub(r'<<<<<<<[^\n]*\n(.*?)=======\n(.*?)>>>>>>>[^\n]*\n', lambda mm: mm.group(pick), txt, flags=re.S)
                open(ours, 'w').write(txt)
            elif m.returncode != 0:
                conflict = True
                if os.environ.get('SHOW_CONFLICTS'):
                    txt = open(ours).read()
                    for mm in re.finditer(r'<<<<<<<.*?>>>>>>>[^\n]*\n', txt, flags=re.S):
                        print(mm.group(0)[:3000])
                if os.environ.get('KEEP_CONFLICTS'):
                    shutil.copy(ours, os.environ['KEEP_CONFLICTS'])
        if os.environ.get('POSTFIX'):
            subprocess.run([sys.executable, os.environ['POSTFIX']], cwd=out, check=True)
            subprocess.run(['gofmt', '-w', 'internal', 'cmd'], cwd=out)
        if conflict:
            print(sd, 'MANUAL: merge conflicts (base %s)' % cm[:7]); shutil.rmtree(out, ignore_errors=True); continue
        b = subprocess.run(['go', 'build', './...'], cwd=out, env=ENV, capture_output=True, text=True)
        if b.returncode != 0:
            print(sd, 'MANUAL: merged tree does not build:', b.stderr[-300:].replace('\n', ' | ')); shutil.rmtree(out, ignore_errors=True); continue
        g('add', '-A')
        new = g('diff', '--cached').stdout
        open(pf + '.new', 'w').write(new)
        if sh('git', '-C', '/repo', 'apply', '--check', pf + '.new').returncode != 0 or not new.strip():
            os.remove(pf + '.new'); print(sd, 'MANUAL: regenerated patch unusable')
        else:
            os.replace(pf + '.new', pf); print(sd, 'rebased (3-way, base %s)' % cm[:7])
        shutil.rmtree(out, ignore_errors=True)
    finally:
        sh('git', '-C', '/repo', 'worktree', 'remove', '--force', bd)
        sh('git', '-C', '/repo', 'worktree', 'prune')
