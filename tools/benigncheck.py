#!/usr/bin/env python3
"""benigncheck.py PATCHDIR : apply a behaviour-preserving patch to a scratch copy of /repo and run every quick check
on it (env PROPS=C01,C17 restricts the run to those checks). Any VIOLATION is a false alarm of the machinery. Prints
the rules that fired."""
import sys, os, json, subprocess, shutil, tempfile
ENV = dict(os.environ, GOFLAGS='-mod=mod', GOPROXY='off', GOSUMDB='off', GOTOOLCHAIN='local')
src = os.path.abspath(sys.argv[1])
d = tempfile.mkdtemp(prefix='benign-', dir='/tmp')
try:
    subprocess.run(['rsync', '-a', '--exclude', '.git', '/repo/', d + '/'], check=True)
    r = subprocess.run('patch -p1 -s < ' + os.path.join(src, 'patch.diff'), cwd=d, shell=True, capture_output=True, text=True)
    if r.returncode != 0:
        print(src, 'PATCH FAILED', r.stdout[-300:], r.stderr[-300:]); sys.exit(2)
    r = subprocess.run(['go', 'build', './...'], cwd=d, env=ENV, capture_output=True, text=True)
    if r.returncode != 0:
        print(src, 'BUILD FAILED', r.stderr[-500:]); sys.exit(2)
    props = subprocess.run([os.environ.get('CRVERIF_BIN', '/verif/bin/crverif'), '-list'], capture_output=True, text=True).stdout.split()
    if os.environ.get('PROPS'):
        props = [p for p in props if p in os.environ['PROPS'].split(',')]  # targeted run: only these checks
    fired = {}
    for p in props:
        ev = tempfile.mkdtemp(prefix='ev-', dir='/tmp')
        rr = subprocess.run([os.environ.get('CRVERIF_BIN', '/verif/bin/crverif'), '-property', p, '-evidence', ev], env=dict(ENV, VERIF_REPO=d), capture_output=True, text=True)
        if rr.returncode != 0:
            lines = [l.strip() for l in (rr.stdout + rr.stderr).splitlines() if 'rule=' in l and 'KNOWN' not in l]
            fired[p] = [l[:420] for l in lines[:4]] or [(rr.stdout + rr.stderr)[-400:]]
        shutil.rmtree(ev, ignore_errors=True)
    meta = {}
    try:
        meta = json.load(open(os.path.join(src, 'meta.json')))
    except Exception:
        pass
    print(src, 'SILENT' if not fired else 'FALSE-ALARM ' + ','.join(fired), '|', meta.get('summary', '')[:160])
    for p, ls in fired.items():
        for l in ls:
            print('   ', p, l)
finally:
    shutil.rmtree(d, ignore_errors=True)
