#!/usr/bin/env python3
"""seedquick.py SEEDDIR : apply a stored seeded change to a scratch copy of /repo and run the property's own quick
check on it (no demonstration run). Prints CAUGHT/MISSED and the rules that fired."""
import sys, os, json, subprocess, shutil, tempfile
ENV = dict(os.environ, GOFLAGS='-mod=mod', GOPROXY='off', GOSUMDB='off', GOTOOLCHAIN='local')
seed = os.path.abspath(sys.argv[1])
meta = json.load(open(os.path.join(seed, 'meta.json')))
prop = meta['property']
d = tempfile.mkdtemp(prefix='seedq-', dir='/tmp')
try:
    subprocess.run(['rsync', '-a', '--exclude', '.git', '/repo/', d + '/'], check=True)
    r = subprocess.run('patch -p1 -s < ' + os.path.join(seed, 'patch.diff'), cwd=d, shell=True, capture_output=True, text=True)
    if r.returncode != 0:
        print(os.path.basename(seed), 'PATCH FAILED'); sys.exit(2)
    ev = tempfile.mkdtemp(prefix='ev-', dir='/tmp')
    rr = subprocess.run([os.environ.get('CRVERIF_BIN', '/verif/bin/crverif'), '-property', prop, '-evidence', ev], env=dict(ENV, VERIF_REPO=d), capture_output=True, text=True)
    shutil.rmtree(ev, ignore_errors=True)
    lines = [l for l in (rr.stdout + rr.stderr).splitlines() if 'rule=' in l and 'KNOWN' not in l]
    rules = sorted(set(l.split('rule=')[1].split()[0] for l in lines))
    print(os.path.basename(seed), 'CAUGHT' if rr.returncode == 1 else 'MISSED exit=%d' % rr.returncode, ' '.join(rules))
finally:
    shutil.rmtree(d, ignore_errors=True)
