#!/usr/bin/env python3
"""refreshseeds.py : re-run every quick check against every stored seeded change (scratch copy of /repo + patch,
VERIF_REPO) and rewrite detected_by / detected_by_own_check / reported in each meta.json. The demonstration is not
re-run (seedcheck.py does that). Prints the seeds whose own check does not fire."""
import os, sys, json, subprocess, shutil, tempfile
from concurrent.futures import ThreadPoolExecutor
ENV = dict(os.environ, GOFLAGS='-mod=mod', GOPROXY='off', GOSUMDB='off', GOTOOLCHAIN='local')
root = '/verif/seeded'
seeds = sorted(d for d in os.listdir(root) if os.path.isdir(os.path.join(root, d)))
if len(sys.argv) > 1:
    seeds = [s for s in seeds if s in sys.argv[1:]]  # refreshseeds.py C01-13 C07-13 : only these
PROPS = subprocess.run([os.environ.get('CRVERIF_BIN', '/verif/bin/crverif'), '-list'], capture_output=True, text=True).stdout.split()
def run(sd):
    sdir = os.path.join(root, sd)
    meta = json.load(open(os.path.join(sdir, 'meta.json')))
    d = tempfile.mkdtemp(prefix='rfs-', dir='/tmp')
    try:
        subprocess.run(['rsync', '-a', '--exclude', '.git', '/repo/', d + '/'], check=True)
        r = subprocess.run('patch -p1 -s < ' + os.path.join(sdir, 'patch.diff'), cwd=d, shell=True, capture_output=True, text=True)
        if r.returncode != 0:
            return sd, 'PATCH FAILED', None
        det = {}
        for p in PROPS:
            ev = tempfile.mkdtemp(prefix='ev-', dir='/tmp')
            rr = subprocess.run([os.environ.get('CRVERIF_BIN', '/verif/bin/crverif'), '-property', p, '-evidence', ev], env=dict(ENV, VERIF_REPO=d), capture_output=True, text=True)
            shutil.rmtree(ev, ignore_errors=True)
            if rr.returncode == 1:
                lines = [l for l in (rr.stdout + rr.stderr).splitlines() if 'rule=' in l and 'KNOWN' not in l]
                det[p] = sorted(set(l.split('rule=')[1].split()[0] + ' ' + l.split('construct=')[1].split('" ')[0] + '"' for l in lines if 'construct=' in l))[:6]
            elif rr.returncode != 0:
                det[p] = ['exit=%d' % rr.returncode]
        meta['detected_by'] = sorted(det)
        meta['detected_by_own_check'] = meta['property'] in det
        meta['reported'] = det
        json.dump(meta, open(os.path.join(sdir, 'meta.json'), 'w'), indent=1)
        return sd, 'own' if meta['property'] in det else 'NOT-OWN', sorted(det)
    finally:
        shutil.rmtree(d, ignore_errors=True)
bad = 0
with ThreadPoolExecutor(int(os.environ.get('WORKERS', '6'))) as ex:
    for sd, st, det in ex.map(run, seeds):
        if st != 'own':
            bad += 1
            print(sd, st, det, flush=True)
print('%d seeds, %d not caught by their own check' % (len(seeds), bad))
sys.exit(1 if bad else 0)
