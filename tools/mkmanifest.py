#!/usr/bin/env python3
"""Generate /verif/MANIFEST.json from `crverif -describe` (rule-set metadata lives next to the rules)."""
import json, subprocess, os
V = os.path.dirname(os.path.dirname(os.path.abspath(__file__)))
desc = json.loads(subprocess.run([os.path.join(V, "bin/crverif"), "-describe"], capture_output=True, text=True).stdout)
props = [json.loads(l) for l in open(os.path.join(V, "properties.jsonl"))]
extra = json.load(open(os.path.join(V, "tools/checks.json")))
checks, na = [], []
for p in props:
    pid = p["id"]
    d = desc.get(pid)
    x = extra.get(pid, {})
    if d and not x.get("unclaimed"):
        text = ("Custom static analysis of /repo's current source (type-checked SSA); decides structural necessary conditions of the property on every control-flow path, not the behaviour as a whole. " + d["explanation"])
        note = "Trusted base: " + "; ".join(d["assumptions"] or []) + ". NOT covered (declined clauses): " + "; ".join(d["not_covered"] or ["-"]) + "."
        checks.append({
            "property_id": pid,
            "quick_cmd": f"./bin/crverif -property {pid} -tier quick",
            "thorough_cmd": f"./bin/crverif -property {pid} -tier thorough",
            "evidence_file": f"/verif/evidence/{pid}.json",
            "replay_cmd_template": f"./bin/crverif -property {pid} -replay {{path}}",
            "engine": "crverif",
            "level_claimed": {"category": "other", "text": text, "design_ref": f"DESIGN.md §3 {pid}"},
            "level_note": note,
            "technique": d.get("technique") or "static analysis: path-sensitive dataflow over go/ssa (CFG path rules, guard atoms, provenance extraction, interval value-sets, who-may/table agreement)",
        })
    else:
        na.append({"property_id": pid, "reason": x.get("na_reason", "check not built yet in this round; planned per DESIGN.md §3 (static rules R-%s-*)" % pid)})
man = {
    "version": 1,
    "setup_cmd": "cd /verif/checker && GOFLAGS=-mod=vendor GOPROXY=off GOSUMDB=off GOTOOLCHAIN=local go build -o ../bin/crverif ./cmd/crverif",
    "hooks": {
        "guard": "verif",
        "enable": "no hooks: nothing in /repo is instrumented or executed; the checker parses and type-checks /repo's working tree (all build tags of the loaded GOOS/GOARCH) on every run",
        "baseline_off_cmd": "cd /repo && GOFLAGS=-mod=mod GOPROXY=off GOSUMDB=off GOTOOLCHAIN=local go test -vet=off -count=1 ./...",
        "source_commits": [],
        "add_only": True,
    },
    "engines": [{
        "name": "crverif",
        "path": "/verif/checker",
        "serves_properties": [c["property_id"] for c in checks],
        "kind_free_text": "custom static analyser over go/packages + go/ssa (x/tools v0.29.0, vendored): acyclic path enumeration with symbolic loop variables, control-dependence guards, symbolic provenance extraction (SEE), rational linear normal forms/intervals (VSA), structural who-may/table-agreement rules; reports file:line, function, rule and construct for each violated obligation",
    }],
    "checks": checks,
    "notes": "All checks are static: the deciding step loads /repo's current source (go/packages LoadAllSyntax, SSA) on every run and never executes CoreRAD code. Exit 0 = all obligations discharged (KNOWN-FINDING lines for entries of known_findings.json), 1 = VIOLATION, 2 = ANALYSIS-ERROR (tree does not type-check). VERIF_REPO may point the checker at another tree (used only for development against scratch copies).",
    "not_applicable": na,
}
json.dump(man, open(os.path.join(V, "MANIFEST.json"), "w"), indent=1)
print("claimed:", [c["property_id"] for c in checks], "na:", [n["property_id"] for n in na])
