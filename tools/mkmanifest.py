#!/usr/bin/env python3
"""Generate /verif/MANIFEST.json from the table below and `crverif -list`."""
import json, subprocess, os, sys
V = os.path.dirname(os.path.dirname(os.path.abspath(__file__)))
claimed = subprocess.run([os.path.join(V, "bin/crverif"), "-list"], capture_output=True, text=True).stdout.split()
props = [json.loads(l) for l in open(os.path.join(V, "properties.jsonl"))]
meta = json.load(open(os.path.join(V, "tools/checks.json")))
checks, na = [], []
for p in props:
    pid = p["id"]
    m = meta.get(pid, {})
    if pid in claimed and not m.get("unclaimed"):
        checks.append({
            "property_id": pid,
            "quick_cmd": f"./bin/crverif -property {pid} -tier quick",
            "thorough_cmd": f"./bin/crverif -property {pid} -tier thorough",
            "evidence_file": f"/verif/evidence/{pid}.json",
            "replay_cmd_template": f"./bin/crverif -property {pid} -replay {{path}}",
            "engine": "crverif",
            "level_claimed": {
                "category": "other",
                "text": m["text"],
                "design_ref": f"DESIGN.md §3 {pid}",
            },
            "level_note": m["note"],
            "technique": m["technique"],
        })
    else:
        na.append({"property_id": pid, "reason": m.get("na_reason", "check not built yet in this round; planned per DESIGN.md §3 (static rules R-%s-*)" % pid)})
man = {
    "version": 1,
    "setup_cmd": "cd /verif/checker && GOFLAGS=-mod=vendor GOPROXY=off GOSUMDB=off GOTOOLCHAIN=local go build -o ../bin/crverif ./cmd/crverif",
    "hooks": {
        "guard": "verif",
        "enable": "no hooks: nothing in /repo is instrumented or executed; the checker parses and type-checks /repo's working tree (all build tags of the loaded GOOS/GOARCH) on every run",
        "baseline_off_cmd": "cd /repo && GOFLAGS=-mod=mod GOPROXY=off GOSUMDB=off GOTOOLCHAIN=local go test -vet=off -count=1 ./...",
        "source_commits": [],
        "add_only": True,
    },
    "engines": [{
        "name": "crverif",
        "path": "/verif/checker",
        "serves_properties": [c["property_id"] for c in checks],
        "kind_free_text": "custom static analyser over go/packages + go/ssa (x/tools v0.29.0, vendored): CFG path rules, control-dependence guards, symbolic provenance extraction, interval value-sets, structural who-may/table-agreement rules; reports file:line, function and rule for each violated obligation",
    }],
    "checks": checks,
    "notes": "All checks are static: the deciding step loads /repo's current source (go/packages LoadAllSyntax, SSA) on every run and never executes CoreRAD code. Exit 0 = all obligations discharged (KNOWN-FINDING lines for entries of known_findings.json), 1 = VIOLATION, 2 = ANALYSIS-ERROR (tree does not type-check).",
    "not_applicable": na,
}
json.dump(man, open(os.path.join(V, "MANIFEST.json"), "w"), indent=1)
print("claimed:", [c["property_id"] for c in checks], "na:", [n["property_id"] for n in na])
