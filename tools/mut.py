#!/usr/bin/env python3
"""Dev helper: apply one textual edit to a scratch copy of /repo and run a check on it.
usage: mut.py PROP FILE OLD NEW [--test]   (OLD must occur exactly once)
Not part of any registered check."""
import sys, os, subprocess, shutil, tempfile
prop, rel, old, new = sys.argv[1:5]
runtests = '--test' in sys.argv
d = tempfile.mkdtemp(prefix='mut-', dir='/tmp')
try:
    subprocess.run(['rsync', '-a', '--exclude', '.git', '/repo/', d + '/'], check=True)
    p = os.path.join(d, rel)
    s = open(p).read()
    if s.count(old) != 1:
        print("OLD occurs", s.count(old), "times"); sys.exit(3)
    open(p, 'w').write(s.replace(old, new))
    env = dict(os.environ, GOFLAGS='-mod=mod', GOPROXY='off', GOSUMDB='off', GOTOOLCHAIN='local')
    r = subprocess.run(['go', 'build', './...'], cwd=d, env=env, capture_output=True, text=True)
    if r.returncode != 0:
        print("BUILD FAILED", r.stderr[:2000]); sys.exit(4)
    if runtests:
        r = subprocess.run(['go', 'test', '-count=1', './...'], cwd=d, env=env, capture_output=True, text=True)
        print("TESTS", "pass" if r.returncode == 0 else "FAIL\n" + r.stdout[-1500:])
    env['VERIF_REPO'] = d
    props = [prop]
    if prop == 'ALL':
        props = subprocess.run(['/verif/bin/crverif', '-list'], capture_output=True, text=True).stdout.split()
    for pr in props:
        ev = tempfile.mkdtemp(prefix='ev-', dir='/tmp')
        r = subprocess.run(['/verif/bin/crverif', '-property', pr, '-evidence', ev], env=env, capture_output=True, text=True)
        out = r.stdout + r.stderr
        lines = [l[:400] for l in out.splitlines() if 'KNOWN' not in l]
        if prop == 'ALL':
            if r.returncode != 0:
                print(pr, "exit", r.returncode)
                print("\n".join(lines[1:5]))
        else:
            print("exit", r.returncode)
            print("\n".join(lines[:14]))
        shutil.rmtree(ev, ignore_errors=True)
    if prop == 'ALL':
        print("ALL done")
finally:
    shutil.rmtree(d, ignore_errors=True)
