#!/usr/bin/env python3
"""Confirm a seeded change and run the checks against it.

usage: seedcheck.py SEEDDIR [--all] [--no-confirm]
  SEEDDIR contains patch.diff, meta.json and the demonstration (demo_test.go / demo.go).

Steps (all in a scratch copy of /repo under /tmp, removed afterwards):
  1. unchanged copy: place the demo, run it  -> must PASS
  2. apply patch.diff, go build ./...        -> must compile
  3. run the stable suite                    -> must pass
  4. run the demo                            -> must FAIL
  5. run the property's check (or all checks with --all) with VERIF_REPO=<copy>
Prints a JSON summary on the last line.
"""
import sys, os, json, subprocess, shutil, tempfile

ENV = dict(os.environ, GOFLAGS='-mod=mod', GOPROXY='off', GOSUMDB='off', GOTOOLCHAIN='local')
SUITE = ['go', 'test', '-count=1', './internal/config/', './internal/corerad/', './internal/crhttp/', './internal/plugin/', './internal/system/']
NETSTATE = ['go', 'test', '-count=1', '-run', 'TestWatcherWatch|Test_process', './internal/netstate/']
FLAKY = ['TestAdvertiserLinux', 'real', 'TestIntegration']


def run(cmd, cwd, env=ENV, timeout=900):
    r = subprocess.run(cmd, cwd=cwd, env=env, capture_output=True, text=True, timeout=timeout, shell=isinstance(cmd, str))
    return r.returncode, r.stdout + r.stderr


def suite_ok(d):
    for attempt in range(2):
        rc, out = run(SUITE, d)
        if rc == 0:
            break
        fails = [l for l in out.splitlines() if l.startswith('--- FAIL')]
        if fails and all(any(f in l for f in FLAKY) for l in fails):
            continue
        return False, out[-3000:]
    else:
        return False, out[-3000:]
    rc, out = run(NETSTATE, d)
    return rc == 0, out[-2000:]


def main():
    seed = os.path.abspath(sys.argv[1])
    allchecks = '--all' in sys.argv
    meta = json.load(open(os.path.join(seed, 'meta.json')))
    prop = meta['property']
    demo_src = None
    for n in ('demo_test.go', 'demo.go', 'demo_test.go.txt', 'demo.go.txt'):
        if os.path.exists(os.path.join(seed, n)):
            demo_src = os.path.join(seed, n)
    res = {'seed': seed, 'property': prop}
    d = tempfile.mkdtemp(prefix='seedchk-', dir='/tmp')
    try:
        subprocess.run(['rsync', '-a', '--exclude', '.git', '/repo/', d + '/'], check=True)
        place = os.path.join(d, meta['demo_place'])
        os.makedirs(os.path.dirname(place), exist_ok=True)
        shutil.copy(demo_src, place)
        rc, out = run(meta['demo_cmd'], d)
        res['demo_passes_unchanged'] = rc == 0
        if rc != 0:
            res['demo_unchanged_out'] = out[-1500:]
        rc, out = run(['git', 'apply', '--unsafe-paths', '--directory=' + d, os.path.join(seed, 'patch.diff')], d) if False else run('patch -p1 -s < ' + os.path.join(seed, 'patch.diff'), d)
        res['patch_applies'] = rc == 0
        if rc != 0:
            res['patch_out'] = out[-1000:]
        rc, out = run(['go', 'build', './...'], d)
        res['builds'] = rc == 0
        if rc != 0:
            res['build_out'] = out[-1500:]
        rc, out = run(meta['demo_cmd'], d)
        res['demo_fails_changed'] = rc != 0
        os.remove(place)
        ok, out = suite_ok(d)
        res['suite_passes'] = ok
        if not ok:
            res['suite_out'] = out
        env = dict(ENV, VERIF_REPO=d)
        props = [prop]
        if allchecks:
            props = subprocess.run([os.environ.get('CRVERIF_BIN', '/verif/bin/crverif'), '-list'], capture_output=True, text=True).stdout.split()
        det = {}
        for p in props:
            ev = tempfile.mkdtemp(prefix='ev-', dir='/tmp')
            r = subprocess.run([os.environ.get('CRVERIF_BIN', '/verif/bin/crverif'), '-property', p, '-evidence', ev], env=env, capture_output=True, text=True)
            lines = [l for l in (r.stdout + r.stderr).splitlines() if 'rule=' in l and 'KNOWN' not in l]
            det[p] = {'exit': r.returncode, 'rules': sorted(set(l.split('rule=')[1].split()[0] + ' ' + l.split('construct=')[1].split('" ')[0] + '"' for l in lines if 'construct=' in l))[:6]}
            shutil.rmtree(ev, ignore_errors=True)
        res['checks'] = det
        res['detected_by_own_check'] = det.get(prop, {}).get('exit') == 1
        res['detected_by'] = [p for p, v in det.items() if v['exit'] == 1]
    finally:
        shutil.rmtree(d, ignore_errors=True)
    res['confirmed'] = all(res.get(k) for k in ('demo_passes_unchanged', 'patch_applies', 'builds', 'demo_fails_changed', 'suite_passes'))
    print(json.dumps(res, indent=1))


if __name__ == '__main__':
    main()
