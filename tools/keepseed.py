#!/usr/bin/env python3
"""keepseed.py SRCDIR ID : confirm a seeded change with seedcheck.py and store it as /verif/seeded/ID/."""
import sys, os, json, shutil, subprocess
src, sid = sys.argv[1], sys.argv[2]
out = subprocess.run([sys.executable, os.path.join(os.path.dirname(__file__), 'seedcheck.py'), src, '--all'], capture_output=True, text=True).stdout
res = json.loads(out)
print(sid, 'confirmed=', res['confirmed'], 'own=', res['detected_by_own_check'], 'by=', res['detected_by'])
for k in ('demo_unchanged_out', 'patch_out', 'build_out', 'suite_out'):
    if k in res:
        print(' ', k, res[k][-500:])
if not res['confirmed']:
    sys.exit(1)
dst = os.path.join('/verif/seeded', sid)
os.makedirs(dst, exist_ok=True)
for n in os.listdir(src):
    if n in ('patch.diff', 'demo_test.go', 'demo.go'):
        shutil.copy(os.path.join(src, n), os.path.join(dst, n + '.txt' if n.endswith('.go') else n))
meta = json.load(open(os.path.join(src, 'meta.json')))
meta['demo_file'] = 'demo_test.go.txt (stored with .txt suffix so that it is never compiled; copy to demo_place without the suffix)'
meta['confirmed_by'] = 'tools/seedcheck.py in a scratch copy of /repo: demo passes unchanged; patch applies; go build ./...; stable suite passes; demo fails with the patch'
meta['checks_run'] = 'every registered quick check with VERIF_REPO=<scratch copy with the patch>'
meta['detected_by'] = res['detected_by']
meta['detected_by_own_check'] = res['detected_by_own_check']
meta['reported'] = {p: v['rules'] for p, v in res['checks'].items() if v['exit'] == 1}
json.dump(meta, open(os.path.join(dst, 'meta.json'), 'w'), indent=1)
