#!/usr/bin/env python3
"""mutcampaign.py OUTDIR [FILE...] : development tool. Generates single-token mutants of the non-test sources (relational
operator swaps, boolean connective swaps, constant ±1, true/false, statement deletion), keeps those that still compile and
pass the package's own tests ("survivors": what the suite cannot see), and runs every quick check on each survivor in a
scratch copy (VERIF_REPO). Writes OUTDIR/results.jsonl; survivors no check fires on are to be triaged by hand
(equivalent mutant / outside every property / a gap in the rules)."""
import sys, os, re, json, subprocess, shutil, tempfile, threading, queue, hashlib

ENV = dict(os.environ, GOFLAGS='-mod=mod', GOPROXY='off', GOSUMDB='off', GOTOOLCHAIN='local')
REPO = '/repo'
PKG_TEST = {
    'internal/netstate': ['go', 'test', '-count=1', '-run', 'TestWatcherWatch|Test_process', './internal/netstate/'],
}
FLAKY = ['Linux', 'real', 'TestIntegration']
outdir = sys.argv[1]
os.makedirs(outdir, exist_ok=True)
files = sys.argv[2:]
if not files:
    for root, _, fs in os.walk(os.path.join(REPO, 'internal')):
        for f in fs:
            if f.endswith('.go') and not f.endswith('_test.go') and 'crtest' not in root:
                files.append(os.path.relpath(os.path.join(root, f), REPO))
files.sort()

SWAPS = [(r'(?<![<>=!:+\-*/&|])<=(?!=)', '<'), (r'(?<![<>=!:\-])<(?![<=\-])', '<='), (r'(?<![<>=!\-])>=(?!=)', '>'), (r'(?<![<>=!\-])>(?![>=])', '>='),
         (r'==', '!='), (r'!=', '=='), (r'&&', '||'), (r'\|\|', '&&'), (r'\btrue\b', 'false'), (r'\bfalse\b', 'true')]

def code_part(line):
    # strip trailing // comment (naive: not inside a string)
    out, instr, i = '', None, 0
    while i < len(line):
        ch = line[i]
        if instr:
            if ch == '\\' and instr == '"':
                i += 2
                continue
            if ch == instr:
                instr = None
        elif ch in '"`\'':
            instr = ch
        elif line.startswith('//', i):
            return i
        i += 1
    return len(line)

def in_string(line, pos):
    instr, i = None, 0
    while i < pos:
        ch = line[i]
        if instr:
            if ch == '\\' and instr == '"':
                i += 2
                continue
            if ch == instr:
                instr = None
        elif ch in '"`\'':
            instr = ch
        i += 1
    return instr is not None

def mutants_of(path):
    lines = open(os.path.join(REPO, path)).read().split('\n')
    inblock = False
    for ln, line in enumerate(lines):
        s = line.strip()
        if s.startswith('/*'):
            inblock = True
        if inblock:
            if '*/' in s:
                inblock = False
            continue
        if not s or s.startswith('//') or s.startswith('import') or s.startswith('package'):
            continue
        end = code_part(line)
        code = line[:end]
        for pat, rep in SWAPS:
            for m in re.finditer(pat, code):
                if in_string(code, m.start()):
                    continue
                new = code[:m.start()] + rep + code[m.end():] + line[end:]
                yield ln, 'swap %s→%s@%d' % (m.group(0), rep, m.start()), new
        for m in re.finditer(r'(?<![\w.\"])(\d+)(?![\w.\"xX])', code):
            if in_string(code, m.start()):
                continue
            v = int(m.group(1))
            for nv in (v + 1, v - 1):
                if nv < 0:
                    continue
                new = code[:m.start()] + str(nv) + code[m.end():] + line[end:]
                yield ln, 'const %d→%d@%d' % (v, nv, m.start()), new
        # statement deletion: simple call / assignment / inc statements on one line
        if re.match(r'^[\w.\[\]\(\)\*&, ]+(\+\+|--|\s*[-+|&]?=\s*[^{]+|\([^{]*\))$', s) and not s.startswith(('return', 'defer', 'go ', 'case', 'var ', 'const ', 'type ', 'func ')) and ':=' not in s:
            yield ln, 'delete', '\t' * (len(line) - len(line.lstrip('\t'))) + '_ = 0 // deleted'.replace('_ = 0 // deleted', '')
        if s.startswith('continue') or s.startswith('break'):
            yield ln, 'delete-jump', ''
        if s.startswith('return ') and s.endswith(', nil'):
            pass

def run(cmd, cwd, timeout=600, env=ENV):
    try:
        r = subprocess.run(cmd, cwd=cwd, env=env, capture_output=True, text=True, timeout=timeout)
        return r.returncode, r.stdout + r.stderr
    except subprocess.TimeoutExpired:
        return 124, 'timeout'

PROPS = subprocess.run(['/verif/bin/crverif', '-list'], capture_output=True, text=True).stdout.split()
lock = threading.Lock()
done = set()
resfile = os.path.join(outdir, 'results.jsonl')
if os.path.exists(resfile):
    for l in open(resfile):
        try:
            done.add(json.loads(l)['id'])
        except Exception:
            pass

def worker(q, wid):
    d = tempfile.mkdtemp(prefix='mutw%d-' % wid, dir='/tmp')
    subprocess.run(['rsync', '-a', '--exclude', '.git', REPO + '/', d + '/'], check=True)
    while True:
        item = q.get()
        if item is None:
            break
        path, ln, desc, new = item
        mid = hashlib.sha1(('%s:%d:%s' % (path, ln, desc)).encode()).hexdigest()[:12]
        if mid in done:
            continue
        full = os.path.join(d, path)
        orig = open(os.path.join(REPO, path)).read()
        lines = orig.split('\n')
        old = lines[ln]
        lines[ln] = new
        open(full, 'w').write('\n'.join(lines))
        res = {'id': mid, 'file': path, 'line': ln + 1, 'mut': desc, 'old': old.strip(), 'new': new.strip()}
        try:
            pkg = os.path.dirname(path)
            rc, out = run(['go', 'build', './...'], d)
            if rc != 0:
                res['status'] = 'nocompile'
                continue
            rc, out = run(['go', 'vet', './' + pkg + '/'], d)
            if rc != 0:
                res['status'] = 'vet'
                continue
            cmd = PKG_TEST.get(pkg, ['go', 'test', '-count=1', './' + pkg + '/'])
            killed = False
            for attempt in range(2):
                rc, out = run(cmd, d, timeout=300)
                if rc == 0:
                    break
                fails = [l for l in out.splitlines() if l.startswith('--- FAIL')]
                if rc != 124 and fails and all(any(f in l for f in FLAKY) for l in fails):
                    continue
                killed = True
                break
            else:
                killed = True
            if killed:
                res['status'] = 'killed-by-tests'
                continue
            # dependants: corerad tests also exercise config/plugin/system
            if pkg in ('internal/config', 'internal/plugin', 'internal/system'):
                rc, out = run(['go', 'test', '-count=1', './internal/corerad/', './internal/crhttp/', './internal/config/'], d, timeout=400)
                if rc != 0:
                    fails = [l for l in out.splitlines() if l.startswith('--- FAIL')]
                    if not (fails and all(any(f in l for f in FLAKY) for l in fails)):
                        res['status'] = 'killed-by-tests'
                        continue
            res['status'] = 'survivor'
            fired = {}
            for p in PROPS:
                ev = tempfile.mkdtemp(prefix='ev-', dir='/tmp')
                rr = subprocess.run(['/verif/bin/crverif', '-property', p, '-evidence', ev], env=dict(ENV, VERIF_REPO=d), capture_output=True, text=True)
                shutil.rmtree(ev, ignore_errors=True)
                if rr.returncode != 0:
                    ls = [l for l in (rr.stdout + rr.stderr).splitlines() if 'rule=' in l and 'KNOWN' not in l]
                    fired[p] = sorted(set(l.split('rule=')[1].split()[0] for l in ls))[:5] or ['exit=%d' % rr.returncode]
            res['fired'] = fired
        finally:
            open(full, 'w').write(orig)
            with lock:
                with open(resfile, 'a') as f:
                    f.write(json.dumps(res) + '\n')
    shutil.rmtree(d, ignore_errors=True)

q = queue.Queue()
n = 0
for path in files:
    for ln, desc, new in mutants_of(path):
        q.put((path, ln, desc, new))
        n += 1
print('mutants queued:', n, flush=True)
NW = int(os.environ.get('MUT_WORKERS', '6'))
ths = []
for i in range(NW):
    q.put(None)
for i in range(NW):
    t = threading.Thread(target=worker, args=(q, i))
    t.start()
    ths.append(t)
for t in ths:
    t.join()
print('done')
