#!/usr/bin/env python3
"""rebasepatch.py DIR... : regenerate DIR/patch.diff against the current /repo when `git apply --check` no longer
accepts it but patch(1) still places every hunk (context drift after a fix commit in /repo). The result is written
only if it applies with `git apply --check` and the scratch tree builds. Hunks patch(1) cannot place are reported
for a manual rebase."""
import sys, os, subprocess, tempfile, shutil
ENV = dict(os.environ, GOFLAGS='-mod=mod', GOPROXY='off', GOSUMDB='off', GOTOOLCHAIN='local')
for sd in sys.argv[1:]:
    pf = os.path.join(os.path.abspath(sd), 'patch.diff')
    if subprocess.run(['git', '-C', '/repo', 'apply', '--check', pf], capture_output=True).returncode == 0:
        print(sd, 'applies'); continue
    d = tempfile.mkdtemp(prefix='rb-', dir='/tmp')
    try:
        subprocess.run(['rsync', '-a', '--exclude', '.git', '/repo/', d + '/'], check=True)
        g = lambda *a: subprocess.run(['git', '-C', d, '-c', 'user.name=x', '-c', 'user.email=x@x'] + list(a), capture_output=True, text=True)
        g('init', '-q'); g('add', '-A'); g('commit', '-q', '-m', 'base')
        r = subprocess.run('patch -p1 -s --no-backup-if-mismatch -F3 < ' + pf, cwd=d, shell=True, capture_output=True, text=True)
        if r.returncode != 0:
            print(sd, 'MANUAL: patch(1) failed:', (r.stdout + r.stderr)[-300:].replace('\n', ' | ')); continue
        for root, _, files in os.walk(d):
            for f in files:
                if f.endswith('.orig') or f.endswith('.rej'):
                    os.remove(os.path.join(root, f))
        b = subprocess.run(['go', 'build', './...'], cwd=d, env=ENV, capture_output=True, text=True)
        if b.returncode != 0:
            print(sd, 'MANUAL: does not build after fuzzy apply:', b.stderr[-300:].replace('\n', ' | ')); continue
        g('add', '-A')
        new = g('diff', '--cached').stdout
        tmp = pf + '.new'
        open(tmp, 'w').write(new)
        if subprocess.run(['git', '-C', '/repo', 'apply', '--check', tmp], capture_output=True).returncode != 0:
            os.remove(tmp); print(sd, 'MANUAL: regenerated patch does not apply'); continue
        os.replace(tmp, pf)
        print(sd, 'rebased')
    finally:
        shutil.rmtree(d, ignore_errors=True)
