#!/usr/bin/env python3
"""ruletest.py [CASE...] : rule-level self-test of the checker ("firing on a scratch-copy variant with one instance
broken"). selftest/cases.json lists hand-written one-place edits of /repo (file, old text, new text), the property whose
check must fail on the edited tree and the rule that must be among those reported. Each case is applied to a scratch
copy (VERIF_REPO), must still build, and the named check is run on it. A case whose old text is no longer present is
reported STALE (the tree moved on), not failed. Development tool: not registered in MANIFEST.json."""
import sys, os, json, subprocess, shutil, tempfile
from concurrent.futures import ThreadPoolExecutor
ENV = dict(os.environ, GOFLAGS='-mod=mod', GOPROXY='off', GOSUMDB='off', GOTOOLCHAIN='local')
cases = json.load(open('/verif/selftest/cases.json'))
want = set(sys.argv[1:])
def run(cs):
    name = cs['name']
    d = tempfile.mkdtemp(prefix='rt-', dir='/tmp')
    try:
        subprocess.run(['rsync', '-a', '--exclude', '.git', '/repo/', d + '/'], check=True)
        for ed in cs['edits']:
            p = os.path.join(d, ed['file'])
            s = open(p).read()
            if ed['old'] not in s:
                return name, 'STALE', 'old text not found in ' + ed['file']
            open(p, 'w').write(s.replace(ed['old'], ed['new'], 1))
        b = subprocess.run(['go', 'build', './...'], cwd=d, env=ENV, capture_output=True, text=True)
        if b.returncode != 0:
            return name, 'NOBUILD', b.stderr[-300:]
        ev = tempfile.mkdtemp(prefix='ev-', dir='/tmp')
        r = subprocess.run([os.environ.get('CRVERIF_BIN', '/verif/bin/crverif'), '-property', cs['property'], '-evidence', ev], env=dict(ENV, VERIF_REPO=d), capture_output=True, text=True)
        shutil.rmtree(ev, ignore_errors=True)
        out = r.stdout + r.stderr
        rules = sorted(set(l.split('rule=')[1].split()[0] for l in out.splitlines() if 'rule=' in l and 'KNOWN' not in l))
        if r.returncode == 1 and cs['rule'] in rules:
            return name, 'FIRES', ' '.join(rules)
        return name, 'SILENT' if r.returncode == 0 else 'OTHER', ' '.join(rules) or out[-200:]
    finally:
        shutil.rmtree(d, ignore_errors=True)
sel = [c for c in cases if not want or c['name'] in want]
bad = 0
with ThreadPoolExecutor(int(os.environ.get('WORKERS', '6'))) as ex:
    for name, st, info in ex.map(run, sel):
        print('%-34s %-8s %s' % (name, st, info[:160]), flush=True)
        if st != 'FIRES':
            bad += 1
print('%d case(s), %d not firing as expected' % (len(sel), bad))
sys.exit(1 if bad else 0)
