#!/usr/bin/env python3
"""benignall.py : run every stored behaviour-preserving patch (/verif/benign/*) through benigncheck.py, 8 at a time.
Exit 0 iff every one is SILENT (no check raises an alarm on code where the properties still hold)."""
import os, subprocess, sys
from concurrent.futures import ThreadPoolExecutor
root = '/verif/benign'
dirs = sorted(os.path.join(root, d) for d in os.listdir(root) if os.path.isdir(os.path.join(root, d)) and d != 'known-alarms')
def run(d):
    r = subprocess.run(['python3', '/verif/tools/benigncheck.py', d], capture_output=True, text=True)
    return d, r.stdout + r.stderr
bad = 0
with ThreadPoolExecutor(8) as ex:
    for d, out in ex.map(run, dirs):
        first = out.splitlines()[0] if out else d + ' (no output)'
        print(first[:200])
        if ' SILENT' not in first:
            bad += 1
            print(out[:2000])
print('%d patches, %d not silent' % (len(dirs), bad))
sys.exit(1 if bad else 0)
