// Package ob records proof obligations produced by the rules, matches them
// against the committed known-findings file, and writes evidence and replay
// files.
package ob

import (
	"encoding/json"
	"fmt"
	"os"
	"path/filepath"
	"sort"
	"strings"
	"time"
)

// Status of one obligation.
type Status string

const (
	Discharged Status = "discharged"
	Violated   Status = "violated"
	Undecided  Status = "undecided" // counts as a violation
)

// An Obligation is one instance of a rule applied to one construct.
type Obligation struct {
	Rule   string `json:"rule"`
	Key    string `json:"construct"` // typed construct key: never a line number
	Status Status `json:"status"`
	Config string `json:"config,omitempty"`
	Func   string `json:"func,omitempty"`
	At     string `json:"at,omitempty"`
	Fact   string `json:"fact,omitempty"`
	Oracle string `json:"oracle,omitempty"`
	Reason string `json:"reason,omitempty"`
	Path   string `json:"path,omitempty"`
}

func (o Obligation) ID() string { return o.Rule + "|" + o.Key }

// A Run accumulates the obligations of one property check.
type Run struct {
	Property    string
	Tier        string
	Seed        int64
	Start       time.Time
	Obs         []Obligation
	Assumptions []string
	NotCovered  []string
	Explanation string
	Stats       map[string]any
	floors      map[string]int
	counts      map[string]int
	cfg         string
}

func NewRun(property, tier string, seed int64) *Run {
	return &Run{Property: property, Tier: tier, Seed: seed, Start: time.Now(),
		Stats: map[string]any{}, floors: map[string]int{}, counts: map[string]int{}}
}

// SetConfig sets the build configuration label attached to new obligations.
func (r *Run) SetConfig(c string) { r.cfg = c }

// Add records an obligation.
func (r *Run) Add(o Obligation) {
	if o.Config == "" {
		o.Config = r.cfg
	}
	r.Obs = append(r.Obs, o)
	r.counts[o.Rule+"@"+o.Config]++
}

// OK records a discharged obligation.
func (r *Run) OK(rule, key, fn, at, fact, oracle string) {
	r.Add(Obligation{Rule: rule, Key: key, Status: Discharged, Func: fn, At: at, Fact: fact, Oracle: oracle})
}

// Fail records a violated obligation.
func (r *Run) Fail(rule, key, fn, at, fact, oracle, reason string) {
	r.Add(Obligation{Rule: rule, Key: key, Status: Violated, Func: fn, At: at, Fact: fact, Oracle: oracle, Reason: reason})
}

// Undecided records an obligation the analysis could not decide (fails).
func (r *Run) Undecided(rule, key, fn, at, reason string) {
	r.Add(Obligation{Rule: rule, Key: key, Status: Undecided, Func: fn, At: at, Reason: reason})
}

// Check records a discharged or violated obligation depending on ok.
func (r *Run) Check(ok bool, rule, key, fn, at, fact, oracle, reason string) bool {
	if ok {
		r.OK(rule, key, fn, at, fact, oracle)
	} else {
		r.Fail(rule, key, fn, at, fact, oracle, reason)
	}
	return ok
}

// Floor declares the minimum number of instances rule must have matched in
// the current configuration (non-vacuity). Evaluated by Finish.
func (r *Run) Floor(rule string, n int) { r.floors[rule+"@"+r.cfg] = n }

// Assume records a trusted-base item relied upon.
func (r *Run) Assume(s string) {
	for _, a := range r.Assumptions {
		if a == s {
			return
		}
	}
	r.Assumptions = append(r.Assumptions, s)
}

// finishFloors turns unmet floors into violations.
func (r *Run) finishFloors() {
	keys := make([]string, 0, len(r.floors))
	for k := range r.floors {
		keys = append(keys, k)
	}
	sort.Strings(keys)
	for _, k := range keys {
		n := r.floors[k]
		if r.counts[k] < n {
			i := strings.LastIndexByte(k, '@')
			r.Obs = append(r.Obs, Obligation{
				Rule: k[:i], Key: "floor", Status: Violated, Config: k[i+1:],
				Fact:   fmt.Sprintf("%d instance(s) matched", r.counts[k]),
				Oracle: fmt.Sprintf(">= %d instances confirmed by reading", n),
				Reason: "anchor-missing: the construct this rule watches was not found",
			})
		}
	}
}

// Known findings file ------------------------------------------------------

type Finding struct {
	Property string `json:"property"`
	Rule     string `json:"rule"`
	Key      string `json:"construct"`
	What     string `json:"what"`
}

type KnownFile struct {
	Comment  string    `json:"comment,omitempty"`
	Findings []Finding `json:"findings"`
	Fixed    []string  `json:"fixed"`
}

func LoadKnown(path string) (*KnownFile, error) {
	b, err := os.ReadFile(path)
	if err != nil {
		if os.IsNotExist(err) {
			return &KnownFile{}, nil
		}
		return nil, err
	}
	var k KnownFile
	if err := json.Unmarshal(b, &k); err != nil {
		return nil, fmt.Errorf("%s: %w", path, err)
	}
	return &k, nil
}

// Result of a finished run.
type Result struct {
	Violations []Obligation // distinct (rule,key) not listed as known
	Known      []Finding    // listed findings re-observed
	NotSeen    []Finding    // listed findings not re-observed (repaired?)
	Replays    []string
}

// Finish evaluates floors, matches known findings, writes evidence + replay
// files under dir and returns the verdict.
func (r *Run) Finish(dir string, known *KnownFile) (*Result, error) {
	r.finishFloors()
	res := &Result{}
	bad := map[string]Obligation{}
	var order []string
	for _, o := range r.Obs {
		if o.Status == Discharged {
			continue
		}
		if _, ok := bad[o.ID()]; !ok {
			bad[o.ID()] = o
			order = append(order, o.ID())
		}
	}
	seenKnown := map[int]bool{}
	for _, id := range order {
		o := bad[id]
		matched := false
		for i, f := range known.Findings {
			if f.Property == r.Property && f.Rule == o.Rule && f.Key == o.Key {
				matched = true
				if !seenKnown[i] {
					seenKnown[i] = true
					res.Known = append(res.Known, f)
				}
			}
		}
		if !matched {
			res.Violations = append(res.Violations, o)
		}
	}
	for i, f := range known.Findings {
		if f.Property == r.Property && !seenKnown[i] {
			res.NotSeen = append(res.NotSeen, f)
		}
	}

	if err := os.MkdirAll(filepath.Join(dir, "replay"), 0o755); err != nil {
		return nil, err
	}
	// Remove stale replay files of this property.
	old, _ := filepath.Glob(filepath.Join(dir, "replay", r.Property+"-*.json"))
	for _, f := range old {
		os.Remove(f)
	}
	for i, o := range res.Violations {
		p := filepath.Join(dir, "replay", fmt.Sprintf("%s-%d.json", r.Property, i+1))
		b, _ := json.MarshalIndent(map[string]any{"property": r.Property, "tier": r.Tier, "obligation": o}, "", " ")
		if err := os.WriteFile(p, append(b, '\n'), 0o644); err != nil {
			return nil, err
		}
		res.Replays = append(res.Replays, p)
	}
	return res, r.writeEvidence(dir, res)
}

func (r *Run) writeEvidence(dir string, res *Result) error {
	total, disch := 0, 0
	distinct := map[string]bool{}
	rules := map[string]int{}
	for _, o := range r.Obs {
		total++
		if o.Status == Discharged {
			disch++
		}
		if o.Key != "floor" {
			distinct[o.ID()] = true
		}
		rules[o.Rule]++
	}
	// Samples: first obligation of each rule, then violations.
	var samples []Obligation
	seenRule := map[string]int{}
	for _, o := range r.Obs {
		if seenRule[o.Rule] < 2 {
			seenRule[o.Rule]++
			samples = append(samples, o)
		}
	}
	for _, o := range r.Obs {
		if o.Status != Discharged && len(samples) < 80 {
			samples = append(samples, o)
		}
	}
	if len(samples) > 80 {
		samples = samples[:80]
	}
	ruleNames := make([]string, 0, len(rules))
	for k := range rules {
		ruleNames = append(ruleNames, k)
	}
	sort.Strings(ruleNames)
	perRule := map[string]int{}
	for _, k := range ruleNames {
		perRule[k] = rules[k]
	}
	cov := map[string]any{
		"explanation":         r.Explanation,
		"obligations":         total,
		"discharged":          disch,
		"evaluations":         total,
		"distinct_nontrivial": len(distinct),
		"rule": "one evaluation per (rule, typed construct, build configuration); distinct = distinct (rule, construct) pairs " +
			"that matched a real site in /repo's current source; an obligation over zero sites is not counted",
		"samples":              samples,
		"obligations_per_rule": perRule,
		"checker_cmd":          strings.Join(os.Args, " "),
		"trusted_base":         r.Assumptions,
		"exhaustive":           false,
		"not_covered":          r.NotCovered,
		"known_findings_seen":  res.Known,
	}
	for k, v := range r.Stats {
		cov[k] = v
	}
	ev := map[string]any{
		"property_id": r.Property,
		"tier":        r.Tier,
		"seed":        r.Seed,
		"level":       "other",
		"coverage":    cov,
		"assumptions": append(append([]string{}, r.Assumptions...), prefixAll("not covered: ", r.NotCovered)...),
		"wall_s":      time.Since(r.Start).Seconds(),
		"violations":  len(res.Violations),
	}
	b, err := json.MarshalIndent(ev, "", " ")
	if err != nil {
		return err
	}
	return os.WriteFile(filepath.Join(dir, r.Property+".json"), append(b, '\n'), 0o644)
}

func prefixAll(p string, ss []string) []string {
	out := make([]string, len(ss))
	for i, s := range ss {
		out[i] = p + s
	}
	return out
}

// Diagnose renders one obligation as a single diagnostic line.
func Diagnose(o Obligation) string {
	var b strings.Builder
	fmt.Fprintf(&b, "rule=%s construct=%q status=%s", o.Rule, o.Key, o.Status)
	if o.Func != "" {
		fmt.Fprintf(&b, " func=%s", o.Func)
	}
	if o.At != "" {
		fmt.Fprintf(&b, " at=%s", o.At)
	}
	if o.Config != "" {
		fmt.Fprintf(&b, " config=%s", o.Config)
	}
	if o.Reason != "" {
		fmt.Fprintf(&b, " reason=%q", o.Reason)
	}
	if o.Fact != "" {
		fmt.Fprintf(&b, " fact=%q", o.Fact)
	}
	if o.Oracle != "" {
		fmt.Fprintf(&b, " oracle=%q", o.Oracle)
	}
	if o.Path != "" {
		fmt.Fprintf(&b, " path=%s", o.Path)
	}
	return b.String()
}
