// Package load loads the CoreRAD module under analysis: type-checked syntax,
// SSA form with instantiated generics and (lazily) a VTA call graph.
//
// Nothing in /repo is executed and nothing in /repo is written: the go command
// is pointed at a private copy of go.mod/go.sum via -modfile.
package load

import (
	"fmt"
	"go/token"
	"go/types"
	"io"
	"os"
	"path/filepath"
	"sort"
	"strings"
	"sync"

	"golang.org/x/tools/go/callgraph"
	"golang.org/x/tools/go/callgraph/cha"
	"golang.org/x/tools/go/callgraph/vta"
	"golang.org/x/tools/go/packages"
	"golang.org/x/tools/go/ssa"
	"golang.org/x/tools/go/ssa/ssautil"
)

// ModulePath is the import path prefix of the module under analysis.
const ModulePath = "github.com/mdlayher/corerad"

// MinPackages is the number of non-test packages confirmed by reading the
// tree; a load that yields fewer cannot certify anything.
const MinPackages = 9

// A Config selects the build configuration.
type Config struct {
	Repo    string // path of the tree under analysis
	GOOS    string
	GOARCH  string
	Overlay map[string][]byte // in-memory file replacements (self-test only)
	WorkDir string            // scratch dir for the private go.mod copy
}

func (c Config) String() string { return c.GOOS + "/" + c.GOARCH }

// A Program is one loaded build configuration.
type Program struct {
	Cfg  Config
	Fset *token.FileSet
	Pkgs []*packages.Package // module packages only, sorted by path
	All  []*packages.Package // every package reached
	SSA  *ssa.Program

	byPath map[string]*packages.Package
	ssaPkg map[string]*ssa.Package

	cgOnce sync.Once
	cg     *callgraph.Graph
	cgErr  error

	srcOnce  sync.Once
	srcFuncs []*ssa.Function
}

// RepoDir returns the tree to analyse: $VERIF_REPO or /repo.
func RepoDir() string {
	if r := os.Getenv("VERIF_REPO"); r != "" {
		return r
	}
	return "/repo"
}

func copyFile(dst, src string) error {
	in, err := os.Open(src)
	if err != nil {
		return err
	}
	defer in.Close()
	out, err := os.Create(dst)
	if err != nil {
		return err
	}
	if _, err := io.Copy(out, in); err != nil {
		out.Close()
		return err
	}
	return out.Close()
}

// Load loads one configuration. It fails (error) when any module package has
// type errors or when fewer than MinPackages packages are found.
func Load(cfg Config) (*Program, error) {
	if cfg.Repo == "" {
		cfg.Repo = RepoDir()
	}
	if cfg.GOOS == "" {
		cfg.GOOS = "linux"
	}
	if cfg.GOARCH == "" {
		cfg.GOARCH = "amd64"
	}
	work := cfg.WorkDir
	if work == "" {
		exe, _ := os.Executable()
		base := filepath.Join(filepath.Dir(filepath.Dir(exe)), ".work")
		if os.Getenv("VERIF_WORK") != "" {
			base = os.Getenv("VERIF_WORK")
		}
		work = filepath.Join(base, fmt.Sprintf("%d-%s-%s", os.Getpid(), cfg.GOOS, cfg.GOARCH))
	}
	if err := os.MkdirAll(work, 0o755); err != nil {
		return nil, err
	}
	defer os.RemoveAll(work)
	if err := copyFile(filepath.Join(work, "go.mod"), filepath.Join(cfg.Repo, "go.mod")); err != nil {
		return nil, err
	}
	if err := copyFile(filepath.Join(work, "go.sum"), filepath.Join(cfg.Repo, "go.sum")); err != nil {
		return nil, err
	}

	env := []string{}
	for _, kv := range os.Environ() {
		k := kv
		if i := strings.IndexByte(kv, '='); i >= 0 {
			k = kv[:i]
		}
		switch k {
		case "GOFLAGS", "GOPROXY", "GOSUMDB", "GOWORK", "GOTOOLCHAIN", "GOOS", "GOARCH", "CGO_ENABLED", "GO111MODULE":
			continue
		}
		env = append(env, kv)
	}
	env = append(env,
		"GOFLAGS=-mod=mod",
		"GOPROXY=off",
		"GOSUMDB=off",
		"GOWORK=off",
		"GOTOOLCHAIN=local",
		"GO111MODULE=on",
		"CGO_ENABLED=0",
		"GOOS="+cfg.GOOS,
		"GOARCH="+cfg.GOARCH,
	)

	fset := token.NewFileSet()
	pc := &packages.Config{
		Mode:       packages.LoadAllSyntax,
		Dir:        cfg.Repo,
		Env:        env,
		Fset:       fset,
		Tests:      false,
		BuildFlags: []string{"-modfile=" + filepath.Join(work, "go.mod")},
		Overlay:    cfg.Overlay,
	}
	roots, err := packages.Load(pc, "./...")
	if err != nil {
		return nil, fmt.Errorf("packages.Load: %w", err)
	}
	p := &Program{Cfg: cfg, Fset: fset, byPath: map[string]*packages.Package{}, ssaPkg: map[string]*ssa.Package{}}
	var errs []string
	packages.Visit(roots, nil, func(pk *packages.Package) {
		p.All = append(p.All, pk)
		if pk.PkgPath == ModulePath || strings.HasPrefix(pk.PkgPath, ModulePath+"/") {
			for _, e := range pk.Errors {
				errs = append(errs, e.Error())
			}
			if pk.IllTyped {
				errs = append(errs, pk.PkgPath+": ill-typed")
			}
		}
	})
	for _, pk := range roots {
		p.Pkgs = append(p.Pkgs, pk)
		p.byPath[pk.PkgPath] = pk
	}
	sort.Slice(p.Pkgs, func(i, j int) bool { return p.Pkgs[i].PkgPath < p.Pkgs[j].PkgPath })
	if len(errs) > 0 {
		sort.Strings(errs)
		if len(errs) > 10 {
			errs = errs[:10]
		}
		return nil, fmt.Errorf("type errors in %s: %s", cfg, strings.Join(errs, "; "))
	}
	if len(p.Pkgs) < MinPackages {
		return nil, fmt.Errorf("only %d module packages loaded in %s (expected >= %d)", len(p.Pkgs), cfg, MinPackages)
	}

	prog, spkgs := ssautil.AllPackages(roots, ssa.InstantiateGenerics)
	prog.Build()
	p.SSA = prog
	for i, pk := range roots {
		if spkgs[i] == nil {
			return nil, fmt.Errorf("no SSA for %s", pk.PkgPath)
		}
		p.ssaPkg[pk.PkgPath] = spkgs[i]
	}
	return p, nil
}

// Pkg returns the module package whose import path is ModulePath+"/"+rel
// (rel like "internal/config"), or nil.
func (p *Program) Pkg(rel string) *ssa.Package {
	return p.ssaPkg[ModulePath+"/"+rel]
}

// TypesPkg returns the go/packages package for rel.
func (p *Program) TypesPkg(rel string) *packages.Package {
	return p.byPath[ModulePath+"/"+rel]
}

// Func returns the package-level function rel.name, or nil.
func (p *Program) Func(rel, name string) *ssa.Function {
	sp := p.Pkg(rel)
	if sp == nil {
		return nil
	}
	return sp.Func(name)
}

// Method returns method name of named type typ in package rel (pointer or
// value receiver), or nil.
func (p *Program) Method(rel, typ, name string) *ssa.Function {
	sp := p.Pkg(rel)
	if sp == nil {
		return nil
	}
	obj := sp.Pkg.Scope().Lookup(typ)
	if obj == nil {
		return nil
	}
	tn, ok := obj.(*types.TypeName)
	if !ok {
		return nil
	}
	for _, t := range []types.Type{tn.Type(), types.NewPointer(tn.Type())} {
		ms := p.SSA.MethodSets.MethodSet(t)
		for i := 0; i < ms.Len(); i++ {
			sel := ms.At(i)
			if sel.Obj().Name() == name && sel.Obj().Pkg() == sp.Pkg {
				if fn := p.SSA.MethodValue(sel); fn != nil {
					// Prefer the declared (non-wrapper) function.
					if fn.Synthetic != "" {
						if decl := p.SSA.FuncValue(sel.Obj().(*types.Func)); decl != nil {
							return decl
						}
					}
					return fn
				}
			}
		}
	}
	return nil
}

// Named returns the named type rel.name, or nil.
func (p *Program) Named(rel, name string) *types.Named {
	sp := p.Pkg(rel)
	if sp == nil {
		return nil
	}
	obj := sp.Pkg.Scope().Lookup(name)
	if obj == nil {
		return nil
	}
	n, _ := obj.Type().(*types.Named)
	return n
}

// InModule reports whether fn belongs to the module under analysis
// (including instantiations of module generics and anonymous functions).
// InModulePkg reports whether pkg belongs to the analysed module.
func InModulePkg(pkg *ssa.Package) bool {
	if pkg == nil || pkg.Pkg == nil {
		return false
	}
	pp := pkg.Pkg.Path()
	return pp == ModulePath || strings.HasPrefix(pp, ModulePath+"/")
}

func InModule(fn *ssa.Function) bool {
	if fn == nil {
		return false
	}
	for fn.Parent() != nil {
		fn = fn.Parent()
	}
	if o := fn.Origin(); o != nil {
		fn = o
	}
	if fn.Pkg != nil {
		pp := fn.Pkg.Pkg.Path()
		return pp == ModulePath || strings.HasPrefix(pp, ModulePath+"/")
	}
	if fn.Object() != nil && fn.Object().Pkg() != nil {
		pp := fn.Object().Pkg().Path()
		return pp == ModulePath || strings.HasPrefix(pp, ModulePath+"/")
	}
	return false
}

// SrcFuncs returns every function with a body that belongs to the module
// (declared functions, methods, anonymous functions, generic instantiations),
// excluding synthetic wrappers, sorted by position.
func (p *Program) SrcFuncs() []*ssa.Function {
	p.srcOnce.Do(func() {
		all := ssautil.AllFunctions(p.SSA)
		for fn := range all {
			if fn.Blocks == nil || !InModule(fn) {
				continue
			}
			if fn.Synthetic != "" && !strings.HasPrefix(fn.Synthetic, "instance of") {
				continue
			}
			p.srcFuncs = append(p.srcFuncs, fn)
		}
		sort.Slice(p.srcFuncs, func(i, j int) bool {
			a, b := p.srcFuncs[i], p.srcFuncs[j]
			pa, pb := p.Fset.Position(a.Pos()), p.Fset.Position(b.Pos())
			if pa.Filename != pb.Filename {
				return pa.Filename < pb.Filename
			}
			if pa.Offset != pb.Offset {
				return pa.Offset < pb.Offset
			}
			return a.String() < b.String()
		})
	})
	return p.srcFuncs
}

// CallGraph returns the VTA call graph (over a CHA seed), built on first use.
func (p *Program) CallGraph() *callgraph.Graph {
	p.cgOnce.Do(func() {
		all := ssautil.AllFunctions(p.SSA)
		p.cg = vta.CallGraph(all, cha.CallGraph(p.SSA))
	})
	return p.cg
}

// Pos renders a position relative to the repository root.
func (p *Program) Pos(pos token.Pos) string {
	if !pos.IsValid() {
		return "-"
	}
	ps := p.Fset.Position(pos)
	rel, err := filepath.Rel(p.Cfg.Repo, ps.Filename)
	if err != nil || strings.HasPrefix(rel, "..") {
		rel = ps.Filename
	}
	return fmt.Sprintf("%s:%d", rel, ps.Line)
}

// FuncName renders a function name without the module prefix.
func FuncName(fn *ssa.Function) string {
	if fn == nil {
		return "<nil>"
	}
	s := fn.String()
	s = strings.ReplaceAll(s, ModulePath+"/internal/", "")
	s = strings.ReplaceAll(s, ModulePath+"/", "")
	return s
}
