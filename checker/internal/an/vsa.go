package an

import (
	"fmt"
	"go/constant"
	"go/token"
	"go/types"
	"math/big"
	"sort"
	"strings"
)

// Lin is a linear form Σ T[s]·s + C over symbols (canonical expression
// strings) with rational coefficients.
type Lin struct {
	C *big.Rat
	T map[string]*big.Rat
}

func NewLin(c *big.Rat) Lin { return Lin{C: new(big.Rat).Set(c), T: map[string]*big.Rat{}} }

func LinConst(n int64) Lin { return NewLin(new(big.Rat).SetInt64(n)) }

func LinSym(s string) Lin {
	l := NewLin(new(big.Rat))
	l.T[s] = big.NewRat(1, 1)
	return l
}

func (l Lin) clone() Lin {
	n := NewLin(l.C)
	for k, v := range l.T {
		n.T[k] = new(big.Rat).Set(v)
	}
	return n
}

func (l Lin) Add(m Lin) Lin {
	n := l.clone()
	n.C.Add(n.C, m.C)
	for k, v := range m.T {
		if cur, ok := n.T[k]; ok {
			cur.Add(cur, v)
			if cur.Sign() == 0 {
				delete(n.T, k)
			}
		} else {
			n.T[k] = new(big.Rat).Set(v)
		}
	}
	return n
}

func (l Lin) Scale(q *big.Rat) Lin {
	n := NewLin(new(big.Rat).Mul(l.C, q))
	if q.Sign() == 0 {
		return n
	}
	for k, v := range l.T {
		n.T[k] = new(big.Rat).Mul(v, q)
	}
	return n
}

func (l Lin) Sub(m Lin) Lin { return l.Add(m.Scale(big.NewRat(-1, 1))) }

func (l Lin) IsConst() bool { return len(l.T) == 0 }

func (l Lin) Syms() []string {
	var out []string
	for k := range l.T {
		out = append(out, k)
	}
	sort.Strings(out)
	return out
}

func ratStr(r *big.Rat) string {
	if r.IsInt() {
		return r.Num().String()
	}
	return r.RatString()
}

func (l Lin) String() string {
	var parts []string
	for _, s := range l.Syms() {
		c := l.T[s]
		switch {
		case c.Cmp(big.NewRat(1, 1)) == 0:
			parts = append(parts, s)
		default:
			parts = append(parts, ratStr(c)+"·"+s)
		}
	}
	if l.C.Sign() != 0 || len(parts) == 0 {
		parts = append(parts, ratStr(l.C))
	}
	return strings.Join(parts, " + ")
}

func (l Lin) Equal(m Lin) bool {
	d := l.Sub(m)
	return d.IsConst() && d.C.Sign() == 0
}

// Rounding mode of a normal form.
const (
	ModeNone  = 0
	ModeTrunc = 1 // toward zero to a multiple of Unit
	ModeRound = 2 // half away from zero to a multiple of Unit
)

// NF is a normal form f(Lin) where f is identity, truncation or rounding to a
// multiple of Unit.
type NF struct {
	Lin  Lin
	Mode int
	Unit *big.Rat
}

func (n *NF) String() string {
	switch n.Mode {
	case ModeTrunc:
		return fmt.Sprintf("trunc[%s](%s)", ratStr(n.Unit), n.Lin)
	case ModeRound:
		return fmt.Sprintf("round[%s](%s)", ratStr(n.Unit), n.Lin)
	}
	return n.Lin.String()
}

func (n *NF) Equal(m *NF) bool {
	if n.Mode != m.Mode {
		return false
	}
	if n.Mode != ModeNone && n.Unit.Cmp(m.Unit) != 0 {
		return false
	}
	return n.Lin.Equal(m.Lin)
}

func (n *NF) IsConst() (*big.Rat, bool) {
	if !n.Lin.IsConst() {
		return nil, false
	}
	return applyMode(n.Lin.C, n.Mode, n.Unit), true
}

func applyMode(v *big.Rat, mode int, unit *big.Rat) *big.Rat {
	if mode == ModeNone {
		return new(big.Rat).Set(v)
	}
	q := new(big.Rat).Quo(v, unit)
	var k *big.Int
	switch mode {
	case ModeTrunc:
		k = new(big.Int).Quo(q.Num(), q.Denom()) // truncates toward zero
	case ModeRound:
		// half away from zero
		two := big.NewRat(2, 1)
		h := new(big.Rat).Mul(q, two)
		if q.Sign() >= 0 {
			h.Add(h, big.NewRat(1, 1))
		} else {
			h.Sub(h, big.NewRat(1, 1))
		}
		h.Quo(h, two)
		k = new(big.Int).Quo(h.Num(), h.Denom())
	}
	return new(big.Rat).Mul(new(big.Rat).SetInt(k), unit)
}

func isFloat(t types.Type) bool {
	if t == nil {
		return false
	}
	b, ok := t.Underlying().(*types.Basic)
	return ok && b.Info()&types.IsFloat != 0
}

func isInteger(t types.Type) bool {
	if t == nil {
		return false
	}
	b, ok := t.Underlying().(*types.Basic)
	return ok && b.Info()&types.IsInteger != 0
}

// Norm normalises an integer/float/duration expression. Symbols are the
// canonical strings of non-arithmetic sub-expressions. ok is false when the
// expression uses an operation without a model.
func Norm(e *Expr) (*NF, bool) {
	switch e.Op {
	case OpConst:
		if e.Cval == nil {
			return nil, false
		}
		switch e.Cval.Kind() {
		case constant.Int, constant.Float:
			r, ok := ratOf(e.Cval)
			if !ok {
				return nil, false
			}
			return &NF{Lin: NewLin(r)}, true
		}
		return nil, false
	case OpParam, OpField, OpGlobal, OpExtract, OpLoop, OpElem, OpLen, OpFreeVar:
		if !isInteger(e.Typ) && !isFloat(e.Typ) {
			return nil, false
		}
		return &NF{Lin: LinSym(e.String())}, true
	case OpZero:
		return &NF{Lin: LinConst(0)}, true
	case OpConv:
		x, ok := Norm(e.Args[0])
		if !ok {
			return nil, false
		}
		from := e.Args[0].Typ
		switch {
		case isFloat(e.Typ):
			// int→float or float→float: exact in the modelled ranges
			return x, true
		case isInteger(e.Typ) && isFloat(from):
			return truncNF(x, big.NewRat(1, 1))
		case isInteger(e.Typ) && isInteger(from):
			// narrowing/widening integer conversion: value preserved when in range (checked by rules)
			return x, true
		}
		return nil, false
	case OpUn:
		if e.Tok == token.SUB {
			x, ok := Norm(e.Args[0])
			if !ok || x.Mode != ModeNone {
				return nil, false
			}
			return &NF{Lin: x.Lin.Scale(big.NewRat(-1, 1))}, true
		}
		return nil, false
	case OpBin:
		x, okx := Norm(e.Args[0])
		y, oky := Norm(e.Args[1])
		if !okx || !oky {
			return nil, false
		}
		switch e.Tok {
		case token.ADD, token.SUB:
			sign := big.NewRat(1, 1)
			if e.Tok == token.SUB {
				sign = big.NewRat(-1, 1)
			}
			if x.Mode == ModeNone && y.Mode == ModeNone {
				return &NF{Lin: x.Lin.Add(y.Lin.Scale(sign))}, true
			}
			// trunc_u(L) ± k·u
			if x.Mode != ModeNone && y.Mode == ModeNone && y.Lin.IsConst() && isMultiple(y.Lin.C, x.Unit) {
				return &NF{Lin: x.Lin.Add(y.Lin.Scale(sign)), Mode: x.Mode, Unit: x.Unit}, true
			}
			if y.Mode != ModeNone && x.Mode == ModeNone && x.Lin.IsConst() && isMultiple(x.Lin.C, y.Unit) && e.Tok == token.ADD {
				return &NF{Lin: y.Lin.Add(x.Lin), Mode: y.Mode, Unit: y.Unit}, true
			}
			return nil, false
		case token.MUL:
			if cy, ok := y.IsConst(); ok {
				return scaleNF(x, cy)
			}
			if cx, ok := x.IsConst(); ok {
				return scaleNF(y, cx)
			}
			return nil, false
		case token.QUO:
			cy, ok := y.IsConst()
			if !ok || cy.Sign() == 0 {
				return nil, false
			}
			inv := new(big.Rat).Inv(cy)
			s, ok := scaleNF(x, inv)
			if !ok {
				return nil, false
			}
			if isInteger(e.Typ) {
				return truncNF(s, big.NewRat(1, 1))
			}
			return s, true
		}
		return nil, false
	case OpCall:
		if e.Fn == nil {
			return nil, false
		}
		switch e.Fn.String() {
		case "(time.Duration).Truncate", "(time.Duration).Round":
			x, ok := Norm(e.Args[0])
			m, ok2 := Norm(e.Args[1])
			if !ok || !ok2 {
				return nil, false
			}
			u, isC := m.IsConst()
			if !isC || u.Sign() <= 0 {
				return nil, false
			}
			if e.Fn.Name() == "Truncate" {
				return truncNF(x, u)
			}
			if x.Mode == ModeNone {
				return &NF{Lin: x.Lin, Mode: ModeRound, Unit: u}, true
			}
			if x.Mode != ModeNone && isMultiple(x.Unit, u) {
				return x, true // already a multiple of u
			}
			return nil, false
		case "(time.Duration).Nanoseconds":
			return Norm(e.Args[0])
		case "(time.Duration).Seconds":
			x, ok := Norm(e.Args[0])
			if !ok {
				return nil, false
			}
			return scaleNF(x, big.NewRat(1, 1000000000))
		case "(time.Duration).Milliseconds":
			x, ok := Norm(e.Args[0])
			if !ok {
				return nil, false
			}
			s, ok := scaleNF(x, big.NewRat(1, 1000000))
			if !ok {
				return nil, false
			}
			return truncNF(s, big.NewRat(1, 1))
		}
		// opaque numeric call result: a symbol
		if isInteger(e.Typ) || isFloat(e.Typ) {
			return &NF{Lin: LinSym(e.String())}, true
		}
		return nil, false
	}
	return nil, false
}

func ratOf(v constant.Value) (*big.Rat, bool) {
	switch v.Kind() {
	case constant.Int:
		if i, ok := constant.Int64Val(v); ok {
			return new(big.Rat).SetInt64(i), true
		}
		if u, ok := constant.Uint64Val(v); ok {
			return new(big.Rat).SetInt(new(big.Int).SetUint64(u)), true
		}
		r, ok := new(big.Rat).SetString(v.ExactString())
		return r, ok
	case constant.Float:
		r, ok := new(big.Rat).SetString(v.ExactString())
		return r, ok
	}
	return nil, false
}

func isMultiple(v, unit *big.Rat) bool {
	if unit == nil || unit.Sign() == 0 {
		return false
	}
	q := new(big.Rat).Quo(v, unit)
	return q.IsInt()
}

func truncNF(x *NF, u *big.Rat) (*NF, bool) {
	switch x.Mode {
	case ModeNone:
		return &NF{Lin: x.Lin, Mode: ModeTrunc, Unit: u}, true
	case ModeTrunc:
		// trunc_u(trunc_v(L)) = trunc_u(L) when u is a multiple of v (same sign behaviour)
		if isMultiple(u, x.Unit) {
			return &NF{Lin: x.Lin, Mode: ModeTrunc, Unit: u}, true
		}
		if isMultiple(x.Unit, u) {
			return x, true
		}
	case ModeRound:
		if isMultiple(x.Unit, u) {
			return x, true
		}
	}
	return nil, false
}

func scaleNF(x *NF, q *big.Rat) (*NF, bool) {
	if x.Mode == ModeNone {
		return &NF{Lin: x.Lin.Scale(q)}, true
	}
	if q.Sign() > 0 {
		return &NF{Lin: x.Lin.Scale(q), Mode: x.Mode, Unit: new(big.Rat).Mul(x.Unit, q)}, true
	}
	if q.Sign() == 0 {
		return &NF{Lin: LinConst(0)}, true
	}
	return nil, false
}

// ---- numeric ranges -------------------------------------------------------

// Rng is a closed rational interval; nil bound = unbounded.
type Rng struct{ Lo, Hi *big.Rat }

func (r Rng) String() string {
	lo, hi := "-∞", "+∞"
	if r.Lo != nil {
		lo = ratStr(r.Lo)
	}
	if r.Hi != nil {
		hi = ratStr(r.Hi)
	}
	return "[" + lo + "," + hi + "]"
}

func (r Rng) Empty() bool { return r.Lo != nil && r.Hi != nil && r.Lo.Cmp(r.Hi) > 0 }

func (r Rng) Intersect(o Rng) Rng {
	n := Rng{r.Lo, r.Hi}
	if o.Lo != nil && (n.Lo == nil || o.Lo.Cmp(n.Lo) > 0) {
		n.Lo = o.Lo
	}
	if o.Hi != nil && (n.Hi == nil || o.Hi.Cmp(n.Hi) < 0) {
		n.Hi = o.Hi
	}
	return n
}

// Env maps symbols to numeric ranges.
type Env map[string]Rng

// RangeOf evaluates the numeric range of a normal form under env by interval
// arithmetic (monotone for trunc/round).
func (env Env) RangeOf(n *NF) Rng {
	lo := new(big.Rat).Set(n.Lin.C)
	hi := new(big.Rat).Set(n.Lin.C)
	loInf, hiInf := false, false
	for s, c := range n.Lin.T {
		r, ok := env[s]
		if !ok {
			r = Rng{}
		}
		a, b := r.Lo, r.Hi
		if c.Sign() < 0 {
			a, b = b, a // contributes c*b to lo (b is upper) ...
			// for negative c: lo += c*Hi, hi += c*Lo
		}
		if a == nil {
			loInf = true
		} else {
			lo.Add(lo, new(big.Rat).Mul(c, a))
		}
		if b == nil {
			hiInf = true
		} else {
			hi.Add(hi, new(big.Rat).Mul(c, b))
		}
	}
	out := Rng{}
	if !loInf {
		out.Lo = applyMode(lo, n.Mode, n.Unit)
	}
	if !hiInf {
		out.Hi = applyMode(hi, n.Mode, n.Unit)
	}
	return out
}

// Tri is a three-valued truth value.
type Tri int

const (
	TriUnknown Tri = iota
	TriTrue
	TriFalse
)

func (t Tri) Not() Tri {
	switch t {
	case TriTrue:
		return TriFalse
	case TriFalse:
		return TriTrue
	}
	return TriUnknown
}

// Compare decides `a tok b` under env when the ranges allow it. When both are
// plain linear forms the difference is formed first (relational precision).
func (env Env) Compare(a *NF, tok token.Token, b *NF) Tri {
	var d Rng
	if a.Mode == ModeNone && b.Mode == ModeNone {
		d = env.RangeOf(&NF{Lin: a.Lin.Sub(b.Lin)})
	} else {
		ra, rb := env.RangeOf(a), env.RangeOf(b)
		if ra.Lo != nil && rb.Hi != nil {
			d.Lo = new(big.Rat).Sub(ra.Lo, rb.Hi)
		}
		if ra.Hi != nil && rb.Lo != nil {
			d.Hi = new(big.Rat).Sub(ra.Hi, rb.Lo)
		}
		if a.Equal(b) {
			d = Rng{new(big.Rat), new(big.Rat)}
		}
		// relational relaxation: bound trunc/round by linear forms and compare
		// the linear difference (keeps the correlation between a and b)
		aLo, aHi := env.relax(a)
		bLo, bHi := env.relax(b)
		if aHi != nil && bLo != nil {
			r := env.RangeOf(&NF{Lin: aHi.Sub(*bLo)})
			if r.Hi != nil && (d.Hi == nil || r.Hi.Cmp(d.Hi) < 0) {
				d.Hi = r.Hi
			}
		}
		if aLo != nil && bHi != nil {
			r := env.RangeOf(&NF{Lin: aLo.Sub(*bHi)})
			if r.Lo != nil && (d.Lo == nil || r.Lo.Cmp(d.Lo) > 0) {
				d.Lo = r.Lo
			}
		}
	}
	neg := d.Hi != nil && d.Hi.Sign() < 0     // a < b surely
	nonpos := d.Hi != nil && d.Hi.Sign() <= 0 // a <= b surely
	pos := d.Lo != nil && d.Lo.Sign() > 0
	nonneg := d.Lo != nil && d.Lo.Sign() >= 0
	zero := nonpos && nonneg
	switch tok {
	case token.LSS:
		if neg {
			return TriTrue
		}
		if nonneg {
			return TriFalse
		}
	case token.LEQ:
		if nonpos {
			return TriTrue
		}
		if pos {
			return TriFalse
		}
	case token.GTR:
		if pos {
			return TriTrue
		}
		if nonpos {
			return TriFalse
		}
	case token.GEQ:
		if nonneg {
			return TriTrue
		}
		if neg {
			return TriFalse
		}
	case token.EQL:
		if zero {
			return TriTrue
		}
		if neg || pos {
			return TriFalse
		}
	case token.NEQ:
		if zero {
			return TriFalse
		}
		if neg || pos {
			return TriTrue
		}
	}
	return TriUnknown
}

// relax bounds a normal form by linear forms: lo <= n <= hi. For truncation
// (toward zero) of a non-negative value: L-u < trunc(L) <= L (we return L-u,
// sound as a non-strict bound); for rounding: L-u/2 <= round(L) <= L+u/2.
func (env Env) relax(n *NF) (lo, hi *Lin) {
	switch n.Mode {
	case ModeNone:
		l := n.Lin
		return &l, &l
	case ModeTrunc:
		r := env.RangeOf(&NF{Lin: n.Lin})
		if r.Lo == nil || r.Lo.Sign() < 0 {
			return nil, nil
		}
		h := n.Lin
		l := n.Lin.Sub(NewLin(n.Unit))
		return &l, &h
	case ModeRound:
		half := new(big.Rat).Quo(n.Unit, big.NewRat(2, 1))
		h := n.Lin.Add(NewLin(half))
		l := n.Lin.Sub(NewLin(half))
		return &l, &h
	}
	return nil, nil
}

// EvalRange evaluates the numeric range of an integer/duration expression by
// interval arithmetic over env (symbols = canonical strings of leaves). It
// models %, which normal forms cannot.
func EvalRange(e *Expr, env Env) (Rng, bool) {
	if nf, ok := Norm(e); ok {
		r := env.RangeOf(nf)
		return r, r.Lo != nil && r.Hi != nil
	}
	switch e.Op {
	case OpPhi:
		var out Rng
		for i, a := range e.Args {
			r, ok := EvalRange(a, env)
			if !ok {
				return Rng{}, false
			}
			if i == 0 {
				out = r
				continue
			}
			if r.Lo.Cmp(out.Lo) < 0 {
				out.Lo = r.Lo
			}
			if r.Hi.Cmp(out.Hi) > 0 {
				out.Hi = r.Hi
			}
		}
		return out, len(e.Args) > 0
	case OpConv:
		r, ok := EvalRange(e.Args[0], env)
		if !ok {
			return r, false
		}
		if isInteger(e.Typ) && isFloat(e.Args[0].Typ) {
			return Rng{applyMode(r.Lo, ModeTrunc, big.NewRat(1, 1)), applyMode(r.Hi, ModeTrunc, big.NewRat(1, 1))}, true
		}
		return r, true
	case OpBin:
		x, okx := EvalRange(e.Args[0], env)
		y, oky := EvalRange(e.Args[1], env)
		if !okx || !oky {
			return Rng{}, false
		}
		switch e.Tok {
		case token.ADD:
			return Rng{new(big.Rat).Add(x.Lo, y.Lo), new(big.Rat).Add(x.Hi, y.Hi)}, true
		case token.SUB:
			return Rng{new(big.Rat).Sub(x.Lo, y.Hi), new(big.Rat).Sub(x.Hi, y.Lo)}, true
		case token.MUL:
			c := []*big.Rat{new(big.Rat).Mul(x.Lo, y.Lo), new(big.Rat).Mul(x.Lo, y.Hi), new(big.Rat).Mul(x.Hi, y.Lo), new(big.Rat).Mul(x.Hi, y.Hi)}
			lo, hi := c[0], c[0]
			for _, v := range c {
				if v.Cmp(lo) < 0 {
					lo = v
				}
				if v.Cmp(hi) > 0 {
					hi = v
				}
			}
			return Rng{lo, hi}, true
		case token.REM:
			if y.Lo.Cmp(y.Hi) == 0 && y.Lo.Sign() > 0 && x.Lo.Sign() >= 0 {
				return Rng{new(big.Rat), new(big.Rat).Sub(y.Lo, big.NewRat(1, 1))}, true
			}
		case token.QUO:
			if y.Lo.Cmp(y.Hi) == 0 && y.Lo.Sign() > 0 {
				lo, hi := new(big.Rat).Quo(x.Lo, y.Lo), new(big.Rat).Quo(x.Hi, y.Lo)
				if isInteger(e.Typ) {
					lo, hi = applyMode(lo, ModeTrunc, big.NewRat(1, 1)), applyMode(hi, ModeTrunc, big.NewRat(1, 1))
				}
				return Rng{lo, hi}, true
			}
		}
	case OpCall:
		if e.Fn == nil && (e.Name == "min" || e.Name == "max") && len(e.Args) >= 1 {
			// builtin min/max
			var out Rng
			for i, a := range e.Args {
				r, ok := EvalRange(a, env)
				if !ok {
					return Rng{}, false
				}
				if i == 0 {
					out = r
					continue
				}
				pick := func(x, y *big.Rat) *big.Rat {
					if (e.Name == "min") == (x.Cmp(y) < 0) {
						return x
					}
					return y
				}
				out = Rng{pick(out.Lo, r.Lo), pick(out.Hi, r.Hi)}
			}
			return out, true
		}
		if e.Fn != nil {
			switch e.Fn.String() {
			case "(time.Duration).Seconds":
				r, ok := EvalRange(e.Args[0], env)
				if !ok {
					return r, false
				}
				q := big.NewRat(1, 1000000000)
				return Rng{new(big.Rat).Mul(r.Lo, q), new(big.Rat).Mul(r.Hi, q)}, true
			}
		}
	}
	return Rng{}, false
}
