// Package an holds the analysis engines shared by the rules: CFG facts
// (post-dominators, control dependence, guards, path queries), symbolic
// expression extraction (SEE), the value-set interpreter (VSA) and structural
// queries (STRUCT).
package an

import (
	"fmt"
	"go/token"
	"sort"
	"strings"

	"golang.org/x/tools/go/ssa"
)

// FuncInfo caches per-function CFG facts.
type FuncInfo struct {
	Fn    *ssa.Function
	n     int
	pdom  [][]bool // pdom[a][b]: b post-dominates a (b on every path a→exit); index n = virtual exit
	cdep  map[int][]Edge
	reach [][]bool // reach[a][b]: path of length >= 1 from a to b
}

// An Edge is the k-th successor edge of block From.
type Edge struct {
	From *ssa.BasicBlock
	K    int
}

func (e Edge) To() *ssa.BasicBlock { return e.From.Succs[e.K] }

var infoCache = map[*ssa.Function]*FuncInfo{}

// Info returns CFG facts for fn.
func Info(fn *ssa.Function) *FuncInfo {
	if fi, ok := infoCache[fn]; ok {
		return fi
	}
	fi := &FuncInfo{Fn: fn, n: len(fn.Blocks)}
	fi.computePostDom()
	fi.computeReach()
	infoCache[fn] = fi
	return fi
}

// ResetCache drops cached function facts (between program loads).
func ResetCache() { infoCache = map[*ssa.Function]*FuncInfo{} }

func (fi *FuncInfo) computePostDom() {
	n := fi.n
	exit := n
	// succs including virtual exit
	succs := make([][]int, n+1)
	for _, b := range fi.Fn.Blocks {
		if len(b.Succs) == 0 {
			succs[b.Index] = []int{exit}
			continue
		}
		for _, s := range b.Succs {
			succs[b.Index] = append(succs[b.Index], s.Index)
		}
	}
	pd := make([][]bool, n+1)
	for i := range pd {
		pd[i] = make([]bool, n+1)
		for j := range pd[i] {
			pd[i][j] = true
		}
	}
	for j := range pd[exit] {
		pd[exit][j] = j == exit
	}
	changed := true
	for changed {
		changed = false
		for i := n - 1; i >= 0; i-- {
			// new = {i} ∪ ⋂ pd[s]
			nw := make([]bool, n+1)
			for j := range nw {
				nw[j] = true
			}
			if len(succs[i]) == 0 {
				for j := range nw {
					nw[j] = false
				}
			}
			for _, s := range succs[i] {
				for j := range nw {
					nw[j] = nw[j] && pd[s][j]
				}
			}
			nw[i] = true
			for j := range nw {
				if nw[j] != pd[i][j] {
					changed = true
				}
			}
			pd[i] = nw
		}
	}
	fi.pdom = pd
	// Blocks that cannot reach exit (infinite loops without exit) keep "all true"; acceptable:
	// such blocks are treated as post-dominated by everything, which only adds no control deps.

	// control dependence: B cd on (A,k) iff B pdom A.Succs[k] (or equal) and B does not strictly pdom A.
	fi.cdep = map[int][]Edge{}
	for _, a := range fi.Fn.Blocks {
		if len(a.Succs) < 2 {
			continue
		}
		for k, s := range a.Succs {
			for b := 0; b < n; b++ {
				if !pd[s.Index][b] {
					continue
				}
				if b != a.Index && pd[a.Index][b] {
					continue // strictly post-dominates a
				}
				fi.cdep[b] = append(fi.cdep[b], Edge{a, k})
			}
		}
	}
}

func (fi *FuncInfo) computeReach() {
	n := fi.n
	r := make([][]bool, n)
	for i := range r {
		r[i] = make([]bool, n)
	}
	for _, b := range fi.Fn.Blocks {
		// BFS
		var stack []*ssa.BasicBlock
		stack = append(stack, b.Succs...)
		for len(stack) > 0 {
			x := stack[len(stack)-1]
			stack = stack[:len(stack)-1]
			if r[b.Index][x.Index] {
				continue
			}
			r[b.Index][x.Index] = true
			stack = append(stack, x.Succs...)
		}
	}
	fi.reach = r
}

// Reaches reports whether a path of length >= 1 leads from a to b.
func (fi *FuncInfo) Reaches(a, b *ssa.BasicBlock) bool { return fi.reach[a.Index][b.Index] }

// PostDominates reports whether b is on every path from a to a function exit.
func (fi *FuncInfo) PostDominates(b, a *ssa.BasicBlock) bool { return fi.pdom[a.Index][b.Index] }

// ControlDeps returns the branch edges b is directly control dependent on.
func (fi *FuncInfo) ControlDeps(b *ssa.BasicBlock) []Edge { return fi.cdep[b.Index] }

// An Atom is a branch condition with the polarity needed.
type Atom struct {
	Cond ssa.Value
	Pos  bool
}

// A Conj is a conjunction of atoms; a DNF a disjunction of conjunctions.
type Conj []Atom
type DNF []Conj

// Guard returns the condition under which control reaches block b from the
// function entry, as a DNF over branch conditions, following control
// dependence transitively (cycles through loop back edges are cut).
func (fi *FuncInfo) Guard(b *ssa.BasicBlock) DNF {
	return fi.guard(b, map[int]bool{})
}

func (fi *FuncInfo) guard(b *ssa.BasicBlock, onstack map[int]bool) DNF {
	if b.Index == 0 {
		return DNF{Conj{}}
	}
	deps := fi.cdep[b.Index]
	if len(deps) == 0 {
		return DNF{Conj{}}
	}
	if onstack[b.Index] {
		return nil // cut
	}
	onstack[b.Index] = true
	defer delete(onstack, b.Index)
	var out DNF
	for _, e := range deps {
		if e.From == b {
			// Self dependence (loop header on its own back edge): skip.
			continue
		}
		ifi, ok := e.From.Instrs[len(e.From.Instrs)-1].(*ssa.If)
		if !ok {
			continue
		}
		sub := fi.guard(e.From, onstack)
		if sub == nil {
			continue
		}
		at := Atom{ifi.Cond, e.K == 0}
		for _, c := range sub {
			nc := append(append(Conj{}, c...), at)
			out = append(out, nc)
		}
	}
	if out == nil {
		// All deps cut: reachable unconditionally w.r.t. what we can say.
		return DNF{Conj{}}
	}
	return simplifyDNF(out)
}

func atomKey(a Atom) string { return fmt.Sprintf("%p/%v", a.Cond, a.Pos) }

func simplifyDNF(d DNF) DNF {
	// remove duplicate atoms inside conjunctions, drop contradictory conjunctions,
	// remove duplicate conjunctions and absorbed ones.
	var out DNF
	seen := map[string]bool{}
	for _, c := range d {
		m := map[string]Atom{}
		contra := false
		var keys []string
		for _, a := range c {
			k := atomKey(a)
			if _, ok := m[atomKey(Atom{a.Cond, !a.Pos})]; ok {
				contra = true
				break
			}
			if _, ok := m[k]; !ok {
				m[k] = a
				keys = append(keys, k)
			}
		}
		if contra {
			continue
		}
		nc := make(Conj, 0, len(keys))
		for _, k := range keys {
			nc = append(nc, m[k])
		}
		sk := append([]string{}, keys...)
		sort.Strings(sk)
		key := strings.Join(sk, "&")
		if seen[key] {
			continue
		}
		seen[key] = true
		out = append(out, nc)
	}
	return out
}

// Dominates reports whether block a dominates block b.
func Dominates(a, b *ssa.BasicBlock) bool { return a.Dominates(b) }

// InstrBlockIndex returns the index of instr within its block, or -1.
func InstrBlockIndex(in ssa.Instruction) int {
	for i, x := range in.Block().Instrs {
		if x == in {
			return i
		}
	}
	return -1
}

// InstrDominates reports whether instruction a is executed before b on every
// path from entry to b.
func InstrDominates(a, b ssa.Instruction) bool {
	if a.Block() == b.Block() {
		return InstrBlockIndex(a) < InstrBlockIndex(b)
	}
	return a.Block().Dominates(b.Block())
}

// ExitBlocks returns blocks that end the function (return or panic).
func ExitBlocks(fn *ssa.Function) []*ssa.BasicBlock {
	var out []*ssa.BasicBlock
	for _, b := range fn.Blocks {
		if len(b.Succs) == 0 {
			out = append(out, b)
		}
	}
	return out
}

// Returns returns the Return instructions of fn.
func Returns(fn *ssa.Function) []*ssa.Return {
	var out []*ssa.Return
	for _, b := range fn.Blocks {
		if len(b.Instrs) == 0 {
			continue
		}
		if r, ok := b.Instrs[len(b.Instrs)-1].(*ssa.Return); ok {
			out = append(out, r)
		}
	}
	return out
}

// A pathPoint is (block, instruction index) position inside a function.
type pathPoint struct {
	b *ssa.BasicBlock
	i int
}

// PathAvoiding reports whether some CFG path leads from just after
// instruction `from` (or from function entry when from is nil) to instruction
// `to` (or to any function exit when to is nil) without executing any
// instruction for which avoid returns true. The first block sequence found is
// returned for diagnostics.
func PathAvoiding(fn *ssa.Function, from, to ssa.Instruction, avoid func(ssa.Instruction) bool) (bool, []*ssa.BasicBlock) {
	type state struct {
		b    *ssa.BasicBlock
		prev *state
	}
	var startB *ssa.BasicBlock
	startI := 0
	if from == nil {
		startB = fn.Blocks[0]
	} else {
		startB = from.Block()
		startI = InstrBlockIndex(from) + 1
	}
	// scan walks block b from index i; returns (reachedTarget, blockedByAvoid)
	scan := func(b *ssa.BasicBlock, i int) (bool, bool) {
		for ; i < len(b.Instrs); i++ {
			in := b.Instrs[i]
			if to != nil && in == to {
				return true, false
			}
			if avoid(in) {
				return false, true
			}
		}
		if to == nil && len(b.Succs) == 0 {
			return true, false
		}
		return false, false
	}
	build := func(s *state) []*ssa.BasicBlock {
		var rev []*ssa.BasicBlock
		for ; s != nil; s = s.prev {
			rev = append(rev, s.b)
		}
		for i, j := 0, len(rev)-1; i < j; i, j = i+1, j-1 {
			rev[i], rev[j] = rev[j], rev[i]
		}
		return rev
	}
	first := &state{b: startB}
	hit, blocked := scan(startB, startI)
	if hit {
		return true, build(first)
	}
	if blocked {
		return false, nil
	}
	visited := map[*ssa.BasicBlock]bool{}
	queue := []*state{}
	for _, s := range startB.Succs {
		queue = append(queue, &state{s, first})
	}
	for len(queue) > 0 {
		st := queue[0]
		queue = queue[1:]
		if visited[st.b] {
			continue
		}
		visited[st.b] = true
		hit, blocked := scan(st.b, 0)
		if hit {
			return true, build(st)
		}
		if blocked {
			continue
		}
		for _, s := range st.b.Succs {
			if !visited[s] {
				queue = append(queue, &state{s, st})
			}
		}
	}
	return false, nil
}

// BlockPath renders a block sequence with source lines.
func BlockPath(fset *token.FileSet, bs []*ssa.BasicBlock) string {
	var parts []string
	for _, b := range bs {
		line := 0
		for _, in := range b.Instrs {
			if in.Pos().IsValid() {
				line = fset.Position(in.Pos()).Line
				break
			}
		}
		if line > 0 {
			parts = append(parts, fmt.Sprintf("b%d(L%d)", b.Index, line))
		} else {
			parts = append(parts, fmt.Sprintf("b%d", b.Index))
		}
	}
	return strings.Join(parts, "→")
}

// CallsIn returns all call instructions (Call, Go, Defer) in fn.
func CallsIn(fn *ssa.Function) []ssa.CallInstruction {
	var out []ssa.CallInstruction
	for _, b := range fn.Blocks {
		for _, in := range b.Instrs {
			if c, ok := in.(ssa.CallInstruction); ok {
				out = append(out, c)
			}
		}
	}
	return out
}
