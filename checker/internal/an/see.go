package an

import (
	"fmt"
	"go/constant"
	"go/token"
	"go/types"
	"sort"
	"strings"

	"golang.org/x/tools/go/ssa"
)

// Op is the kind of a symbolic expression node.
type Op int

const (
	OpUnknown Op = iota
	OpConst
	OpParam
	OpFreeVar
	OpField
	OpGlobal
	OpFunc
	OpCall    // Args: [recv?] args...; Fn static callee or nil; Name method name for invoke
	OpExtract // Idx-th result of Args[0]
	OpBin
	OpUn
	OpConv
	OpPhi
	OpElem // element of Args[0] (index/lookup/range), Args[1] optional index
	OpLen
	OpAppend
	OpSlice
	OpMake
	OpStruct // composite value: Args[i] per field (nil = zero/unknown)
	OpNew    // pointer to a fresh object: Args[0] is its OpStruct/value
	OpClosure
	OpTypeAssert
	OpRecv
	OpZero
	OpLoop // loop-carried value (cycle cut)
	OpAddr // address of a place that is not a fresh local (Args[0] = value stored there symbolic)
)

// An Expr is a canonical, name-erased description of where a value comes from.
type Expr struct {
	Op      Op
	Name    string
	Typ     types.Type
	Args    []*Expr
	V       ssa.Value
	Fn      *ssa.Function
	Idx     int
	Obj     types.Object
	Tok     token.Token
	Cval    constant.Value
	CommaOk bool
}

// Extractor computes SEE expressions with bounded inlining of module-local
// callees.
type Extractor struct {
	InModule func(*ssa.Function) bool
	MaxDepth int
	// NoInline lists functions kept as opaque calls.
	NoInline map[*ssa.Function]bool
	// Inline, when set, restricts SEE inlining to callees for which it returns true.
	Inline func(*ssa.Function) bool
}

type seeCtx struct {
	x      *Extractor
	depth  int
	params map[*ssa.Parameter]*Expr
	fvs    map[*ssa.FreeVar]*Expr
	stack  map[*ssa.Function]bool
	active map[ssa.Value]bool
	memo   map[ssa.Value]*Expr
	at     ssa.Instruction // load site for store-kill filtering
	ps     *pstate         // path being enumerated (nil outside path mode)
	defAt  ssa.Instruction // observation point for pointees of address values (path end)
	fn     *ssa.Function   // function whose values this context evaluates
	// retAlias: result i of an inlined call is the address of an object the callee
	// allocated (a constructor helper); it is re-observed at every use, not snapshotted
	retAlias map[ssa.Value]map[int]*ssa.Alloc
	up       *seeCtx // environment of the calling frame (inlined callees), for values of enclosing functions
}

// Of returns the expression for v evaluated in its own function, without
// calling context.
func (x *Extractor) Of(v ssa.Value) *Expr {
	c := &seeCtx{x: x, params: map[*ssa.Parameter]*Expr{}, fvs: map[*ssa.FreeVar]*Expr{},
		stack: map[*ssa.Function]bool{}, active: map[ssa.Value]bool{}, memo: map[ssa.Value]*Expr{}}
	if v.Parent() != nil {
		c.stack[v.Parent()] = true
		c.fn = v.Parent()
	}
	return c.of(v)
}

func (c *seeCtx) child(fn *ssa.Function) *seeCtx {
	n := &seeCtx{x: c.x, depth: c.depth + 1, params: map[*ssa.Parameter]*Expr{}, fvs: map[*ssa.FreeVar]*Expr{},
		stack: map[*ssa.Function]bool{}, active: map[ssa.Value]bool{}, memo: map[ssa.Value]*Expr{}, fn: fn, up: c}
	for k := range c.stack {
		n.stack[k] = true
	}
	n.stack[fn] = true
	return n
}

func typeString(t types.Type) string {
	if t == nil {
		return "?"
	}
	return types.TypeString(t, func(p *types.Package) string { return p.Name() })
}

func (c *seeCtx) of(v ssa.Value) *Expr {
	if v == nil {
		return &Expr{Op: OpUnknown, Name: "nil-value"}
	}
	_, isAlloc := v.(*ssa.Alloc)
	if ra, ok := c.retAlias[v]; ok && c.ps != nil {
		if al := ra[0]; al != nil && len(ra) == 1 {
			if _, isTuple := v.Type().(*types.Tuple); !isTuple {
				return c.of(al)
			}
		}
	}
	if e, ok := c.memo[v]; ok && !isAlloc {
		return e
	}
	if c.active[v] {
		return &Expr{Op: OpLoop, V: v, Typ: v.Type()}
	}
	c.active[v] = true
	e := c.of1(v)
	delete(c.active, v)
	if e.V == nil {
		e.V = v
	}
	if e.Typ == nil {
		e.Typ = v.Type()
	}
	if !isAlloc || c.ps == nil {
		// what an address points to depends on when it is observed: not memoised in path mode
		c.memo[v] = e
	}
	return e
}

func (c *seeCtx) of1(v ssa.Value) *Expr {
	switch v := v.(type) {
	case *ssa.Const:
		e := &Expr{Op: OpConst, Typ: v.Type(), Cval: v.Value}
		if v.Value == nil {
			if b, ok := v.Type().Underlying().(*types.Basic); ok && b.Info()&types.IsNumeric != 0 {
				e.Name = "0"
				e.Cval = constant.MakeInt64(0)
			} else if _, ok := v.Type().Underlying().(*types.Struct); ok {
				return &Expr{Op: OpZero, Typ: v.Type(), Name: "zero"}
			} else {
				e.Name = "nil"
			}
		} else {
			e.Name = v.Value.ExactString()
		}
		return e
	case *ssa.Parameter:
		if b, ok := c.params[v]; ok {
			return b
		}
		idx := -1
		for i, p := range v.Parent().Params {
			if p == v {
				idx = i
			}
		}
		return &Expr{Op: OpParam, Name: v.Name(), Idx: idx, Fn: v.Parent(), Typ: v.Type()}
	case *ssa.FreeVar:
		if b, ok := c.fvs[v]; ok {
			return b
		}
		// Resolve through the unique MakeClosure site in the parent, if any.
		if bv := freeVarBinding(v); bv != nil {
			pc := c
			return pc.of(bv)
		}
		return &Expr{Op: OpFreeVar, Name: v.Name(), Typ: v.Type()}
	case *ssa.Global:
		return &Expr{Op: OpGlobal, Name: v.Pkg.Pkg.Name() + "." + v.Name(), Obj: v.Object(), Typ: v.Type()}
	case *ssa.Function:
		return &Expr{Op: OpFunc, Name: v.String(), Fn: v, Typ: v.Type()}
	case *ssa.Builtin:
		return &Expr{Op: OpFunc, Name: v.Name(), Typ: v.Type()}
	case *ssa.Alloc:
		// The address of a local/heap object. Describe what it points to, as
		// observed at the end of the path (path mode) or flow-insensitively.
		prev := c.at
		c.at = c.defAt
		e := &Expr{Op: OpNew, Typ: v.Type(), Args: []*Expr{c.loadAlloc(v, nil)}}
		c.at = prev
		return e
	case *ssa.UnOp:
		switch v.Op {
		case token.MUL:
			return c.loadAt(v.X, v)
		case token.ARROW:
			return &Expr{Op: OpRecv, Args: []*Expr{c.of(v.X)}, CommaOk: v.CommaOk}
		default:
			return &Expr{Op: OpUn, Tok: v.Op, Name: v.Op.String(), Args: []*Expr{c.of(v.X)}}
		}
	case *ssa.BinOp:
		x, y, tok := c.of(v.X), c.of(v.Y), v.Op
		// one spelling for a comparison with a constant: the constant on the right (`0 < r` is `r > 0`)
		if x.Op == OpConst && y.Op != OpConst {
			switch tok {
			case token.EQL, token.NEQ:
				x, y = y, x
			case token.LSS:
				x, y, tok = y, x, token.GTR
			case token.GTR:
				x, y, tok = y, x, token.LSS
			case token.LEQ:
				x, y, tok = y, x, token.GEQ
			case token.GEQ:
				x, y, tok = y, x, token.LEQ
			}
		}
		// b == true, b != false are b; b == false, b != true are !b
		if (tok == token.EQL || tok == token.NEQ) && y.Op == OpConst && y.Cval != nil && y.Cval.Kind() == constant.Bool {
			if constant.BoolVal(y.Cval) == (tok == token.EQL) {
				return x
			}
			return &Expr{Op: OpUn, Tok: token.NOT, Name: "!", Args: []*Expr{x}, Typ: v.Type()}
		}
		return &Expr{Op: OpBin, Tok: tok, Name: tok.String(), Args: []*Expr{x, y}}
	case *ssa.ChangeType:
		return c.of(v.X)
	case *ssa.ChangeInterface:
		return c.of(v.X)
	case *ssa.MakeInterface:
		return c.of(v.X)
	case *ssa.Convert:
		from, to := v.X.Type().Underlying(), v.Type().Underlying()
		if types.Identical(from, to) {
			return c.of(v.X)
		}
		return &Expr{Op: OpConv, Name: typeString(v.Type()), Typ: v.Type(), Args: []*Expr{c.of(v.X)}}
	case *ssa.MultiConvert:
		return &Expr{Op: OpConv, Name: typeString(v.Type()), Typ: v.Type(), Args: []*Expr{c.of(v.X)}}
	case *ssa.Phi:
		var alts []*Expr
		for _, e := range v.Edges {
			alts = append(alts, c.of(e))
		}
		return mkPhi(alts, v.Type())
	case *ssa.Extract:
		if sel, ok := v.Tuple.(*ssa.Select); ok {
			switch {
			case v.Index == 0:
				return &Expr{Op: OpUnknown, Name: "select.index", V: sel, Typ: v.Type()}
			case v.Index == 1:
				return &Expr{Op: OpUnknown, Name: "select.recvOk", V: sel, Typ: v.Type()}
			default:
				k := 0
				for _, st := range sel.States {
					if st.Dir == types.RecvOnly {
						if k == v.Index-2 {
							return &Expr{Op: OpRecv, Args: []*Expr{c.of(st.Chan)}, Typ: v.Type(), Name: "select", V: v}
						}
						k++
					}
				}
			}
		}
		if ra, ok := c.retAlias[v.Tuple]; ok && c.ps != nil {
			if al := ra[v.Index]; al != nil {
				return c.of(al)
			}
		}
		t := c.of(v.Tuple)
		return extractOf(t, v.Index, v.Type())
	case *ssa.Call:
		return c.call(v)
	case *ssa.FieldAddr:
		// pointer to field: describe as address of the field place
		return &Expr{Op: OpAddr, Typ: v.Type(), Args: []*Expr{c.load(v)}}
	case *ssa.IndexAddr:
		return &Expr{Op: OpAddr, Typ: v.Type(), Args: []*Expr{c.load(v)}}
	case *ssa.Field:
		base := c.of(v.X)
		st := v.X.Type().Underlying().(*types.Struct)
		return fieldOf(base, st.Field(v.Field), v.Field)
	case *ssa.Index:
		return &Expr{Op: OpElem, Args: []*Expr{c.of(v.X), c.of(v.Index)}}
	case *ssa.Lookup:
		return &Expr{Op: OpElem, Args: []*Expr{c.of(v.X), c.of(v.Index)}, CommaOk: v.CommaOk}
	case *ssa.Slice:
		// varargs / array literal: new [N]T; stores to &a[i]; slice a[:]
		if al, ok := v.X.(*ssa.Alloc); ok {
			if at, ok := al.Type().(*types.Pointer).Elem().Underlying().(*types.Array); ok && v.Low == nil && v.High == nil {
				lst := &Expr{Op: OpStruct, Name: "list", Typ: v.Type(), Args: make([]*Expr, at.Len())}
				okAll := true
				if refs := al.Referrers(); refs != nil {
					for _, r := range *refs {
						switch r := r.(type) {
						case *ssa.IndexAddr:
							ci, isC := r.Index.(*ssa.Const)
							if !isC {
								okAll = false
								continue
							}
							idx, _ := constant.Int64Val(ci.Value)
							if rr := r.Referrers(); rr != nil {
								for _, u := range *rr {
									if st, ok := u.(*ssa.Store); ok && st.Addr == r && int(idx) < len(lst.Args) {
										lst.Args[idx] = c.of(st.Val)
									}
								}
							}
						case *ssa.Slice:
						default:
							okAll = false
						}
					}
				}
				if okAll {
					return lst
				}
			}
		}
		return &Expr{Op: OpSlice, Args: []*Expr{c.of(v.X)}}
	case *ssa.MakeSlice:
		return &Expr{Op: OpMake, Name: typeString(v.Type()), Args: []*Expr{c.of(v.Len), c.of(v.Cap)}}
	case *ssa.MakeMap:
		return &Expr{Op: OpMake, Name: typeString(v.Type())}
	case *ssa.MakeChan:
		return &Expr{Op: OpMake, Name: typeString(v.Type()), Args: []*Expr{c.of(v.Size)}}
	case *ssa.MakeClosure:
		e := &Expr{Op: OpClosure, Fn: v.Fn.(*ssa.Function), Name: v.Fn.(*ssa.Function).String()}
		for _, b := range v.Bindings {
			e.Args = append(e.Args, c.of(b))
		}
		return e
	case *ssa.TypeAssert:
		return &Expr{Op: OpTypeAssert, Name: typeString(v.AssertedType), Args: []*Expr{c.of(v.X)}, CommaOk: v.CommaOk}
	case *ssa.Next:
		// (ok, key, value) of a range: element of the ranged collection
		if r, ok := v.Iter.(*ssa.Range); ok {
			el := &Expr{Op: OpElem, Args: []*Expr{c.of(r.X)}}
			return &Expr{Op: OpStruct, Name: "next", Args: []*Expr{{Op: OpUnknown, Name: "ok"}, {Op: OpElem, Name: "key", Args: []*Expr{c.of(r.X)}}, el}}
		}
		return &Expr{Op: OpUnknown, Name: "next"}
	case *ssa.Range:
		return &Expr{Op: OpUnknown, Name: "range"}
	case *ssa.Select:
		return &Expr{Op: OpUnknown, Name: "select"}
	}
	return &Expr{Op: OpUnknown, Name: fmt.Sprintf("%T", v)}
}

var boundSites = map[*ssa.Function][]*ssa.MakeClosure{}

// boundWrapperSites finds the creation sites of a bound-method wrapper
// (`x.m` used as a value) in the package of the method's receiver type.
func boundWrapperSites(fn *ssa.Function) []*ssa.MakeClosure {
	if sites, ok := boundSites[fn]; ok {
		return sites
	}
	boundSites[fn] = nil
	if len(fn.FreeVars) != 1 || fn.Prog == nil {
		return nil
	}
	t := fn.FreeVars[0].Type()
	if p, ok := t.(*types.Pointer); ok {
		t = p.Elem()
	}
	named, ok := t.(*types.Named)
	if !ok || named.Obj().Pkg() == nil {
		return nil
	}
	pkg := fn.Prog.Package(named.Obj().Pkg())
	if pkg == nil {
		return nil
	}
	var sites []*ssa.MakeClosure
	var visit func(g *ssa.Function)
	visit = func(g *ssa.Function) {
		for _, b := range g.Blocks {
			for _, in := range b.Instrs {
				if mc, ok := in.(*ssa.MakeClosure); ok && mc.Fn == fn {
					sites = append(sites, mc)
				}
			}
		}
		for _, a := range g.AnonFuncs {
			visit(a)
		}
	}
	for _, m := range pkg.Members {
		switch m := m.(type) {
		case *ssa.Function:
			visit(m)
		case *ssa.Type:
			for _, tt := range []types.Type{m.Type(), types.NewPointer(m.Type())} {
				ms := pkg.Prog.MethodSets.MethodSet(tt)
				for i := 0; i < ms.Len(); i++ {
					if g := pkg.Prog.MethodValue(ms.At(i)); g != nil && g.Pkg == pkg && g.Synthetic == "" {
						visit(g)
					}
				}
			}
		}
	}
	boundSites[fn] = sites
	return sites
}

func freeVarBinding(fv *ssa.FreeVar) ssa.Value {
	fn := fv.Parent()
	par := fn.Parent()
	if par == nil {
		// the receiver captured by a bound-method wrapper
		if strings.HasSuffix(fn.Name(), "$bound") {
			if sites := boundWrapperSites(fn); len(sites) == 1 && len(sites[0].Bindings) == 1 {
				return sites[0].Bindings[0]
			}
		}
		return nil
	}
	idx := -1
	for i, f := range fn.FreeVars {
		if f == fv {
			idx = i
		}
	}
	if idx < 0 {
		return nil
	}
	var found ssa.Value
	n := 0
	for _, b := range par.Blocks {
		for _, in := range b.Instrs {
			if mc, ok := in.(*ssa.MakeClosure); ok && mc.Fn == fn {
				n++
				found = mc.Bindings[idx]
			}
		}
	}
	if n == 1 {
		return found
	}
	return nil
}

func mkPhi(alts []*Expr, t types.Type) *Expr {
	seen := map[string]bool{}
	var out []*Expr
	var add func(e *Expr)
	add = func(e *Expr) {
		if e.Op == OpLoop && e.Idx == 0 {
			return
		}
		if e.Op == OpPhi {
			for _, a := range e.Args {
				add(a)
			}
			return
		}
		s := e.String()
		if !seen[s] {
			seen[s] = true
			out = append(out, e)
		}
	}
	for _, a := range alts {
		add(a)
	}
	if len(out) == 1 {
		return out[0]
	}
	if len(out) == 0 {
		return &Expr{Op: OpLoop, Typ: t}
	}
	sort.Slice(out, func(i, j int) bool { return out[i].String() < out[j].String() })
	return &Expr{Op: OpPhi, Args: out, Typ: t}
}

func extractOf(t *Expr, idx int, typ types.Type) *Expr {
	switch t.Op {
	case OpStruct:
		if t.Name == "tuple" || t.Name == "next" {
			if idx < len(t.Args) && t.Args[idx] != nil {
				return t.Args[idx]
			}
		}
	case OpPhi:
		var alts []*Expr
		for _, a := range t.Args {
			alts = append(alts, extractOf(a, idx, typ))
		}
		return mkPhi(alts, typ)
	}
	return &Expr{Op: OpExtract, Idx: idx, Args: []*Expr{t}, Typ: typ}
}

func fieldOf(base *Expr, f *types.Var, idx int) *Expr {
	switch base.Op {
	case OpStruct:
		if base.Name == "" && idx < len(base.Args) && base.Args[idx] != nil {
			return base.Args[idx]
		}
		if base.Name == "" {
			return &Expr{Op: OpZero, Typ: f.Type(), Name: "zero"}
		}
	case OpNew:
		if len(base.Args) == 1 {
			return fieldOf(base.Args[0], f, idx)
		}
	case OpZero:
		return &Expr{Op: OpZero, Typ: f.Type(), Name: "zero"}
	case OpPhi:
		var alts []*Expr
		for _, a := range base.Args {
			alts = append(alts, fieldOf(a, f, idx))
		}
		return mkPhi(alts, f.Type())
	}
	return &Expr{Op: OpField, Name: f.Name(), Obj: f, Idx: idx, Args: []*Expr{base}, Typ: f.Type()}
}

// load returns the value stored at address addr.
func (c *seeCtx) load(addr ssa.Value) *Expr { return c.loadAt(addr, nil) }

// loadAt returns the value stored at addr as seen by the load instruction at
// (nil = flow-insensitive).
func (c *seeCtx) loadAt(addr ssa.Value, at ssa.Instruction) *Expr {
	prev := c.at
	c.at = at
	defer func() { c.at = prev }()
	return c.load1(addr)
}

func (c *seeCtx) load1(addr ssa.Value) *Expr {
	switch a := addr.(type) {
	case *ssa.Alloc:
		return c.loadAlloc(a, nil)
	case *ssa.FieldAddr:
		st := a.X.Type().Underlying().(*types.Pointer).Elem().Underlying().(*types.Struct)
		f := st.Field(a.Field)
		// Local object with per-field stores?
		if root, path := allocRoot(a); root != nil {
			return c.loadAlloc(root, path)
		}
		base := c.load1(a.X) // value of the struct pointed to
		return fieldOf(base, f, a.Field)
	case *ssa.IndexAddr:
		return &Expr{Op: OpElem, Args: []*Expr{c.deref(a.X), c.of(a.Index)}}
	case *ssa.Global:
		return &Expr{Op: OpGlobal, Name: a.Pkg.Pkg.Name() + "." + a.Name(), Obj: a.Object(), Typ: a.Type().(*types.Pointer).Elem()}
	case *ssa.FreeVar:
		// an explicit binding (the closure value was built where its captured variables are known)
		if b, ok := c.fvs[a]; ok {
			if b.Op == OpNew && len(b.Args) == 1 {
				return b.Args[0]
			}
			return b
		}
		if bv := freeVarBinding(a); bv != nil {
			return c.load1(bv)
		}
		return &Expr{Op: OpFreeVar, Name: a.Name(), Typ: a.Type()}
	}
	// pointer-typed value: the pointee, described through the pointer's expression
	p := c.of(addr)
	if p.Op == OpNew && len(p.Args) == 1 {
		return p.Args[0]
	}
	if p.Op == OpAddr && len(p.Args) == 1 {
		return p.Args[0]
	}
	if p.Op == OpPhi {
		var alts []*Expr
		for _, a := range p.Args {
			if (a.Op == OpNew || a.Op == OpAddr) && len(a.Args) == 1 {
				alts = append(alts, a.Args[0])
			} else {
				alts = append(alts, a)
			}
		}
		return mkPhi(alts, nil)
	}
	// auto-deref: *p is described by p's expression, typed as the pointee
	if pt, ok := addr.Type().Underlying().(*types.Pointer); ok {
		q := *p
		q.Typ = pt.Elem()
		return &q
	}
	return p
}

// deref: value of array/slice addressed
func (c *seeCtx) deref(v ssa.Value) *Expr {
	if _, ok := v.Type().Underlying().(*types.Pointer); ok {
		return c.load(v)
	}
	return c.of(v)
}

// allocRoot resolves a FieldAddr chain down to a local Alloc and returns the
// field index path, or nil.
func allocRoot(a *ssa.FieldAddr) (*ssa.Alloc, []int) {
	var path []int
	var cur ssa.Value = a
	for {
		switch x := cur.(type) {
		case *ssa.FieldAddr:
			path = append([]int{x.Field}, path...)
			cur = x.X
		case *ssa.Alloc:
			return x, path
		case *ssa.Call:
			// the result of a constructor helper (every return hands back the same fresh allocation, and
			// this is its only call site): the place is that allocation, reached through its alias
			if al := ctorAlloc(x); al != nil {
				return al, path
			}
			return nil, nil
		default:
			return nil, nil
		}
	}
}

// CtorAlloc is ctorAlloc for rule code.
func CtorAlloc(call *ssa.Call) *ssa.Alloc { return ctorAlloc(call) }

// ctorAlloc returns the allocation a call's single pointer result denotes when
// the static callee is a module-local constructor: one result, the same Alloc
// at every return, and no other call site in its package.
func ctorAlloc(call *ssa.Call) *ssa.Alloc {
	callee := StaticCallee(&call.Call)
	if callee == nil || callee.Blocks == nil || callee.Signature.Results().Len() != 1 {
		return nil
	}
	if _, isPtr := callee.Signature.Results().At(0).Type().Underlying().(*types.Pointer); !isPtr {
		return nil
	}
	var al *ssa.Alloc
	for _, b := range callee.Blocks {
		for _, in := range b.Instrs {
			ret, ok := in.(*ssa.Return)
			if !ok {
				continue
			}
			a, isAlloc := ret.Results[0].(*ssa.Alloc)
			if !isAlloc || (al != nil && a != al) {
				return nil
			}
			al = a
		}
	}
	if al == nil {
		return nil
	}
	if sites := callSitesOf(callee); len(sites) != 1 || sites[0] != call {
		return nil
	}
	return al
}

// allocRefs collects, for alloc a (and closures that capture it), every
// value that denotes the same address.
func allocAliases(a *ssa.Alloc) []ssa.Value {
	out := []ssa.Value{a}
	seen := map[ssa.Value]bool{a: true}
	for i := 0; i < len(out); i++ {
		v := out[i]
		refs := v.Referrers()
		if refs == nil {
			continue
		}
		for _, r := range *refs {
			if ret, ok := r.(*ssa.Return); ok && len(out) < 16 {
				// returned by a constructor helper: the call's value denotes the same place
				for _, cs := range callSitesOf(ret.Parent()) {
					var av ssa.Value = cs
					if len(ret.Results) > 1 {
						av = nil
						for ri, rv := range ret.Results {
							if rv != v || cs.Referrers() == nil {
								continue
							}
							for _, cr := range *cs.Referrers() {
								if ex, ok := cr.(*ssa.Extract); ok && ex.Index == ri {
									av = ex
								}
							}
						}
					}
					if av != nil && !seen[av] {
						seen[av] = true
						out = append(out, av)
					}
				}
			}
			if ci, ok := r.(ssa.CallInstruction); ok {
				// the address is passed to a module-local callee: its parameter denotes the same place
				if callee := StaticCallee(ci.Common()); callee != nil && callee.Blocks != nil && len(out) < 16 {
					for ai, arg := range ci.Common().Args {
						if arg == v && ai < len(callee.Params) {
							pv := callee.Params[ai]
							if !seen[pv] {
								seen[pv] = true
								out = append(out, pv)
							}
						}
					}
				}
			}
			if mc, ok := r.(*ssa.MakeClosure); ok {
				fn := mc.Fn.(*ssa.Function)
				for bi, b := range mc.Bindings {
					if b == v && bi < len(fn.FreeVars) {
						fv := fn.FreeVars[bi]
						if !seen[fv] {
							seen[fv] = true
							out = append(out, fv)
						}
					}
				}
			}
		}
	}
	return out
}

var callSiteIndex = map[*ssa.Package]map[*ssa.Function][]*ssa.Call{}

// CallSitesOf lists the static calls of f made from f's own package.
func CallSitesOf(f *ssa.Function) []*ssa.Call { return callSitesOf(f) }

// callSitesOf lists the static calls of f made from f's own package.
func callSitesOf(f *ssa.Function) []*ssa.Call {
	pkg := f.Pkg
	if pkg == nil && f.Parent() != nil {
		pkg = outermost(f).Pkg
	}
	if pkg == nil {
		return nil
	}
	idx, ok := callSiteIndex[pkg]
	if !ok {
		idx = map[*ssa.Function][]*ssa.Call{}
		var visit func(g *ssa.Function)
		visit = func(g *ssa.Function) {
			for _, b := range g.Blocks {
				for _, in := range b.Instrs {
					if call, ok := in.(*ssa.Call); ok {
						if callee := StaticCallee(&call.Call); callee != nil {
							idx[callee] = append(idx[callee], call)
						}
					}
				}
			}
			for _, a := range g.AnonFuncs {
				visit(a)
			}
		}
		for _, m := range pkg.Members {
			switch m := m.(type) {
			case *ssa.Function:
				visit(m)
			case *ssa.Type:
				for _, t := range []types.Type{m.Type(), types.NewPointer(m.Type())} {
					ms := pkg.Prog.MethodSets.MethodSet(t)
					for i := 0; i < ms.Len(); i++ {
						if g := pkg.Prog.MethodValue(ms.At(i)); g != nil && g.Pkg == pkg && g.Synthetic == "" {
							visit(g)
						}
					}
				}
			}
		}
		callSiteIndex[pkg] = idx
	}
	return idx[f]
}

// StoresTo returns the store instructions writing exactly the place
// (alloc, path) and those writing a prefix of it (whole-struct stores).
type placeStore struct {
	st     *ssa.Store
	prefix int // number of path elements covered by the store address
}

func storesToPlace(a *ssa.Alloc, path []int) []placeStore {
	var out []placeStore
	var walk func(v ssa.Value, depth int)
	walk = func(v ssa.Value, depth int) {
		refs := v.Referrers()
		if refs == nil {
			return
		}
		for _, r := range *refs {
			switch r := r.(type) {
			case *ssa.Store:
				if r.Addr == v {
					out = append(out, placeStore{r, depth})
				}
			case *ssa.FieldAddr:
				if r.X == v && depth < len(path) && r.Field == path[depth] {
					walk(r, depth+1)
				}
			}
		}
	}
	for _, al := range allocAliases(a) {
		walk(al, 0)
	}
	return out
}

// escapesToCall reports whether the address of a is handed to a call (which
// may then write through it), other than as a closure binding.
func escapesToCall(a *ssa.Alloc) bool {
	refs := a.Referrers()
	if refs == nil {
		return false
	}
	for _, r := range *refs {
		if ci, ok := r.(ssa.CallInstruction); ok {
			for _, arg := range ci.Common().Args {
				if arg == ssa.Value(a) {
					return true
				}
			}
		}
		if mi, ok := r.(*ssa.MakeInterface); ok && mi.X == ssa.Value(a) {
			return true
		}
	}
	return false
}

func (c *seeCtx) loadAlloc(a *ssa.Alloc, path []int) *Expr {
	elem := a.Type().(*types.Pointer).Elem()
	t := elem
	for _, i := range path {
		t = t.Underlying().(*types.Struct).Field(i).Type()
	}
	if escapesToCall(a) && len(storesDeeper(a, nil)) == 0 {
		// never stored locally, only written by a callee through the pointer
		// (var x T; Decode(&x)): an opaque place
		nm := a.Comment
		if nm == "" {
			nm = a.Name()
		}
		e := &Expr{Op: OpGlobal, Name: "local:" + nm, Typ: elem, V: a}
		tt := elem
		for _, i := range path {
			st := tt.Underlying().(*types.Struct)
			e = fieldOf(e, st.Field(i), i)
			tt = st.Field(i).Type()
		}
		return e
	}
	stores := c.liveStores(a, storesToPlace(a, path), c.at)
	var alts []*Expr
	for _, ps := range stores {
		if ps.st == nil {
			alts = append(alts, &Expr{Op: OpZero, Typ: t, Name: "zero"})
			continue
		}
		val := c.envFor(ps.st).of(ps.st.Val)
		// project remaining path
		tt := elem
		for d := 0; d < len(path); d++ {
			st := tt.Underlying().(*types.Struct)
			if d >= ps.prefix {
				val = fieldOf(val, st.Field(path[d]), path[d])
			}
			tt = st.Field(path[d]).Type()
		}
		alts = append(alts, val)
	}
	// Struct-typed place with per-field stores: build a composite.
	if st, ok := t.Underlying().(*types.Struct); ok {
		hasFieldStores := false
		comp := &Expr{Op: OpStruct, Typ: t, Args: make([]*Expr, st.NumFields())}
		for i := 0; i < st.NumFields(); i++ {
			sub := append(append([]int{}, path...), i)
			if len(storesDeeper(a, sub)) > 0 {
				hasFieldStores = true
				comp.Args[i] = c.loadAlloc(a, sub)
			}
		}
		if hasFieldStores {
			if len(alts) > 0 {
				// whole-value stores plus field overrides: fields not overridden come from the whole value
				whole := mkPhi(alts, t)
				for i := 0; i < st.NumFields(); i++ {
					if comp.Args[i] == nil {
						comp.Args[i] = fieldOf(whole, st.Field(i), i)
					}
					// fields with their own stores were computed by loadAlloc(a, sub), which
					// already accounts for whole-value stores (projected, kill-filtered)
				}
			}
			return comp
		}
	}
	if len(alts) == 0 {
		return &Expr{Op: OpZero, Typ: t, Name: "zero"}
	}
	return mkPhi(alts, t)
}

// storesDeeper reports stores at or below (alloc,path).
func storesDeeper(a *ssa.Alloc, path []int) []*ssa.Store {
	var out []*ssa.Store
	var walk func(v ssa.Value, depth int)
	walk = func(v ssa.Value, depth int) {
		refs := v.Referrers()
		if refs == nil {
			return
		}
		for _, r := range *refs {
			switch r := r.(type) {
			case *ssa.Store:
				if r.Addr == v && depth >= len(path) {
					out = append(out, r)
				}
			case *ssa.FieldAddr:
				if r.X == v {
					if depth < len(path) {
						if r.Field == path[depth] {
							walk(r, depth+1)
						}
					} else {
						walk(r, depth+1)
					}
				}
			}
		}
	}
	for _, al := range allocAliases(a) {
		walk(al, 0)
	}
	return out
}

// StaticCallee resolves the callee of a call, looking through closures,
// bound-method wrappers and local func-valued variables with one definition.
func StaticCallee(call *ssa.CallCommon) *ssa.Function {
	if call.IsInvoke() {
		return nil
	}
	switch f := call.Value.(type) {
	case *ssa.Function:
		return f
	case *ssa.MakeClosure:
		return f.Fn.(*ssa.Function)
	case *ssa.UnOp:
		// a local func-valued variable (possibly captured by the calling closure) that is
		// assigned exactly once
		if f.Op == token.MUL {
			return singleFuncValue(f.X)
		}
	}
	return nil
}

// singleFuncValue resolves the address of a local variable of function type
// (an Alloc, or a FreeVar bound to one) that has exactly one store, of a
// closure or function, to that function.
func singleFuncValue(addr ssa.Value) *ssa.Function {
	for depth := 0; depth < 6; depth++ {
		fv, ok := addr.(*ssa.FreeVar)
		if !ok {
			break
		}
		f := fv.Parent()
		if f == nil || f.Parent() == nil {
			return nil
		}
		mc, ok := closureSiteIn(f.Parent(), f).(*ssa.MakeClosure)
		if !ok {
			return nil
		}
		idx := -1
		for i, x := range f.FreeVars {
			if x == fv {
				idx = i
			}
		}
		if idx < 0 || idx >= len(mc.Bindings) {
			return nil
		}
		addr = mc.Bindings[idx]
	}
	al, ok := addr.(*ssa.Alloc)
	if !ok {
		return nil
	}
	var fn *ssa.Function
	n := 0
	for _, ps := range storesToPlace(al, nil) {
		n++
		switch v := ps.st.Val.(type) {
		case *ssa.Function:
			fn = v
		case *ssa.MakeClosure:
			fn = v.Fn.(*ssa.Function)
		}
	}
	if n != 1 {
		return nil
	}
	return fn
}

func (c *seeCtx) call(v *ssa.Call) *Expr {
	cc := &v.Call
	if c.ps != nil && v.Parent() == c.fn {
		// pointees of the arguments are observed at the call
		prevAt := c.defAt
		c.defAt = v
		defer func() { c.defAt = prevAt }()
	}
	if cc.IsInvoke() {
		e := &Expr{Op: OpCall, Name: cc.Method.Name(), Obj: cc.Method, Typ: v.Type()}
		e.Args = append(e.Args, c.of(cc.Value))
		for _, a := range cc.Args {
			e.Args = append(e.Args, c.of(a))
		}
		return e
	}
	if b, ok := cc.Value.(*ssa.Builtin); ok {
		switch b.Name() {
		case "len":
			return &Expr{Op: OpLen, Args: []*Expr{c.of(cc.Args[0])}, Typ: v.Type()}
		case "append":
			e := &Expr{Op: OpAppend, Typ: v.Type()}
			for _, a := range cc.Args {
				e.Args = append(e.Args, c.of(a))
			}
			return e
		}
		e := &Expr{Op: OpCall, Name: b.Name(), Typ: v.Type()}
		for _, a := range cc.Args {
			e.Args = append(e.Args, c.of(a))
		}
		return e
	}
	callee := StaticCallee(cc)
	var calleeExpr *Expr
	if callee == nil {
		calleeExpr = c.of(cc.Value)
		// func value resolved to a unique closure/function?
		switch calleeExpr.Op {
		case OpFunc, OpClosure:
			callee = calleeExpr.Fn
		}
	}
	if callee != nil && callee.Blocks != nil && c.x.InModule != nil && c.x.InModule(callee) &&
		c.depth < c.x.MaxDepth && !c.stack[callee] && !c.x.NoInline[callee] && (c.x.Inline == nil || c.x.Inline(callee)) {
		n := c.child(callee)
		for i, p := range callee.Params {
			if i < len(cc.Args) {
				n.params[p] = c.of(cc.Args[i])
			}
		}
		if mc, ok := cc.Value.(*ssa.MakeClosure); ok {
			for i, fv := range callee.FreeVars {
				if i < len(mc.Bindings) {
					n.fvs[fv] = c.of(mc.Bindings[i])
				}
			}
		} else if calleeExpr != nil && calleeExpr.Op == OpClosure {
			for i, fv := range callee.FreeVars {
				if i < len(calleeExpr.Args) {
					n.fvs[fv] = calleeExpr.Args[i]
				}
			}
		}
		rets := Returns(callee)
		nres := callee.Signature.Results().Len()
		if len(rets) > 0 && nres > 0 {
			cols := make([][]*Expr, nres)
			for _, r := range rets {
				for i := 0; i < nres && i < len(r.Results); i++ {
					cols[i] = append(cols[i], n.of(r.Results[i]))
				}
			}
			if nres == 1 {
				e := mkPhi(cols[0], callee.Signature.Results().At(0).Type())
				return e
			}
			tup := &Expr{Op: OpStruct, Name: "tuple", Typ: v.Type()}
			for i := 0; i < nres; i++ {
				tup.Args = append(tup.Args, mkPhi(cols[i], callee.Signature.Results().At(i).Type()))
			}
			return tup
		}
	}
	e := &Expr{Op: OpCall, Fn: callee, Typ: v.Type()}
	if callee != nil {
		e.Name = callee.String()
		if callee.Object() != nil {
			e.Obj = callee.Object()
		}
	} else {
		e.Name = "dyn:" + calleeExpr.String()
		e.Args = append(e.Args, calleeExpr)
	}
	for _, a := range cc.Args {
		e.Args = append(e.Args, c.of(a))
	}
	// slices.Concat(a, b, …) is append(append(fresh, a...), b...): one spelling for "a followed by b"
	if callee != nil && len(e.Args) == 1 && e.Args[0].Op == OpStruct && e.Args[0].Name == "list" && len(e.Args[0].Args) >= 2 {
		if o := CalleeObj(cc); o != nil && o.Pkg() != nil && o.Pkg().Path() == "slices" && o.Name() == "Concat" {
			parts := e.Args[0].Args
			acc := parts[0]
			for _, pt := range parts[1:] {
				acc = &Expr{Op: OpAppend, Typ: v.Type(), Args: []*Expr{acc, pt}}
			}
			return acc
		}
	}
	return e
}

// String renders the canonical form.
func (e *Expr) String() string {
	if e == nil {
		return "∅"
	}
	switch e.Op {
	case OpConst:
		return e.Name
	case OpParam:
		return "$" + e.Name
	case OpFreeVar:
		return "^" + e.Name
	case OpField:
		return e.Args[0].String() + "." + e.Name
	case OpGlobal:
		return e.Name
	case OpFunc:
		return "func:" + shortName(e.Name)
	case OpCall:
		var as []string
		for _, a := range e.Args {
			as = append(as, a.String())
		}
		return shortName(e.Name) + "(" + strings.Join(as, ", ") + ")"
	case OpExtract:
		return fmt.Sprintf("%s#%d", e.Args[0].String(), e.Idx)
	case OpBin:
		return "(" + e.Args[0].String() + " " + e.Name + " " + e.Args[1].String() + ")"
	case OpUn:
		return e.Name + e.Args[0].String()
	case OpConv:
		return e.Name + "(" + e.Args[0].String() + ")"
	case OpPhi:
		var as []string
		for _, a := range e.Args {
			as = append(as, a.String())
		}
		return "φ{" + strings.Join(as, " | ") + "}"
	case OpElem:
		if e.Name == "key" {
			return "key(" + e.Args[0].String() + ")"
		}
		if len(e.Args) == 2 && e.Args[1] != nil {
			return e.Args[0].String() + "[" + e.Args[1].String() + "]"
		}
		return e.Args[0].String() + "[*]"
	case OpLen:
		return "len(" + e.Args[0].String() + ")"
	case OpAppend:
		var as []string
		for _, a := range e.Args {
			as = append(as, a.String())
		}
		return "append(" + strings.Join(as, ", ") + ")"
	case OpSlice:
		return e.Args[0].String() + "[:]"
	case OpMake:
		return "make(" + e.Name + ")"
	case OpStruct:
		var as []string
		for i, a := range e.Args {
			if a == nil {
				continue
			}
			fname := fmt.Sprint(i)
			if e.Typ != nil {
				if st, ok := e.Typ.Underlying().(*types.Struct); ok && i < st.NumFields() {
					fname = st.Field(i).Name()
				}
			}
			as = append(as, fname+":"+a.String())
		}
		return e.Name + "{" + strings.Join(as, ", ") + "}"
	case OpNew:
		return "&" + e.Args[0].String()
	case OpAddr:
		return "&(" + e.Args[0].String() + ")"
	case OpClosure:
		var as []string
		for _, a := range e.Args {
			as = append(as, a.String())
		}
		return "closure:" + shortName(e.Name) + "[" + strings.Join(as, ", ") + "]"
	case OpTypeAssert:
		return e.Args[0].String() + ".(" + e.Name + ")"
	case OpRecv:
		return "<-" + e.Args[0].String()
	case OpZero:
		return "zero"
	case OpLoop:
		if e.Name != "" {
			return "loop:" + e.Name
		}
		return "loop"
	}
	return "?" + e.Name
}

func shortName(s string) string {
	s = strings.ReplaceAll(s, "github.com/mdlayher/corerad/internal/", "")
	s = strings.ReplaceAll(s, "github.com/mdlayher/corerad/", "")
	s = strings.ReplaceAll(s, "github.com/mdlayher/", "")
	return s
}

// ---- matcher helpers -------------------------------------------------------

// Alts returns the alternatives of a phi, or the expression itself.
func (e *Expr) Alts() []*Expr {
	if e.Op == OpPhi {
		return e.Args
	}
	return []*Expr{e}
}

// IsField reports whether e is a read of field name (of any base).
func (e *Expr) IsField(name string) bool { return e.Op == OpField && e.Name == name }

// FieldPath returns the chain of field names from the root, and the root.
func (e *Expr) FieldPath() (root *Expr, path []string) {
	cur := e
	for cur.Op == OpField {
		path = append([]string{cur.Name}, path...)
		cur = cur.Args[0]
	}
	return cur, path
}

// IsConst reports whether e is a constant with the given exact string.
func (e *Expr) IsConst(s string) bool { return e.Op == OpConst && e.Name == s }

// ConstInt returns the int64 value of a constant expression.
func (e *Expr) ConstInt() (int64, bool) {
	if e.Op != OpConst || e.Cval == nil {
		return 0, false
	}
	if e.Cval.Kind() == constant.Int {
		return constant.Int64Val(e.Cval)
	}
	if e.Cval.Kind() == constant.Float {
		f, _ := constant.Float64Val(e.Cval)
		if f == float64(int64(f)) {
			return int64(f), true
		}
	}
	return 0, false
}

// IsCallTo reports whether e is a call (not inlined) whose static callee has
// the given full name (e.g. "time.ParseDuration" or "(net/netip.Prefix).Bits").
func (e *Expr) IsCallTo(full string) bool {
	return e.Op == OpCall && e.Fn != nil && e.Fn.String() == full
}

// IsInvoke reports whether e is an interface method call of the given name.
func (e *Expr) IsInvoke(method string) bool {
	return e.Op == OpCall && e.Fn == nil && e.Obj != nil && e.Name == method
}

// Walk visits e and its sub-expressions.
func (e *Expr) Walk(f func(*Expr) bool) {
	if e == nil {
		return
	}
	if !f(e) {
		return
	}
	for _, a := range e.Args {
		a.Walk(f)
	}
}

// Contains reports whether any sub-expression satisfies pred.
func (e *Expr) Contains(pred func(*Expr) bool) bool {
	found := false
	e.Walk(func(x *Expr) bool {
		if found {
			return false
		}
		if pred(x) {
			found = true
			return false
		}
		return true
	})
	return found
}

// envFor returns the environment in which the operands of an instruction on
// the current path are evaluated: that of the frame (inlined helper) the
// instruction belongs to.
func (c *seeCtx) envFor(in ssa.Instruction) *seeCtx {
	f := in.Parent()
	if f == c.fn {
		return c
	}
	if c.ps == nil {
		for e := c.up; e != nil; e = e.up {
			if e.fn == f {
				return e
			}
		}
		return c
	}
	for i := len(c.ps.segs) - 1; i >= 0; i-- {
		sg := c.ps.segs[i]
		if sg.env != nil && sg.b.Parent() == f {
			return sg.env
		}
	}
	// a frame further up the inlining chain (a closure called in line reads a variable of the
	// function that created it)
	for e := c.up; e != nil; e = e.up {
		if e.fn == f {
			return e
		}
	}
	return c
}

func outermost(f *ssa.Function) *ssa.Function {
	for f.Parent() != nil {
		f = f.Parent()
	}
	return f
}

// liveStores drops stores that are overwritten before the load site: S1 is
// dead when another store S2 to the same place satisfies S1 dom S2 dom load.
// Only stores in the load's own function take part.
func (c *seeCtx) liveStores(al *ssa.Alloc, stores []placeStore, at ssa.Instruction) []placeStore {
	if at == nil || len(stores) == 0 {
		return stores
	}
	fn := at.Parent()
	// Path mode: when every store lives in the load's function, the value is
	// the last store executed on the path before the load.
	if c.ps != nil {
		all := true
		frames := map[*ssa.Function]bool{fn: true}
		for _, sg := range c.ps.segs {
			frames[sg.b.Parent()] = true
		}
		if lp0, ok := c.ps.pos(at); ok {
			// a store in a function that is not a frame of the path can only have happened
			// inside an opaque call to that function made earlier on the path
			var kept []placeStore
			for _, s := range stores {
				g := s.st.Parent()
				if frames[g] {
					kept = append(kept, s)
					continue
				}
				called := false
				for si, sg := range c.ps.segs {
					to := sg.to
					if to < 0 || to > len(sg.b.Instrs) {
						to = len(sg.b.Instrs)
					}
					for i := sg.from; i < to && !called; i++ {
						if si*100000+i >= lp0 {
							break
						}
						if ci, isCall := sg.b.Instrs[i].(ssa.CallInstruction); isCall {
							callee := StaticCallee(ci.Common())
							if callee == g {
								called = true
							}
							// an opaque call that receives the address may reach g
							if (callee == nil || !frames[callee]) && al != nil {
								for _, arg := range ci.Common().Args {
									for _, av := range allocAliases(al) {
										if arg == av {
											called = true
										}
									}
								}
							}
						}
					}
				}
				// a function nested in (or enclosing) a frame shares its variables through closure capture
				related := false
				for f := range frames {
					if outermost(f) == outermost(g) {
						related = true
					}
					// a bound-method value created in g runs after g's stores
					if strings.HasSuffix(f.Name(), "$bound") {
						for _, site := range boundWrapperSites(f) {
							if outermost(site.Parent()) == outermost(g) {
								related = true
							}
						}
					}
				}
				if called || related {
					all = false // may have executed: fall back to the flow-insensitive answer
					kept = append(kept, s)
				}
			}
			if all {
				stores = kept
			}
		}
		if lp, ok := c.ps.pos(at); ok && all {
			best, bestPos := -1, -1
			for i, s := range stores {
				if sp, ok := c.ps.pos(s.st); ok && sp < lp && sp > bestPos {
					best, bestPos = i, sp
				}
			}
			// stores inside a loop that the path has been through (its header lies
			// on the path after the chosen store and before the load) may have
			// executed in earlier iterations: keep them as alternatives
			var out []placeStore
			if best >= 0 {
				out = append(out, stores[best])
			}
			for i, s := range stores {
				if i == best {
					continue
				}
				if _, onPath := c.ps.pos(s.st); onPath {
					if sp, _ := c.ps.pos(s.st); sp < lp {
						continue // executed earlier on the path and overwritten, or is best
					}
				}
				sb := s.st.Block()
				for si, sg := range c.ps.segs {
					hb := sg.b
					hp := si * 100000
					if sg.from != 0 || hb.Parent() != sb.Parent() || !isLoopHeader(hb) {
						continue
					}
					// a variable declared inside the loop is fresh in every iteration: nothing carries over
					if al != nil && al.Parent() == hb.Parent() && hb.Dominates(al.Block()) {
						continue
					}
					if hp > bestPos && hp < lp && hb.Dominates(sb) && (sb == hb || Info(hb.Parent()).Reaches(sb, hb)) {
						out = append(out, s)
						break
					}
				}
			}
			if len(out) == 1 && best >= 0 {
				return out
			}
			if len(out) == 0 {
				return nil // no store executed yet on this path: zero value
			}
			if best < 0 {
				// zero value (no store before the loop) remains possible
				out = append(out, placeStore{st: nil})
			}
			return out
		}
	}
	if len(stores) < 2 {
		return stores
	}
	var out []placeStore
	for i, s1 := range stores {
		dead := false
		sf := s1.st.Parent()
		// the point in s1's function after which the load may happen: the load
		// itself, or the creation of the closure (chain) that contains the load
		var site ssa.Instruction = at
		if sf != fn {
			site = closureSiteIn(sf, fn)
		}
		if site != nil {
			for j, s2 := range stores {
				if i == j || s2.st.Parent() != sf {
					continue
				}
				if InstrDominates(s1.st, s2.st) && InstrDominates(s2.st, site) {
					dead = true
					break
				}
			}
		}
		if !dead {
			out = append(out, s1)
		}
	}
	return out
}

// closureSiteIn returns the unique MakeClosure instruction in outer that
// creates the closure (or an ancestor closure) in which inner is nested.
func closureSiteIn(outer, inner *ssa.Function) ssa.Instruction {
	child := inner
	for child != nil && child.Parent() != outer {
		child = child.Parent()
	}
	if child == nil {
		return nil
	}
	var site ssa.Instruction
	n := 0
	for _, b := range outer.Blocks {
		for _, in := range b.Instrs {
			if mc, ok := in.(*ssa.MakeClosure); ok && mc.Fn == child {
				site = mc
				n++
			}
		}
	}
	if n == 1 {
		return site
	}
	return nil
}
