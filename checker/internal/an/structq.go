package an

import (
	"go/token"
	"go/types"
	"strings"

	"golang.org/x/tools/go/ssa"
)

// CalleeObj returns the types.Func a call statically refers to (interface
// method for invokes, declared function/method for static calls, the wrapped
// method for bound-method closures), or nil for dynamic func values.
func CalleeObj(cc *ssa.CallCommon) *types.Func {
	if cc.IsInvoke() {
		return cc.Method
	}
	fn := StaticCallee(cc)
	if fn == nil {
		return nil
	}
	return FuncObj(fn)
}

// FuncObj returns the declared object of fn (origin for instantiations).
func FuncObj(fn *ssa.Function) *types.Func {
	if fn == nil {
		return nil
	}
	if o := fn.Origin(); o != nil {
		fn = o
	}
	if f, ok := fn.Object().(*types.Func); ok {
		return f
	}
	return nil
}

// ObjIs reports whether f is the function/method pkgPath.[recv.]name.
// recv == "" means a package-level function.
func ObjIs(f *types.Func, pkgPath, recv, name string) bool {
	if f == nil || f.Name() != name || f.Pkg() == nil || f.Pkg().Path() != pkgPath {
		return false
	}
	sig := f.Type().(*types.Signature)
	if recv == "" {
		return sig.Recv() == nil
	}
	if sig.Recv() == nil {
		return false
	}
	t := sig.Recv().Type()
	if p, ok := t.(*types.Pointer); ok {
		t = p.Elem()
	}
	if n, ok := t.(*types.Named); ok {
		return n.Obj().Name() == recv
	}
	// interface method: receiver is the interface type itself
	return false
}

// IfaceMethodIs reports whether f is method name of the named interface
// pkgPath.iface.
func IfaceMethodIs(f *types.Func, pkgPath, iface, name string) bool {
	if f == nil || f.Name() != name || f.Pkg() == nil || f.Pkg().Path() != pkgPath {
		return false
	}
	sig := f.Type().(*types.Signature)
	if sig.Recv() == nil {
		return false
	}
	t := sig.Recv().Type()
	if n, ok := t.(*types.Named); ok {
		return n.Obj().Name() == iface
	}
	// Unnamed receiver (interface literal embedded): fall back to name match within package.
	return true
}

// CallIs reports whether cc calls pkgPath.[recv.]name either statically or by
// interface invoke.
func CallIs(cc *ssa.CallCommon, pkgPath, recv, name string) bool {
	f := CalleeObj(cc)
	if f == nil {
		return false
	}
	if cc.IsInvoke() {
		return IfaceMethodIs(f, pkgPath, recv, name)
	}
	return ObjIs(f, pkgPath, recv, name)
}

// A Site is a call instruction with its enclosing function.
type Site struct {
	Fn    *ssa.Function
	Instr ssa.CallInstruction
}

func (s Site) Common() *ssa.CallCommon { return s.Instr.Common() }
func (s Site) Pos() token.Pos {
	if p := s.Instr.Pos(); p.IsValid() {
		return p
	}
	return s.Instr.Common().Pos()
}

// FindCalls returns every call site in fns for which pred holds.
func FindCalls(fns []*ssa.Function, pred func(*ssa.CallCommon) bool) []Site {
	var out []Site
	for _, fn := range fns {
		for _, b := range fn.Blocks {
			for _, in := range b.Instrs {
				if c, ok := in.(ssa.CallInstruction); ok && pred(c.Common()) {
					out = append(out, Site{fn, c})
				}
			}
		}
	}
	return out
}

// IsTestFile reports whether the position is in a _test.go file.
func IsTestFile(fset *token.FileSet, pos token.Pos) bool {
	return strings.HasSuffix(fset.Position(pos).Filename, "_test.go")
}

// FieldStores returns all Store instructions in fns whose address is a
// FieldAddr of field `field` of struct type named typeName in pkgPath.
type FieldStore struct {
	Fn    *ssa.Function
	Store *ssa.Store
	FA    *ssa.FieldAddr
}

func NamedStructOf(t types.Type) (*types.Named, *types.Struct) {
	if p, ok := t.Underlying().(*types.Pointer); ok {
		t = p.Elem()
	}
	n, _ := t.(*types.Named)
	if n == nil {
		if a, ok := t.(*types.Alias); ok {
			n, _ = types.Unalias(a).(*types.Named)
		}
	}
	st, _ := t.Underlying().(*types.Struct)
	return n, st
}

func FindFieldStores(fns []*ssa.Function, pkgPath, typeName, field string) []FieldStore {
	var out []FieldStore
	for _, fn := range fns {
		for _, b := range fn.Blocks {
			for _, in := range b.Instrs {
				st, ok := in.(*ssa.Store)
				if !ok {
					continue
				}
				fa, ok := st.Addr.(*ssa.FieldAddr)
				if !ok {
					continue
				}
				if FieldAddrIs(fa, pkgPath, typeName, field) {
					out = append(out, FieldStore{fn, st, fa})
				}
			}
		}
	}
	return out
}

// FieldAddrIs reports whether fa addresses pkgPath.typeName.field.
func FieldAddrIs(fa *ssa.FieldAddr, pkgPath, typeName, field string) bool {
	n, st := NamedStructOf(fa.X.Type())
	if n == nil || st == nil || n.Obj().Pkg() == nil {
		return false
	}
	if n.Obj().Name() != typeName || n.Obj().Pkg().Path() != pkgPath {
		return false
	}
	return st.Field(fa.Field).Name() == field
}

// FieldAddrName returns (pkgPath, typeName, fieldName) of fa.
func FieldAddrName(fa *ssa.FieldAddr) (string, string, string) {
	n, st := NamedStructOf(fa.X.Type())
	if st == nil {
		return "", "", ""
	}
	f := st.Field(fa.Field).Name()
	if n == nil || n.Obj().Pkg() == nil {
		return "", "", f
	}
	return n.Obj().Pkg().Path(), n.Obj().Name(), f
}

// MetricCall reports whether cc is an emission through a func-typed field of
// *corerad.Metrics and returns the field name.
func MetricCall(cc *ssa.CallCommon) (string, bool) {
	if cc.IsInvoke() {
		return "", false
	}
	u, ok := cc.Value.(*ssa.UnOp)
	if !ok || u.Op != token.MUL {
		return "", false
	}
	fa, ok := u.X.(*ssa.FieldAddr)
	if !ok {
		return "", false
	}
	pkg, typ, f := FieldAddrName(fa)
	if typ == "Metrics" && strings.HasSuffix(pkg, "/internal/corerad") {
		return f, true
	}
	return "", false
}

// Unwrap strips conversions that do not change the value.
func Unwrap(v ssa.Value) ssa.Value {
	for {
		switch x := v.(type) {
		case *ssa.ChangeType:
			v = x.X
		case *ssa.ChangeInterface:
			v = x.X
		case *ssa.MakeInterface:
			v = x.X
		default:
			return v
		}
	}
}

// AnonFuncsOf returns fn and all functions nested in it.
func WithAnon(fn *ssa.Function) []*ssa.Function {
	out := []*ssa.Function{fn}
	for _, a := range fn.AnonFuncs {
		out = append(out, WithAnon(a)...)
	}
	return out
}

// ModuleReach returns the set of module functions reachable from roots through
// static calls, closures created, and (when resolve != nil) dynamically
// resolved callees.
func ModuleReach(roots []*ssa.Function, inModule func(*ssa.Function) bool, resolve func(ssa.CallInstruction) []*ssa.Function) map[*ssa.Function]bool {
	seen := map[*ssa.Function]bool{}
	var work []*ssa.Function
	push := func(f *ssa.Function) {
		if f == nil || seen[f] || f.Blocks == nil || !inModule(f) {
			return
		}
		seen[f] = true
		work = append(work, f)
	}
	for _, r := range roots {
		push(r)
	}
	for len(work) > 0 {
		fn := work[len(work)-1]
		work = work[:len(work)-1]
		for _, b := range fn.Blocks {
			for _, in := range b.Instrs {
				switch x := in.(type) {
				case ssa.CallInstruction:
					if c := StaticCallee(x.Common()); c != nil {
						push(c)
					} else if resolve != nil {
						for _, c := range resolve(x) {
							push(c)
						}
					}
				}
				// closures and function values mentioned
				var ops []*ssa.Value
				for _, op := range in.Operands(ops) {
					if op == nil || *op == nil {
						continue
					}
					switch f := (*op).(type) {
					case *ssa.Function:
						push(f)
					case *ssa.MakeClosure:
						push(f.Fn.(*ssa.Function))
					case *ssa.Global:
						// a table of functions (`var checks = []func(...){a, b}`): reading the variable
						// reaches every function the package initialiser mentions while filling it
						for _, g := range funcsInInitOf(f) {
							push(g)
						}
					}
				}
			}
		}
	}
	return seen
}

var globalFuncs = map[*ssa.Global][]*ssa.Function{}

// funcsInInitOf lists the functions stored (directly or as elements) into a
// package-level variable of function, slice-of-function, array or map type by
// its package initialiser.
func funcsInInitOf(g *ssa.Global) []*ssa.Function {
	if fs, ok := globalFuncs[g]; ok {
		return fs
	}
	var out []*ssa.Function
	globalFuncs[g] = nil
	if g.Pkg == nil {
		return nil
	}
	init := g.Pkg.Func("init")
	if init == nil {
		return nil
	}
	// values that flow into g: the stored value, and for composite values the backing local
	roots := map[ssa.Value]bool{}
	for _, b := range init.Blocks {
		for _, in := range b.Instrs {
			switch x := in.(type) {
			case *ssa.Store:
				if x.Addr == ssa.Value(g) {
					v := x.Val
					for {
						switch y := v.(type) {
						case *ssa.Slice:
							v = y.X
							continue
						case *ssa.UnOp:
							v = y.X
							continue
						}
						break
					}
					roots[v] = true
				}
			case *ssa.IndexAddr:
				if x.X == ssa.Value(g) {
					roots[x] = true
				}
			case *ssa.MapUpdate:
				if ld, ok := x.Map.(*ssa.UnOp); ok && ld.X == ssa.Value(g) {
					if f, ok := x.Value.(*ssa.Function); ok {
						out = append(out, f)
					}
				}
			}
		}
	}
	addFrom := func(v ssa.Value) {
		for {
			if ct, ok := v.(*ssa.ChangeType); ok {
				v = ct.X
				continue
			}
			break
		}
		switch f := v.(type) {
		case *ssa.Function:
			out = append(out, f)
		case *ssa.MakeClosure:
			out = append(out, f.Fn.(*ssa.Function))
		}
	}
	for r := range roots {
		addFrom(r)
		if r.Referrers() == nil {
			continue
		}
		for _, u := range *r.Referrers() {
			switch x := u.(type) {
			case *ssa.Store:
				addFrom(x.Val)
			case *ssa.IndexAddr:
				if x.Referrers() != nil {
					for _, uu := range *x.Referrers() {
						if st, ok := uu.(*ssa.Store); ok {
							addFrom(st.Val)
						}
					}
				}
			case *ssa.MapUpdate:
				addFrom(x.Value)
			}
		}
	}
	globalFuncs[g] = out
	return out
}
