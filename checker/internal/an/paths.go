package an

import (
	"fmt"
	"go/constant"
	"go/token"
	"strings"

	"golang.org/x/tools/go/ssa"
)

// A PathAtom is a branch decision taken on a path, as a phi-free expression.
type PathAtom struct {
	Cond *Expr
	Pos  bool
	If   *ssa.If
}

func (a PathAtom) String() string {
	if a.Pos {
		return a.Cond.String()
	}
	return "!" + a.Cond.String()
}

// A Path is one acyclic path through a function (module-local loop-free
// callees enumerated in line), with every phi resolved by the path taken.
type Path struct {
	Atoms   []PathAtom
	Ret     *ssa.Return // nil for a panic exit
	Panic   *ssa.Panic
	Results []*Expr
	Blocks  []*ssa.BasicBlock
	// Cut is set when the path was stopped at a loop back edge: CutTo is the
	// loop header re-entered from CutFrom.
	Cut     bool
	CutTo   *ssa.BasicBlock
	CutFrom *ssa.BasicBlock
	// Env lets rules evaluate further values of the function on this path.
	env    *seeCtx
	segs   []seg   // instruction segments in execution order (callee bodies spliced in)
	cur    *seeCtx // environment of the instruction being visited by Instrs
	cutEnv *seeCtx // environment of the frame in which the back edge was taken (inlined helper loops)
}

// A seg is a run of instructions of one block, with the environment in which
// their operands are to be evaluated (nil = the path's own final environment).
type seg struct {
	b        *ssa.BasicBlock
	from, to int // [from, to) ; to < 0 = to the end of the block
	env      *seeCtx
}

// BackEdgeValue returns, for a cut path, the expression flowing into header
// phi ph along the back edge taken (in terms of loop symbols).
func (p *Path) BackEdgeValue(ph *ssa.Phi) *Expr {
	if !p.Cut || ph.Block() != p.CutTo {
		return nil
	}
	for i, pr := range p.CutTo.Preds {
		if pr == p.CutFrom {
			return p.cutEnvOrEnv().of(ph.Edges[i])
		}
	}
	return nil
}

func (p *Path) cutEnvOrEnv() *seeCtx {
	if p.cutEnv != nil {
		return p.cutEnv
	}
	return p.env
}

// Instrs calls f for every instruction executed on the path, in order.
func (p *Path) Instrs(f func(ssa.Instruction)) {
	defer func() { p.cur = nil }()
	if len(p.segs) == 0 {
		for _, b := range p.Blocks {
			for _, in := range b.Instrs {
				f(in)
			}
		}
		return
	}
	for _, sg := range p.segs {
		to := sg.to
		if to < 0 || to > len(sg.b.Instrs) {
			to = len(sg.b.Instrs)
		}
		p.cur = sg.env
		if p.cur == nil {
			p.cur = p.env
		}
		for i := sg.from; i < to; i++ {
			f(sg.b.Instrs[i])
		}
	}
}

// Of evaluates v (a value of the path's function) under the path's phi
// choices and call bindings.
func (p *Path) Of(v ssa.Value) *Expr {
	fn := v.Parent()
	if fn == nil {
		return p.env.of(v)
	}
	if p.cur != nil && p.cur.fn == fn {
		return p.cur.of(v)
	}
	if p.env.fn == fn {
		return p.env.of(v)
	}
	for i := len(p.segs) - 1; i >= 0; i-- {
		if e := p.segs[i].env; e != nil && e.fn == fn {
			return e.of(v)
		}
	}
	return p.env.of(v)
}

// Load returns the value held at address addr when instruction at executes on
// the path (the last store before it, in the frame the address belongs to).
func (p *Path) Load(addr ssa.Value, at ssa.Instruction) *Expr {
	env := p.env
	if fn := addr.Parent(); fn != nil && env.fn != fn {
		for i := len(p.segs) - 1; i >= 0; i-- {
			if e := p.segs[i].env; e != nil && e.fn == fn {
				env = e
				break
			}
		}
	}
	return env.loadAt(addr, at)
}

// Visited reports whether block b lies on the path.
func (p *Path) Visited(b *ssa.BasicBlock) bool {
	for _, x := range p.Blocks {
		if x == b {
			return true
		}
	}
	return false
}

// PathOpts bounds the enumeration.
type PathOpts struct {
	MaxPaths int
	// EmitCut also reports partial paths stopped at a loop back edge.
	EmitCut bool
	// InlinePaths reports whether calls to fn are enumerated path by path.
	// Other module-local callees are summarised by SEE inlining (phi-merged).
	InlinePaths func(fn *ssa.Function) bool
}

type pathEnum struct {
	x     *Extractor
	opts  PathOpts
	count int
	over  bool
}

// ErrTooManyPaths is returned when the bound is exceeded.
var ErrTooManyPaths = fmt.Errorf("path bound exceeded")

// Paths enumerates the acyclic paths of fn from entry to every exit. Loop back
// edges are cut (each block at most once per path).
func (x *Extractor) Paths(fn *ssa.Function, opts PathOpts) ([]*Path, error) {
	if opts.MaxPaths == 0 {
		opts.MaxPaths = 20000
	}
	pe := &pathEnum{x: x, opts: opts}
	c := &seeCtx{x: x, params: map[*ssa.Parameter]*Expr{}, fvs: map[*ssa.FreeVar]*Expr{},
		stack: map[*ssa.Function]bool{fn: true}, active: map[ssa.Value]bool{}, memo: map[ssa.Value]*Expr{}, fn: fn}
	var out []*Path
	pe.walk(c, fn, func(p *Path) { out = append(out, p) })
	if pe.over {
		return out, ErrTooManyPaths
	}
	return out, nil
}

// PathsBound enumerates the paths of fn with its parameters bound to the
// given expressions (the arguments of a call that is not executed in line,
// such as a deferred call).
func (x *Extractor) PathsBound(fn *ssa.Function, args []*Expr, opts PathOpts) ([]*Path, error) {
	return x.PathsBoundFV(fn, args, nil, opts)
}

// PathsBoundFV is PathsBound with the closure's captured variables bound as
// well (fvs[i] describes fn.FreeVars[i], as in the Args of an OpClosure
// expression).
func (x *Extractor) PathsBoundFV(fn *ssa.Function, args, fvs []*Expr, opts PathOpts) ([]*Path, error) {
	if opts.MaxPaths == 0 {
		opts.MaxPaths = 20000
	}
	pe := &pathEnum{x: x, opts: opts}
	c := &seeCtx{x: x, params: map[*ssa.Parameter]*Expr{}, fvs: map[*ssa.FreeVar]*Expr{},
		stack: map[*ssa.Function]bool{fn: true}, active: map[ssa.Value]bool{}, memo: map[ssa.Value]*Expr{}, fn: fn}
	for i, p := range fn.Params {
		if i < len(args) && args[i] != nil {
			c.params[p] = args[i]
		}
	}
	for i, fv := range fn.FreeVars {
		if i < len(fvs) && fvs[i] != nil {
			c.fvs[fv] = fvs[i]
		}
	}
	var out []*Path
	pe.walk(c, fn, func(p *Path) { out = append(out, p) })
	if pe.over {
		return out, ErrTooManyPaths
	}
	return out, nil
}

type pstate struct {
	atoms   []PathAtom
	blocks  []*ssa.BasicBlock
	visited map[*ssa.BasicBlock]bool
	segs    []seg
}

// pos returns the position of an instruction on the path in execution order
// (segment index × instruction index), if it has been reached.
func (s *pstate) pos(in ssa.Instruction) (int, bool) {
	b := in.Block()
	idx := InstrBlockIndex(in)
	for si := len(s.segs) - 1; si >= 0; si-- {
		sg := s.segs[si]
		if sg.b != b || idx < sg.from {
			continue
		}
		if sg.to >= 0 && idx >= sg.to {
			continue
		}
		return si*100000 + idx, true
	}
	return 0, false
}

func (s *pstate) clone() *pstate {
	n := &pstate{atoms: append([]PathAtom{}, s.atoms...), blocks: append([]*ssa.BasicBlock{}, s.blocks...), visited: map[*ssa.BasicBlock]bool{}, segs: append([]seg{}, s.segs...)}
	for k := range s.visited {
		n.visited[k] = true
	}
	return n
}

func (c *seeCtx) clone() *seeCtx {
	n := &seeCtx{x: c.x, depth: c.depth, params: c.params, fvs: c.fvs, stack: c.stack, ps: c.ps, defAt: c.defAt, fn: c.fn, up: c.up,
		active: map[ssa.Value]bool{}, memo: make(map[ssa.Value]*Expr, len(c.memo))}
	if c.retAlias != nil {
		n.retAlias = make(map[ssa.Value]map[int]*ssa.Alloc, len(c.retAlias))
		for k, v := range c.retAlias {
			n.retAlias[k] = v
		}
	}
	for k, v := range c.memo {
		n.memo[k] = v
	}
	return n
}

func (pe *pathEnum) walkOpts(c *seeCtx, fn *ssa.Function, emitCut bool, emit func(*Path)) {
	pe.walk(c, fn, emit)
}

func (pe *pathEnum) walk(c *seeCtx, fn *ssa.Function, emit func(*Path)) {
	st := &pstate{visited: map[*ssa.BasicBlock]bool{}}
	c.ps = st
	pe.block(c, fn.Blocks[0], nil, st, emit)
}

func (pe *pathEnum) block(c *seeCtx, b, pred *ssa.BasicBlock, st *pstate, emit func(*Path)) {
	if pe.over {
		return
	}
	if st.visited[b] {
		// back edge (or re-entry): cut and report the partial path
		if pe.opts.EmitCut && pred != nil {
			pe.count++
			if pe.count > pe.opts.MaxPaths {
				pe.over = true
				return
			}
			c.defAt = pred.Instrs[len(pred.Instrs)-1]
			emit(&Path{Atoms: st.atoms, Blocks: st.blocks, Cut: true, CutTo: b, CutFrom: pred, env: c, segs: st.segs})
		}
		return
	}
	st.visited[b] = true
	st.blocks = append(st.blocks, b)
	st.segs = append(st.segs, seg{b: b, from: 0, to: -1})
	// Loop headers: phis become loop symbols ("some iteration").
	if isLoopHeader(b) {
		for _, in := range b.Instrs {
			ph, ok := in.(*ssa.Phi)
			if !ok {
				break
			}
			c.memo[ph] = &Expr{Op: OpLoop, V: ph, Typ: ph.Type(), Name: LoopName(ph), Idx: 1}
		}
	} else if pred != nil {
		// Resolve phis by the edge taken (simultaneous assignment).
		pi := -1
		for i, p := range b.Preds {
			if p == pred {
				pi = i
			}
		}
		var phis []*ssa.Phi
		var vals []*Expr
		for _, in := range b.Instrs {
			ph, ok := in.(*ssa.Phi)
			if !ok {
				break
			}
			phis = append(phis, ph)
			if pi >= 0 {
				vals = append(vals, c.of(ph.Edges[pi]))
			} else {
				vals = append(vals, &Expr{Op: OpUnknown, Name: "phi"})
			}
		}
		for i, ph := range phis {
			c.memo[ph] = vals[i]
		}
	}
	pe.instrs(c, b, 0, st, emit)
}

func (pe *pathEnum) instrs(c *seeCtx, b *ssa.BasicBlock, i int, st *pstate, emit func(*Path)) {
	for ; i < len(b.Instrs); i++ {
		in := b.Instrs[i]
		if call, ok := in.(*ssa.Call); ok {
			callee := StaticCallee(&call.Call)
			if pn := neverReturns(callee); pn != nil {
				// a helper that always panics (panicf): the path ends here
				pe.count++
				if pe.count > pe.opts.MaxPaths {
					pe.over = true
					return
				}
				if k := len(st.segs) - 1; k >= 0 {
					st.segs[k].to = i + 1
				}
				emit(&Path{Atoms: st.atoms, Panic: pn, Blocks: st.blocks, env: c, segs: st.segs})
				return
			}
			if callee != nil && callee.Blocks != nil && pe.opts.InlinePaths != nil && pe.opts.InlinePaths(callee) &&
				!c.stack[callee] && c.depth < 6 {
				// Enumerate callee paths.
				n := c.child(callee)
				// what the arguments point to is observed at the call
				prevAt := c.defAt
				c.defAt = call
				for pi, p := range callee.Params {
					if pi < len(call.Call.Args) {
						n.params[p] = c.of(call.Call.Args[pi])
					}
				}
				c.defAt = prevAt
				next := i + 1
				any := false
				pe.walkOpts(n, callee, pe.opts.EmitCut, func(cp *Path) {
					if cp.Ret == nil {
						if cp.Cut && pe.opts.EmitCut {
							// one iteration of a loop inside the helper: report it as a cut path of the caller
							stc := st.clone()
							stc.atoms = append(stc.atoms, cp.Atoms...)
							stc.blocks = append(stc.blocks, cp.Blocks...)
							if k := len(stc.segs) - 1; k >= 0 {
								stc.segs[k].to = next
							}
							for _, cs := range cp.segs {
								if cs.env == nil {
									cs.env = cp.env
								}
								stc.segs = append(stc.segs, cs)
							}
							emit(&Path{Atoms: stc.atoms, Blocks: stc.blocks, Cut: true, CutTo: cp.CutTo, CutFrom: cp.CutFrom, env: c, segs: stc.segs, cutEnv: cp.cutEnvOrEnv()})
						}
						if cp.Panic != nil {
							// the helper panics on this path: so does the caller
							stc := st.clone()
							stc.atoms = append(stc.atoms, cp.Atoms...)
							stc.blocks = append(stc.blocks, cp.Blocks...)
							if k := len(stc.segs) - 1; k >= 0 {
								stc.segs[k].to = next
							}
							for _, cs := range cp.segs {
								if cs.env == nil {
									cs.env = cp.env
								}
								stc.segs = append(stc.segs, cs)
							}
							emit(&Path{Atoms: stc.atoms, Blocks: stc.blocks, Panic: cp.Panic, env: c, segs: stc.segs})
						}
						return // callee panics on this path; not continued
					}
					any = true
					c2 := c.clone()
					st2 := st.clone()
					c2.ps = st2
					st2.atoms = append(st2.atoms, cp.Atoms...)
					st2.blocks = append(st2.blocks, cp.Blocks...)
					// close the caller's segment after the call instruction, splice the callee's
					// segments (bound to the callee environment), reopen the caller's block
					if k := len(st2.segs) - 1; k >= 0 {
						st2.segs[k].to = next
					}
					for _, cs := range cp.segs {
						if cs.env == nil {
							cs.env = cp.env
						}
						st2.segs = append(st2.segs, cs)
					}
					st2.segs = append(st2.segs, seg{b: b, from: next, to: -1})
					// results that are addresses of objects the callee allocated stay live
					for ri, rv := range cp.Ret.Results {
						if al, isAlloc := rv.(*ssa.Alloc); isAlloc {
							if c2.retAlias == nil {
								c2.retAlias = map[ssa.Value]map[int]*ssa.Alloc{}
							}
							if c2.retAlias[call] == nil {
								c2.retAlias[call] = map[int]*ssa.Alloc{}
							}
							c2.retAlias[call][ri] = al
						}
					}
					if len(cp.Results) == 1 {
						c2.memo[call] = cp.Results[0]
					} else {
						c2.memo[call] = &Expr{Op: OpStruct, Name: "tuple", Args: cp.Results, Typ: call.Type()}
					}
					bad := false
					for k := len(st.atoms) + 1; k <= len(st2.atoms); k++ {
						if infeasible(st2.atoms[:k]) {
							bad = true
							break
						}
					}
					if bad {
						return
					}
					pe.instrs(c2, b, next, st2, emit)
				})
				_ = any
				return
			}
		}
		switch t := in.(type) {
		case *ssa.If:
			cond := c.of(t.Cond)
			flipped := false
			for cond.Op == OpUn && cond.Tok == token.NOT {
				cond = cond.Args[0]
				flipped = !flipped
			}
			if v, ok := FoldBool(cond); ok {
				if flipped {
					v = !v
				}
				k := 1
				if v {
					k = 0
				}
				pe.block(c, b.Succs[k], b, st, emit)
				return
			}
			for k := 0; k < 2; k++ {
				c2, st2 := c, st
				if k == 0 {
					c2, st2 = c.clone(), st.clone()
					c2.ps = st2
				}
				st2.atoms = append(st2.atoms, PathAtom{cond, (k == 0) != flipped, t})
				if infeasible(st2.atoms) {
					continue
				}
				pe.block(c2, b.Succs[k], b, st2, emit)
			}
			return
		case *ssa.Jump:
			pe.block(c, b.Succs[0], b, st, emit)
			return
		case *ssa.Return:
			pe.count++
			if pe.count > pe.opts.MaxPaths {
				pe.over = true
				return
			}
			p := &Path{Atoms: st.atoms, Ret: t, Blocks: st.blocks, env: c, segs: st.segs}
			c.defAt = t
			for _, r := range t.Results {
				p.Results = append(p.Results, c.of(r))
			}
			emit(p)
			return
		case *ssa.Panic:
			pe.count++
			if pe.count > pe.opts.MaxPaths {
				pe.over = true
				return
			}
			emit(&Path{Atoms: st.atoms, Panic: t, Blocks: st.blocks, env: c, segs: st.segs})
			return
		}
	}
}

// infeasible reports whether the atom list contains the same condition with
// both polarities (by canonical string).
func infeasible(atoms []PathAtom) bool {
	if len(atoms) == 0 {
		return false
	}
	last := atoms[len(atoms)-1]
	if blockingSelectExhausted(atoms) {
		return true
	}
	ls := last.Cond.String()
	lp := pure(last.Cond)
	for _, a := range atoms[:len(atoms)-1] {
		if a.Pos != last.Pos && a.Cond.String() == ls && (lp || (a.Cond.V != nil && a.Cond.V == last.Cond.V) || sameInstance(a.Cond, last.Cond)) {
			return true
		}
	}
	return false
}

// blockingSelectExhausted: the last atom denies the last remaining case of a
// blocking select (the fall-through go/ssa emits is `panic("blocking select
// matched no case")`, which cannot happen).
func blockingSelectExhausted(atoms []PathAtom) bool {
	selOf := func(a PathAtom) (*ssa.Select, int64, bool) {
		if a.Pos || a.Cond.Op != OpBin || a.Cond.Tok != token.EQL || len(a.Cond.Args) != 2 {
			return nil, 0, false
		}
		x, y := a.Cond.Args[0], a.Cond.Args[1]
		sel, ok := x.V.(*ssa.Select)
		if !ok || x.Name != "select.index" || !sel.Blocking {
			return nil, 0, false
		}
		k, isC := y.ConstInt()
		return sel, k, isC
	}
	last := atoms[len(atoms)-1]
	sel, _, ok := selOf(last)
	if !ok {
		return false
	}
	// only the atoms after the most recent evaluation of this select count: walk back until an
	// atom of the same select repeats an index
	denied := map[int64]bool{}
	for i := len(atoms) - 1; i >= 0; i-- {
		s2, k, ok := selOf(atoms[i])
		if !ok || s2 != sel {
			if x := atoms[i].Cond; x.Op == OpBin && len(x.Args) == 2 && x.Args[0].V == ssa.Value(sel) {
				break // a positive atom of this select: an earlier evaluation
			}
			continue
		}
		if denied[k] {
			break
		}
		denied[k] = true
	}
	return len(denied) >= len(sel.States)
}

// FoldBool folds a comparison between constants.
func FoldBool(e *Expr) (bool, bool) {
	switch e.Op {
	case OpConst:
		if e.Cval != nil && e.Cval.Kind() == constant.Bool {
			return constant.BoolVal(e.Cval), true
		}
	case OpUn:
		if e.Tok == token.NOT {
			if v, ok := FoldBool(e.Args[0]); ok {
				return !v, true
			}
		}
	case OpBin:
		x, y := e.Args[0], e.Args[1]
		if x.Op == OpConst && y.Op == OpConst {
			// nil comparisons
			if x.Cval == nil || y.Cval == nil {
				if x.Cval == nil && y.Cval == nil && x.Name == "nil" && y.Name == "nil" {
					switch e.Tok {
					case token.EQL:
						return true, true
					case token.NEQ:
						return false, true
					}
				}
				return false, false
			}
			switch e.Tok {
			case token.EQL, token.NEQ, token.LSS, token.LEQ, token.GTR, token.GEQ:
				if x.Cval.Kind() == y.Cval.Kind() || (isNum(x.Cval) && isNum(y.Cval)) {
					return constant.Compare(x.Cval, e.Tok, y.Cval), true
				}
			}
		}
		// x == x
		if (e.Tok == token.EQL || e.Tok == token.NEQ) && pure(x) && x.String() == y.String() {
			return e.Tok == token.EQL, true
		}
		// fmt.Errorf / errors.New never return nil
		if x.Op == OpCall && x.Fn != nil && (x.Fn.String() == "fmt.Errorf" || x.Fn.String() == "errors.New") && y.Op == OpConst && y.Name == "nil" {
			switch e.Tok {
			case token.EQL:
				return false, true
			case token.NEQ:
				return true, true
			}
		}
		// &fresh != nil
		if (x.Op == OpNew || x.Op == OpAddr || x.Op == OpClosure || x.Op == OpFunc) && y.Op == OpConst && y.Name == "nil" {
			switch e.Tok {
			case token.EQL:
				return false, true
			case token.NEQ:
				return true, true
			}
		}
	}
	return false, false
}

func isNum(v constant.Value) bool {
	return v.Kind() == constant.Int || v.Kind() == constant.Float
}

// pure reports whether e contains no calls (so equal strings mean equal values).
func pure(e *Expr) bool {
	return !e.Contains(func(x *Expr) bool {
		if x.Op == OpCall {
			return !pureCall(x)
		}
		return x.Op == OpRecv || x.Op == OpUnknown || (x.Op == OpLoop && x.Idx == 0)
	})
}

// isLoopHeader reports whether b has an incoming back edge.
// NeverReturns reports whether fn has a body and every call of it ends in panic.
func NeverReturns(fn *ssa.Function) bool { return neverReturns(fn) != nil }

var noRet = map[*ssa.Function]*ssa.Panic{}

// neverReturns returns the panic instruction of a function with a body none of
// whose reachable blocks returns (every call ends in panic), or nil.
func neverReturns(fn *ssa.Function) *ssa.Panic {
	if fn == nil || fn.Blocks == nil {
		return nil
	}
	if p, ok := noRet[fn]; ok {
		return p
	}
	var pn *ssa.Panic
	returns := false
	seen := map[*ssa.BasicBlock]bool{}
	var walk func(b *ssa.BasicBlock)
	walk = func(b *ssa.BasicBlock) {
		if seen[b] {
			return
		}
		seen[b] = true
		switch t := b.Instrs[len(b.Instrs)-1].(type) {
		case *ssa.Return:
			returns = true
		case *ssa.Panic:
			if pn == nil {
				pn = t
			}
		}
		for _, s := range b.Succs {
			walk(s)
		}
	}
	walk(fn.Blocks[0])
	if returns || fn.Recover != nil {
		pn = nil
	}
	noRet[fn] = pn
	return pn
}

func isLoopHeader(b *ssa.BasicBlock) bool {
	for _, p := range b.Preds {
		if b.Dominates(p) {
			return true
		}
	}
	return false
}

// pureCall reports whether a call expression is to a function known to be a
// pure function of its arguments (value-receiver methods of netip/time types
// and a few stdlib predicates).
func pureCall(e *Expr) bool {
	if e.Fn == nil {
		return false
	}
	n := e.Fn.String()
	for _, p := range []string{"(net/netip.Addr).", "(net/netip.Prefix).", "(time.Duration).", "net/netip.IPv6LinkLocalAllNodes", "net/netip.IPv6LinkLocalAllRouters", "net/netip.IPv6Unspecified", "net/netip.PrefixFrom", "net/netip.AddrFrom16"} {
		if strings.HasPrefix(n, p) {
			return true
		}
	}
	return false
}

// LoopName is the symbol name of a loop-header phi: its source name (when it
// has one) plus its SSA register, so that two loops' counters stay distinct.
func LoopName(ph *ssa.Phi) string {
	if ph.Comment != "" {
		return ph.Comment + "." + ph.Name()
	}
	return ph.Name()
}

// LoopSym is the canonical string of the loop symbol for ph.
func LoopSym(ph *ssa.Phi) string { return "loop:" + LoopName(ph) }

// sameInstance reports whether two structurally equal expressions denote the
// same runtime value: every impure node (call, receive, unknown) is the very
// same SSA instruction in both.
func sameInstance(a, b *Expr) bool {
	if a == nil || b == nil {
		return a == b
	}
	if a.Op != b.Op || a.Name != b.Name || len(a.Args) != len(b.Args) || a.Idx != b.Idx {
		return false
	}
	switch a.Op {
	case OpCall:
		if !pureCall(a) && (a.V == nil || a.V != b.V) {
			return false
		}
	case OpRecv, OpUnknown:
		if a.V == nil || a.V != b.V {
			return false
		}
	case OpLoop:
		if a.Idx == 0 {
			return false
		}
	}
	for i := range a.Args {
		if !sameInstance(a.Args[i], b.Args[i]) {
			return false
		}
	}
	return true
}
