package rules

import (
	"fmt"
	"go/constant"
	"go/token"
	"go/types"
	"strings"

	"crverif/internal/an"
	"crverif/internal/load"

	"golang.org/x/tools/go/ssa"
)

func init() {
	register(&RuleSet{
		Property: "C19",
		Explanation: "STRUCT/GUARD/PATH rules on netstate.Watcher: R-C19-1 lockset (Watcher.m read only under mu, written only under the write lock held entry-to-exit); " +
			"R-C19-2 every send on a Change channel is a case of a non-blocking select, subscriber channels have constant capacity 8; " +
			"R-C19-3 the send is guarded by (subscription key & change) != 0 for the key under which the channel is registered and by the interface lookup, value sent is that change; " +
			"R-C19-4 subscriber channels are closed only in Watch's deferred function under the write lock, after the single-use guard; that function records that watching has ended, and Subscribe (write lock held) registers its fresh channel exactly once while it has not, and closes it unregistered once it has; " +
			"R-C19-5 rtnetlink operstate ↔ Change table by name, LinkAny is the OR of all seven, BuildTasks subscribes to LinkDown R-C19-1 also: a function holding Watcher.mu never calls one that acquires it; R-C19-3 is decided on the enumerated paths of notify (helpers in line) and every path through the send loops back to the subscriber loop; the watching guard swaps in a non-zero marker. R-C19-4 also: the closing function is never used as a value (bound method, stored or passed closure, go statement). The closing function's defer dominates every return of Watch. R-C19-3 also: a subscription whose mask intersects the change always reaches the loop over its channels (no remembered last value or rate limit in between).",
		Assumptions: []string{
			"Go type checker and go/ssa construction are correct",
			"sync.RWMutex provides mutual exclusion; a function whose first action is Lock/RLock followed by a deferred Unlock/RUnlock holds the lock until it returns",
		},
		NotCovered: []string{"delivery order across goroutines", "Subscribe after Watch has ended", "ordering of notifications beyond per-slice iteration order"},
		Run:        runC19,
	})
}

func isChangeChan(t types.Type) bool {
	ch, ok := t.Underlying().(*types.Chan)
	if !ok {
		return false
	}
	n, ok := ch.Elem().(*types.Named)
	return ok && n.Obj().Name() == "Change" && n.Obj().Pkg() != nil && n.Obj().Pkg().Path() == PkgNet
}

// lockHeld reports whether fn runs entirely under the named mutex: "W" or "R"
// when the first call of fn locks it (Lock/RLock on pkg.typ.field) and every
// memory access and call of fn executes while it is held — either because the
// matching unlock is deferred in the entry block, or because each explicit
// unlock is followed by nothing but the return. "" otherwise.
func lockHeld(fn *ssa.Function, pkg, typ, field string) string {
	if len(fn.Blocks) == 0 {
		return ""
	}
	onMu := func(cc *ssa.CallCommon) (string, bool) {
		f := an.CalleeObj(cc)
		if f == nil || len(cc.Args) == 0 {
			return "", false
		}
		fa, ok := cc.Args[0].(*ssa.FieldAddr)
		if !ok || !an.FieldAddrIs(fa, pkg, typ, field) {
			return "", false
		}
		switch f.Name() {
		case "Lock", "RLock", "Unlock", "RUnlock":
			return f.Name(), true
		}
		return "", false
	}
	// the first call locks; a deferred unlock in the entry block settles it
	mode := ""
	deferred := false
	for _, in := range fn.Blocks[0].Instrs {
		switch x := in.(type) {
		case *ssa.Call:
			op, ok := onMu(&x.Call)
			if mode == "" {
				switch {
				case ok && op == "Lock":
					mode = "W"
				case ok && op == "RLock":
					mode = "R"
				default:
					return ""
				}
				continue
			}
		case *ssa.Defer:
			if mode == "" {
				return ""
			}
			if op, ok := onMu(&x.Call); ok && ((mode == "W" && op == "Unlock") || (mode == "R" && op == "RUnlock")) {
				deferred = true
			}
		case *ssa.FieldAddr, *ssa.UnOp, *ssa.Alloc, *ssa.Store, *ssa.MakeClosure:
			continue
		default:
			if mode == "" {
				return ""
			}
		}
		if deferred {
			break
		}
	}
	if mode == "" {
		return ""
	}
	if deferred {
		return mode
	}
	// explicit unlocks: must-hold dataflow; nothing that touches memory or calls may run unlocked
	in := map[*ssa.BasicBlock]string{}
	out := map[*ssa.BasicBlock]string{}
	const top = "?"
	for _, b := range fn.Blocks {
		in[b], out[b] = top, top
	}
	in[fn.Blocks[0]] = ""
	okAll := true
	transfer := func(b *ssa.BasicBlock, check bool) string {
		st := in[b]
		for _, ins := range b.Instrs {
			if call, ok := ins.(*ssa.Call); ok {
				if op, isMu := onMu(&call.Call); isMu {
					switch op {
					case "Lock":
						st = "W"
					case "RLock":
						st = "R"
					default:
						st = ""
					}
					continue
				}
			}
			if !check || st != "" {
				continue
			}
			switch x := ins.(type) {
			case *ssa.Return, *ssa.Jump, *ssa.If, *ssa.Phi, *ssa.FieldAddr, *ssa.DebugRef, *ssa.RunDefers, *ssa.BinOp, *ssa.Alloc:
			case *ssa.UnOp:
				if x.Op == token.MUL {
					if _, isAlloc := x.X.(*ssa.Alloc); !isAlloc {
						okAll = false // a load from shared memory without the lock
					}
				}
			case *ssa.Store:
				if _, isAlloc := x.Addr.(*ssa.Alloc); !isAlloc {
					okAll = false
				}
			default:
				okAll = false
			}
		}
		return st
	}
	for changed := true; changed; {
		changed = false
		for _, b := range fn.Blocks {
			if b != fn.Blocks[0] {
				st := top
				for _, p := range b.Preds {
					switch {
					case out[p] == top:
					case st == top:
						st = out[p]
					case st != out[p]:
						st = ""
					}
				}
				if st != in[b] {
					in[b] = st
					changed = true
				}
			}
			if in[b] == top {
				continue
			}
			if o := transfer(b, false); o != out[b] {
				out[b] = o
				changed = true
			}
		}
	}
	// everything before the first Lock in the entry block was vetted above; check the rest
	for _, b := range fn.Blocks {
		if in[b] == top {
			continue
		}
		if b == fn.Blocks[0] {
			// skip the prefix up to and including the locking call
			st := ""
			locked := false
			for _, ins := range b.Instrs {
				if !locked {
					if call, ok := ins.(*ssa.Call); ok {
						if op, isMu := onMu(&call.Call); isMu && (op == "Lock" || op == "RLock") {
							locked = true
							st = mode
						}
					}
					continue
				}
				if call, ok := ins.(*ssa.Call); ok {
					if op, isMu := onMu(&call.Call); isMu {
						if op == "Unlock" || op == "RUnlock" {
							st = ""
						} else {
							st = mode
						}
						continue
					}
				}
				if st == "" {
					switch x := ins.(type) {
					case *ssa.Return, *ssa.Jump, *ssa.If, *ssa.Phi, *ssa.FieldAddr, *ssa.DebugRef, *ssa.RunDefers, *ssa.BinOp, *ssa.Alloc:
					case *ssa.UnOp:
						if x.Op == token.MUL {
							if _, isAlloc := x.X.(*ssa.Alloc); !isAlloc {
								okAll = false
							}
						}
					case *ssa.Store:
						if _, isAlloc := x.Addr.(*ssa.Alloc); !isAlloc {
							okAll = false
						}
					default:
						okAll = false
					}
				}
			}
			continue
		}
		transfer(b, true)
	}
	if !okAll {
		return ""
	}
	return mode
}

// isFreshObject reports whether v is (a pointer into) an object allocated in
// the same function (constructor context).
func isFreshObject(v ssa.Value) bool {
	switch x := v.(type) {
	case *ssa.Alloc:
		return true
	case *ssa.FieldAddr:
		return isFreshObject(x.X)
	}
	return false
}

func runC19(c *Ctx) {
	// R-C19-1 lock discipline for Watcher.m
	nAcc := 0
	for _, fn := range c.srcFuncs() {
		for _, b := range fn.Blocks {
			for _, in := range b.Instrs {
				fa, ok := in.(*ssa.FieldAddr)
				if !ok || !an.FieldAddrIs(fa, PkgNet, "Watcher", "m") {
					continue
				}
				if isFreshObject(fa.X) {
					continue // constructor: object not shared yet
				}
				nAcc++
				mode := lockHeld(fn, PkgNet, "Watcher", "mu")
				// does this function write the map?
				writes := false
				if refs := fa.Referrers(); refs != nil {
					for _, r := range *refs {
						if st, ok := r.(*ssa.Store); ok && st.Addr == fa {
							writes = true
						}
						if ld, ok := r.(*ssa.UnOp); ok && ld.Op == token.MUL {
							writes = writes || mapWritten(ld, map[ssa.Value]bool{})
						}
					}
				}
				ok2 := mode == "W" || (mode == "R" && !writes)
				c.R.Check(ok2, "R-C19-1", c.fname(fn)+":access-Watcher.m", c.fname(fn), c.pos(fa.Pos()),
					fmt.Sprintf("lock held entry-to-exit: %q; writes subscriber map: %v", mode, writes),
					"Watcher.m is read with mu held (R or W) and written only with the write lock, from function entry to exit (Lock + defer Unlock)",
					"subscriber map accessed without the required lock: Subscribe concurrent with notify/close is a data race")
			}
		}
	}
	c.R.Floor("R-C19-1", 3)

	// R-C19-2: no bare sends; selects with a Change send are non-blocking; capacity 8.
	nSel := 0
	for _, fn := range c.srcFuncs() {
		for _, b := range fn.Blocks {
			for _, in := range b.Instrs {
				switch x := in.(type) {
				case *ssa.Send:
					if isChangeChan(x.Chan.Type()) {
						c.R.Fail("R-C19-2", c.fname(fn)+":bare-send", c.fname(fn), c.pos(x.Pos()), "blocking send on a Change channel",
							"every send on a subscriber channel is a case of a select with a default", "a full subscriber buffer blocks the watcher")
					}
				case *ssa.Select:
					for _, st := range x.States {
						if st.Dir == types.SendOnly && isChangeChan(st.Chan.Type()) {
							nSel++
							c.R.Check(!x.Blocking, "R-C19-2", c.fname(fn)+":select-send", c.fname(fn), c.pos(x.Pos()),
								fmt.Sprintf("select blocking=%v with %d case(s)", x.Blocking, len(x.States)),
								"send to a subscriber is a case of a select that has a default", "a full subscriber buffer blocks the watcher")
							if fn.Pkg != nil && fn.Pkg.Pkg.Path() == PkgNet {
								if anchorFuncs[c.fname(fn)] {
									c19OnlyIf(c, fn, x, st)
								}
								c19OnlyIfPaths(c, fn, x, st)
							}
						}
					}
				case *ssa.MakeChan:
					if isChangeChan(x.Type()) {
						k, isC := x.Size.(*ssa.Const)
						sz := int64(-1)
						if isC && k.Value != nil {
							sz, _ = constant.Int64Val(k.Value)
						}
						c.R.Check(sz == 8, "R-C19-2", c.fname(fn)+":subscriber-buffer", c.fname(fn), c.pos(x.Pos()),
							fmt.Sprintf("make(chan Change, %d)", sz), "subscriber channels have constant capacity 8", "subscriber buffer size differs from the documented 8 slots")
					}
				}
			}
		}
	}
	c.R.Check(nSel >= 1, "R-C19-2", "netstate:send-sites", "", "", fmt.Sprintf("%d select send site(s)", nSel), ">= 1 notification site", "anchor-missing")

	c19Close(c)
	c19Table(c)
	c19Process(c)
	c19OwnStorage(c)
	c19NoNestedLock(c)
}

// mapWritten reports whether the map value v (or a map/slice reached from it)
// is the target of a MapUpdate.
func mapWritten(v ssa.Value, seen map[ssa.Value]bool) bool {
	if seen[v] {
		return false
	}
	seen[v] = true
	refs := v.Referrers()
	if refs == nil {
		return false
	}
	for _, r := range *refs {
		switch x := r.(type) {
		case *ssa.MapUpdate:
			if x.Map == v {
				return true
			}
		case *ssa.Lookup:
			if x.X == v && mapWritten(x, seen) {
				return true
			}
		case *ssa.Extract:
			if mapWritten(x, seen) {
				return true
			}
		case *ssa.Phi:
			if mapWritten(x, seen) {
				return true
			}
		}
	}
	return false
}

// rangeEntry returns the Next instruction and tuple index when v is the key
// (1) or value (2) of a range iteration.
func rangeEntry(v ssa.Value) (*ssa.Next, int) {
	ex, ok := v.(*ssa.Extract)
	if !ok {
		return nil, 0
	}
	nx, ok := ex.Tuple.(*ssa.Next)
	if !ok {
		return nil, 0
	}
	return nx, ex.Index
}

// sliceElem returns the slice value when v is a load of &s[i].
func sliceElem(v ssa.Value) ssa.Value {
	u, ok := v.(*ssa.UnOp)
	if !ok || u.Op != token.MUL {
		return nil
	}
	ia, ok := u.X.(*ssa.IndexAddr)
	if !ok {
		return nil
	}
	return ia.X
}

func c19OnlyIf(c *Ctx, fn *ssa.Function, sel *ssa.Select, st *ssa.SelectState) {
	key := c.fname(fn) + ":send-only-if-mask-intersects"
	fail := func(why string) {
		c.R.Fail("R-C19-3", key, c.fname(fn), c.pos(sel.Pos()), why,
			"channel ch ∈ m[iface][k] receives `change` only under (k & change) != 0, with iface/changes from the same changeSet entry",
			"a subscriber is notified of a change it did not ask for, or misses one it asked for")
	}
	// channel: element of slice v where (k, v) is a range entry over the per-interface map
	chSlice := sliceElem(st.Chan)
	if chSlice == nil {
		fail("send channel is not an element of a per-mask subscriber slice")
		return
	}
	nxInner, idx := rangeEntry(chSlice)
	if nxInner == nil || idx != 2 {
		fail("subscriber slice is not the value of a range over the per-interface subscription map")
		return
	}
	// guard
	fi := an.Info(fn)
	g := fi.Guard(sel.Block())
	change := st.Send
	okGuard := len(g) > 0
	lookupOK := len(g) > 0
	for _, conj := range g {
		hasMask, hasLookup := false, false
		for _, a := range conj {
			if bo, ok := a.Cond.(*ssa.BinOp); ok && (bo.Op == token.EQL || bo.Op == token.NEQ) {
				and, ok1 := bo.X.(*ssa.BinOp)
				k0, ok2 := bo.Y.(*ssa.Const)
				if ok1 && ok2 && and.Op == token.AND && k0.Value != nil && constant.Sign(k0.Value) == 0 {
					nonzero := (bo.Op == token.NEQ) == a.Pos
					kx, kidx := rangeEntry(and.X)
					other := and.Y
					if kx == nil {
						kx, kidx = rangeEntry(and.Y)
						other = and.X
					}
					if nonzero && kx == nxInner && kidx == 1 && other == change {
						hasMask = true
					}
				}
			}
			if ex, ok := a.Cond.(*ssa.Extract); ok && ex.Index == 1 && a.Pos {
				if lk, ok := ex.Tuple.(*ssa.Lookup); ok && lk.CommaOk {
					hasLookup = true
				}
			}
		}
		if !hasMask {
			okGuard = false
		}
		if !hasLookup {
			lookupOK = false
		}
	}
	if !okGuard {
		fail("send not guarded by (key & change) != 0 for the key of the slice holding the channel")
		return
	}
	// interest map = m[iface] with iface, changes from the same outer range entry
	rng, ok := nxInner.Iter.(*ssa.Range)
	if !ok {
		fail("inner iteration is not a range")
		return
	}
	var lk *ssa.Lookup
	if ex, ok := rng.X.(*ssa.Extract); ok {
		lk, _ = ex.Tuple.(*ssa.Lookup)
	} else {
		lk, _ = rng.X.(*ssa.Lookup)
	}
	if lk == nil {
		fail("per-interface subscriptions are not obtained by a map lookup")
		return
	}
	nxOuter, kidx := rangeEntry(lk.Index)
	chgSlice := sliceElem(change)
	var nxChg *ssa.Next
	var cidx int
	if chgSlice != nil {
		nxChg, cidx = rangeEntry(chgSlice)
	}
	if nxOuter == nil || kidx != 1 || nxChg != nxOuter || cidx != 2 {
		fail("interface name used for the lookup and the change sent do not come from the same changeSet entry")
		return
	}
	// the looked-up map is Watcher.m
	okM := false
	if ld, ok := lk.X.(*ssa.UnOp); ok {
		if fa, ok := ld.X.(*ssa.FieldAddr); ok && an.FieldAddrIs(fa, PkgNet, "Watcher", "m") {
			okM = true
		}
	}
	c.R.Check(okM && lookupOK, "R-C19-3", key, c.fname(fn), c.pos(sel.Pos()),
		fmt.Sprintf("send of changes[i] to m[iface][k][j] under (k & changes[i]) != 0; lookup in Watcher.m=%v, lookup ok tested=%v", okM, lookupOK),
		"channel ch ∈ m[iface][k] receives `change` only under (k & change) != 0, with iface/changes from the same changeSet entry",
		"a subscriber is notified of a change it did not ask for, or misses one it asked for")
}

// c19OnlyIfPaths decides the same rule as c19OnlyIf on the enumerated paths of
// the anchored function(s) from which the send is reached, with helpers
// enumerated in line: the select may live in a helper that receives the
// subscriber slice and the change as parameters.
func c19OnlyIfPaths(c *Ctx, fn *ssa.Function, sel *ssa.Select, st *ssa.SelectState) {
	key := c.fname(fn) + ":send-only-if-mask-intersects@paths"
	oracle := "channel ch ∈ m[iface][k] receives `change` only under (k & change) != 0, with iface/changes from the same changeSet entry"
	bad := "a subscriber is notified of a change it did not ask for, or misses one it asked for"
	// entry functions: fn itself when anchored, else the anchored functions that reach it
	var entries []*ssa.Function
	seen := map[*ssa.Function]bool{}
	var up func(f *ssa.Function)
	up = func(f *ssa.Function) {
		root := f
		for root.Parent() != nil {
			root = root.Parent()
		}
		if seen[root] {
			return
		}
		seen[root] = true
		if anchorFuncs[c.fname(root)] {
			entries = append(entries, root)
			return
		}
		for _, caller := range c.callersOf()[root] {
			up(caller)
		}
	}
	up(fn)
	nextOf := func(e *an.Expr, idx int) *ssa.Next {
		if e == nil {
			return nil
		}
		if ex, ok := e.V.(*ssa.Extract); ok && ex.Index == idx {
			if nx, ok := ex.Tuple.(*ssa.Next); ok {
				return nx
			}
		}
		return nil
	}
	isRangeVal := func(e *an.Expr) bool { return e != nil && e.Op == an.OpElem && len(e.Args) == 1 && e.Name != "key" }
	isRangeKey := func(e *an.Expr) bool { return e != nil && e.Op == an.OpElem && e.Name == "key" }
	nSeen := 0
	why := ""
	abort := ""
	var changesHdr *ssa.BasicBlock
	var interestRange *ssa.Range
	for _, entry := range entries {
		for _, p := range c.pathsO("R-C19-3", entry, an.PathOpts{EmitCut: true}) {
			var chE, sendE *an.Expr
			p.Instrs(func(in ssa.Instruction) {
				if in == ssa.Instruction(sel) {
					chE, sendE = p.Of(st.Chan), p.Of(st.Send)
				}
			})
			if chE == nil {
				continue
			}
			nSeen++
			fail := func(w string) {
				if why == "" {
					why = w
				}
			}
			// whatever the outcome of the non-blocking send, delivery goes on with the next subscriber:
			// the path loops back to the header of the loop over the subscriber slice
			var subLoop *ssa.BasicBlock
			if chE.Op == an.OpElem && len(chE.Args) == 2 && chE.Args[1] != nil {
				chE.Args[1].Walk(func(x *an.Expr) bool {
					if x.Op == an.OpLoop {
						if ph, ok := x.V.(*ssa.Phi); ok {
							subLoop = ph.Block()
						}
					}
					return true
				})
			}
			if !(p.Cut && subLoop != nil && p.CutTo == subLoop) {
				if abort == "" {
					abort = fmt.Sprintf("after the send the path ends in %s instead of continuing with the next subscriber", pathKind(p))
				}
			}
			if chE.Op != an.OpElem || len(chE.Args) != 2 || !isRangeVal(chE.Args[0]) {
				fail("send channel " + chE.String() + " is not an element of a per-mask subscriber slice obtained by ranging over the per-interface map")
				continue
			}
			subs := chE.Args[0]
			nxInner := nextOf(subs, 2)
			if nxInner == nil {
				fail("subscriber slice is not the value of a range entry")
				continue
			}
			// guard (k & change) != 0 with k the key of the same range entry
			okMask := false
			for _, a := range p.Atoms {
				x, y, op, ok := effCmp(a)
				if !ok || (op != token.NEQ) || x.Op != an.OpBin || x.Tok != token.AND {
					continue
				}
				if z, isC := y.ConstInt(); !isC || z != 0 {
					continue
				}
				k, other := x.Args[0], x.Args[1]
				if !isRangeKey(k) {
					k, other = other, k
				}
				if isRangeKey(k) && nextOf(k, 1) == nxInner && sameValue(other, sendE) {
					okMask = true
				}
			}
			if !okMask {
				fail("send not guarded by (key & change) != 0 for the key of the slice holding the channel")
				continue
			}
			// interest map = w.m[iface]; iface and the changes sent come from the same changeSet entry
			interest := subs.Args[0]
			commaOk := false
			if b, idx := stripExtract(interest); idx == 0 {
				interest, commaOk = b, true
			}
			if interest.Op != an.OpElem || len(interest.Args) != 2 || !interest.Args[0].IsField("m") || !isRangeKey(interest.Args[1]) {
				fail("per-interface subscriptions " + interest.String() + " are not Watcher.m[iface] for the iface of a changeSet entry")
				continue
			}
			nxOuter := nextOf(interest.Args[1], 1)
			if sendE.Op != an.OpElem || len(sendE.Args) != 2 || !isRangeVal(sendE.Args[0]) || nxOuter == nil || nextOf(sendE.Args[0], 2) != nxOuter {
				fail("interface name used for the lookup and the change sent do not come from the same changeSet entry")
				continue
			}
			// remember the loop over the changes and the range over the interest map
			sendE.Args[1].Walk(func(x *an.Expr) bool {
				if x.Op == an.OpLoop {
					if ph, ok := x.V.(*ssa.Phi); ok {
						changesHdr = ph.Block()
					}
				}
				return true
			})
			if rg, ok := nxInner.Iter.(*ssa.Range); ok {
				interestRange = rg
			}
			if commaOk {
				tested := false
				for _, a := range p.Atoms {
					if b, idx := stripExtract(a.Cond); idx == 1 && a.Pos && sameValue(b, interest) {
						tested = true
					}
				}
				if !tested {
					fail("lookup result used without testing ok")
					continue
				}
			}
		}
	}
	// "if and only if": every change of the batch is offered to the interest map — no iteration over the
	// changes of an interface skips the range over its subscriptions (de-duplication, rate limiting …)
	skipFact := ""
	if changesHdr != nil && interestRange != nil {
		for _, entry := range entries {
			for _, p := range c.pathsO("R-C19-3", entry, an.PathOpts{EmitCut: true}) {
				if !p.Cut || p.CutTo != changesHdr {
					continue
				}
				ranged := false
				p.Instrs(func(in ssa.Instruction) {
					if in == ssa.Instruction(interestRange) {
						ranged = true
					}
				})
				if !ranged {
					skipFact = "an iteration over the changes returns to the loop head without ranging over the subscriptions (under " + lastAtomName(p) + ")"
				}
			}
		}
	}
	// ... and a subscription whose mask intersects the change always reaches the loop over its channels:
	// nothing between the mask test and the sends (a remembered last value, a rate limit) may skip it
	if sel != nil && sel.Block() != nil {
		var chHdr *ssa.BasicBlock
		for b := sel.Block(); b != nil; b = b.Idom() {
			isHdr := false
			for _, pr := range b.Preds {
				if b.Dominates(pr) {
					isHdr = true
				}
			}
			if isHdr {
				chHdr = b
				break
			}
		}
		if chHdr != nil {
			for _, entry := range entries {
				for _, p := range c.pathsO("R-C19-3", entry, an.PathOpts{EmitCut: true}) {
					if !p.Cut || p.CutTo == chHdr || sel.Parent() != p.CutTo.Parent() {
						continue
					}
					matched := false
					for _, a := range p.Atoms {
						x, y, op, ok := effCmp(a)
						if !ok || op != token.NEQ || x.Op != an.OpBin || x.Tok != token.AND {
							continue
						}
						if k, isC := y.ConstInt(); isC && k == 0 {
							matched = true
						}
					}
					if matched && !p.Visited(chHdr) {
						skipFact = "a subscription whose mask intersects the change is skipped before its channels are visited (under " + lastAtomName(p) + ")"
					}
				}
			}
		}
	}
	if why == "" && nSeen >= 1 {
		c.R.Check(skipFact == "" && changesHdr != nil, "R-C19-3", c.fname(fn)+":every-change-offered", c.fname(fn), c.pos(sel.Pos()),
			func() string {
				if skipFact != "" {
					return skipFact
				}
				return "every iteration over the changes ranges over the interface's subscriptions"
			}(),
			"each change of a batch is matched against every subscription of its interface", "a change that did occur is not delivered to a subscriber that asked for it (dropped as a supposed duplicate)")
	}
	fact := fmt.Sprintf("%d path(s) through the send from %d anchored entry function(s); all send changes[i] to m[iface][k][j] under (k & changes[i]) != 0", nSeen, len(entries))
	if why != "" {
		fact = why
	}
	c.R.Check(why == "" && nSeen >= 1, "R-C19-3", key, c.fname(fn), c.pos(sel.Pos()), fact, oracle, bad)
	fact2 := fmt.Sprintf("%d path(s) through the send all loop back to the subscriber loop", nSeen)
	if abort != "" {
		fact2 = abort
	}
	c.R.Check(abort == "" && nSeen >= 1, "R-C19-3", c.fname(fn)+":every-subscriber-visited", c.fname(fn), c.pos(sel.Pos()), fact2,
		"a delivered or dropped notification never ends the iteration over the remaining subscribers",
		"one subscriber's full buffer (or successful delivery) starves the other subscribers of the change")
}

func c19Close(c *Ctx) {
	watch := c.needMethod("R-C19-4", "internal/netstate", "Watcher", "Watch")
	if watch == nil {
		return
	}
	// all close(ch) on Change channels
	n := 0
	nLate := 0
	var closerFns []*ssa.Function
	for _, fn := range c.srcFuncs() {
		for _, b := range fn.Blocks {
			for _, in := range b.Instrs {
				call, ok := in.(ssa.CallInstruction)
				if !ok {
					continue
				}
				bi, ok := call.Common().Value.(*ssa.Builtin)
				if !ok || bi.Name() != "close" || !isChangeChan(call.Common().Args[0].Type()) {
					continue
				}
				if fn == c.P.Method("internal/netstate", "Watcher", "Subscribe") {
					// the late-subscriber site: decided with Subscribe's paths below
					nLate++
					continue
				}
				n++
				closerFns = append(closerFns, fn)
				// must be in a closure of Watch that is deferred in Watch, holding the write lock
				// ... or in a helper that only Watch calls, and only through that defer
				onlyWatch := fn.Parent() == watch
				if fn.Parent() == nil && fn != watch && !anchorFuncs[c.fname(fn)] {
					callers := c.callersOf()[fn]
					onlyWatch = len(callers) == 1 && callers[0] == watch
				}
				okPlace := onlyWatch && lockHeld(fn, PkgNet, "Watcher", "mu") == "W"
				deferred := false
				var deferInstr *ssa.Defer
				nUses := 0
				for _, wb := range watch.Blocks {
					for _, win := range wb.Instrs {
						if ci, ok := win.(ssa.CallInstruction); ok && an.StaticCallee(ci.Common()) == fn {
							nUses++
							if d, ok := win.(*ssa.Defer); ok {
								deferred = true
								deferInstr = d
							}
						}
					}
				}
				if nUses != 1 {
					deferred = false
				}
				// ... and is not handed out as a value (context.AfterFunc, go statement, stored callback): the
				// deferred call after w.watch has returned is the only way to reach it
				if where := usedAsValue(c, fn); where != "" {
					deferred = false
				}
				// single-use guard dominates the defer: SwapUint32(...) != 0 → panic
				guarded := false
				if deferInstr != nil {
					for _, wb := range watch.Blocks {
						for _, win := range wb.Instrs {
							if call, ok := win.(*ssa.Call); ok {
								if f := an.CalleeObj(&call.Call); f != nil && f.Pkg() != nil && f.Pkg().Path() == "sync/atomic" &&
									(strings.HasPrefix(f.Name(), "Swap") || strings.HasPrefix(f.Name(), "CompareAndSwap")) {
									// the value swapped in marks "watching": it must differ from the zero the guard tests for
									marks := false
									if args := call.Call.Args; len(args) >= 2 {
										if k, isC := args[len(args)-1].(*ssa.Const); isC && k.Value != nil {
											switch k.Value.Kind() {
											case constant.Bool:
												marks = constant.BoolVal(k.Value)
											case constant.Int, constant.Float:
												marks = constant.Sign(k.Value) != 0
											}
										}
									}
									if marks && an.InstrDominates(call, deferInstr) {
										// the branch on its result leads to a panic on one side
										panics := func(ifi *ssa.If) {
											for _, s := range ifi.Block().Succs {
												if len(s.Instrs) > 0 {
													if _, isPanic := s.Instrs[len(s.Instrs)-1].(*ssa.Panic); isPanic && !s.Dominates(deferInstr.Block()) {
														guarded = true
													}
												}
											}
										}
										for _, r := range *call.Referrers() {
											switch x := r.(type) {
											case *ssa.If:
												// atomic.Bool.Swap(true): the old value is the condition
												panics(x)
											case *ssa.BinOp:
												for _, rr := range *x.Referrers() {
													if ifi, ok := rr.(*ssa.If); ok {
														panics(ifi)
													}
												}
											}
										}
									}
								}
							}
						}
					}
				}
				// every return of Watch runs that defer: an early return placed before it (a context that is
				// already cancelled, an unsupported platform) ends watching with every channel left open
				if deferInstr != nil {
					for _, wb := range watch.Blocks {
						if len(wb.Instrs) == 0 || wb == watch.Recover {
							continue
						}
						if _, isRet := wb.Instrs[len(wb.Instrs)-1].(*ssa.Return); isRet && !deferInstr.Block().Dominates(wb) {
							c.R.Fail("R-C19-4", c.fname(watch)+":closer-deferred-before-every-return", c.fname(watch), c.pos(wb.Instrs[len(wb.Instrs)-1].Pos()),
								"a return of Watch is not preceded by the defer of the closing function", "the closing function is deferred before any return of Watch",
								"watching ends without closing the subscriber channels (and later subscribers get channels that never close)")
						}
					}
				}
				// closed channels are elements of the subscription map (triple range over Watcher.m)
				c.R.Check(okPlace && deferred && guarded, "R-C19-4", c.fname(fn)+":close-subscriber-channel", c.fname(fn), c.pos(call.Pos()),
					fmt.Sprintf("in deferred closure of Watch=%v, write lock held=%v, single-use guard dominates defer=%v", deferred, okPlace, guarded),
					"subscriber channels are closed only by Watch's deferred function, under the write lock, and Watch can run at most once (atomic swap guard → panic)",
					"a subscriber channel may be closed twice or concurrently with a send")
			}
		}
	}
	c.R.Check(n == 1, "R-C19-4", "netstate:close-sites", "", "", fmt.Sprintf("%d close site(s) for Change channels outside Subscribe", n), "exactly one close site (plus Subscribe closing the channel of a late subscriber)", "subscriber channels closed at an unexpected number of sites")

	// the "watching has ended" flag: a bool field of Watcher that the closing function sets to true
	// (under the write lock it holds) and nothing else writes
	doneField := ""
	for _, cf := range closerFns {
		for _, b := range cf.Blocks {
			for _, in := range b.Instrs {
				if st, ok := in.(*ssa.Store); ok {
					if fa, ok := st.Addr.(*ssa.FieldAddr); ok {
						pkg, typ, f := an.FieldAddrName(fa)
						if k, isC := st.Val.(*ssa.Const); isC && pkg == PkgNet && typ == "Watcher" && k.Value != nil && k.Value.Kind() == constant.Bool && constant.BoolVal(k.Value) {
							doneField = f
						}
					}
				}
			}
		}
	}
	if doneField != "" {
		for _, fs := range an.FindFieldStores(c.srcFuncs(), PkgNet, "Watcher", doneField) {
			isCloser := false
			for _, cf := range closerFns {
				if fs.Fn == cf {
					isCloser = true
				}
			}
			c.R.Check(isCloser, "R-C19-4", c.fname(fs.Fn)+":writes-Watcher."+doneField, c.fname(fs.Fn), c.pos(fs.Store.Pos()), "writer "+c.fname(fs.Fn),
				"only the function that closes the subscriber channels marks watching as ended", "the ended flag can be reset: a late subscriber is registered and never closed")
		}
	}
	// each Subscribe either registers the fresh channel exactly once while watching has not ended, or
	// (watching has ended) closes it once without registering it
	sub := c.needMethod("R-C19-4", "internal/netstate", "Watcher", "Subscribe")
	if sub != nil {
		locked := lockHeld(sub, PkgNet, "Watcher", "mu") == "W"
		ps := c.pathsO("R-C19-4", sub, an.PathOpts{EmitCut: true})
		for _, p := range ps {
			if p.Ret == nil {
				continue
			}
			nApp, nClose := 0, 0
			closesOwn := true
			var mk *ssa.MakeChan
			p.Instrs(func(in ssa.Instruction) {
				if m, ok := in.(*ssa.MakeChan); ok && isChangeChan(m.Type()) {
					mk = m
				}
				if call, ok := in.(*ssa.Call); ok {
					if bi, ok := call.Call.Value.(*ssa.Builtin); ok {
						switch bi.Name() {
						case "append":
							nApp++
						case "close":
							if isChangeChan(call.Call.Args[0].Type()) {
								nClose++
								if mk == nil || chanConvOf(call.Call.Args[0]) != ssa.Value(mk) {
									closesOwn = false
								}
							}
						}
					}
				}
			})
			ended, tested := false, false
			for _, a := range p.Atoms {
				if doneField != "" && a.Cond.IsField(doneField) {
					tested = true
					ended = a.Pos
				}
			}
			okRet := mk != nil && len(p.Results) == 1 && p.Results[0].V == ssa.Value(mk)
			var ok bool
			state := "watching"
			switch {
			case tested && ended:
				state = "ended"
				ok = nApp == 0 && nClose == 1 && closesOwn && okRet && locked
			default:
				ok = nApp == 1 && nClose == 0 && okRet && tested && locked
			}
			c.R.Check(ok, "R-C19-4", c.fname(sub)+":registers-once@"+state+":"+pathShape(p), c.fname(sub), c.pos(sub.Pos()),
				fmt.Sprintf("ended-flag %q tested=%v ended=%v; %d append(s), %d close(s) (of the fresh channel=%v); returns the channel it made=%v; write lock held=%v", doneField, tested, ended, nApp, nClose, closesOwn, okRet, locked),
				"while watching has not ended Subscribe appends the channel it creates to the map exactly once; once it has ended it closes that channel instead of registering it; either way it returns that channel",
				"a channel registered twice would be closed twice; a channel registered after the closing loop ran is never closed")
		}
	}
	c.R.Check(doneField != "", "R-C19-4", "netstate:ended-flag", "", "", fmt.Sprintf("ended flag: %q; %d late-subscriber close site(s)", doneField, nLate),
		"the closing function records under the write lock that watching has ended, and Subscribe consults it", "a subscriber arriving after Watch has returned gets a channel that is never closed")
}

func chanConvOf(v ssa.Value) ssa.Value {
	for {
		switch x := v.(type) {
		case *ssa.ChangeType:
			v = x.X
		case *ssa.Convert:
			v = x.X
		default:
			return v
		}
	}
}

func c19Table(c *Ctx) {
	// LinkAny is the OR of the seven Link* bits; seven distinct single-bit constants.
	np := c.P.TypesPkg("internal/netstate")
	if np == nil {
		c.R.Fail("R-C19-5", "netstate:package", "", "", "package missing", "", "anchor-missing")
		return
	}
	scope := np.Types.Scope()
	links := map[string]uint64{}
	var any uint64
	for _, name := range scope.Names() {
		k, ok := scope.Lookup(name).(*types.Const)
		if !ok || !strings.HasPrefix(name, "Link") {
			continue
		}
		v, _ := constant.Uint64Val(k.Val())
		if name == "LinkAny" {
			any = v
		} else {
			links[name] = v
		}
	}
	var or uint64
	single := true
	for _, v := range links {
		or |= v
		if v == 0 || v&(v-1) != 0 {
			single = false
		}
	}
	c.R.Check(len(links) == 7 && single && or == any, "R-C19-5", "netstate:LinkAny", "", "",
		fmt.Sprintf("%d Link constants, single-bit=%v, OR=%#x, LinkAny=%#x", len(links), single, or, any),
		"seven single-bit Link constants whose OR is LinkAny", "change bitmask constants overlap or LinkAny misses a bit")

	osc := c.P.Func("internal/netstate", "operStateChange")
	if osc == nil {
		if c.P.Cfg.GOOS == "linux" {
			c.R.Fail("R-C19-5", "netstate.operStateChange", "", "", "function missing", "exists on linux", "anchor-missing")
		}
	} else {
		// rtnetlink constants
		var rt *types.Package
		for _, pk := range c.P.All {
			if pk.PkgPath == "github.com/jsimonetti/rtnetlink" {
				rt = pk.Types
			}
		}
		oper := map[int64]string{}
		if rt != nil {
			for _, name := range rt.Scope().Names() {
				if k, ok := rt.Scope().Lookup(name).(*types.Const); ok && strings.HasPrefix(name, "OperState") {
					v, _ := constant.Int64Val(k.Val())
					oper[v] = strings.TrimPrefix(name, "OperState")
				}
			}
		}
		linkName := map[uint64]string{}
		for n, v := range links {
			linkName[v] = strings.TrimPrefix(n, "Link")
		}
		ps := c.pathsO("R-C19-5", osc, an.PathOpts{})
		covered := map[string]bool{}
		for _, p := range ps {
			if p.Ret == nil || len(p.Results) != 2 {
				continue
			}
			// table form: `c, ok := table[s]; return c, ok` over a constant package-level map
			if b0, i0 := stripExtract(p.Results[0]); i0 == 0 && b0.Op == an.OpElem && b0.CommaOk && len(b0.Args) == 2 && b0.Args[1].Op == an.OpParam && len(p.Atoms) == 0 {
				if b1, i1 := stripExtract(p.Results[1]); i1 == 1 && sameValue(b0, b1) {
					if tbl, ok := c.globalConstMap(b0.Args[0]); ok {
						for k, v := range tbl {
							state := oper[k]
							got := linkName[uint64(v)]
							if state != "" {
								covered[state] = true
							}
							c.R.Check(state != "" && got == state, "R-C19-5", c.fname(osc)+":OperState"+state, c.fname(osc), c.pos(p.Ret.Pos()),
								fmt.Sprintf("table entry %d → %d (OperState%s → Link%s)", k, v, state, got), "OperState"+state+" → Link"+state+", true",
								"kernel link state mapped to the wrong Change: subscribers are notified of the wrong event")
						}
						// a missing key yields the zero value and false: the documented default
						c.R.Check(true, "R-C19-5", c.fname(osc)+":default", c.fname(osc), c.pos(p.Ret.Pos()), "comma-ok lookup: a missing key gives (0, false)", "unknown operstate → (0, false)", "unrecognised kernel state produces a notification")
						continue
					}
				}
			}
			state := ""
			for _, a := range p.Atoms {
				x, y, op, ok := effCmp(a)
				if ok && op == token.EQL && x.Op == an.OpParam {
					if k, isC := y.ConstInt(); isC {
						state = oper[k]
					}
				}
			}
			if state == "" {
				// default arm
				c.R.Check(exprIsZero(p.Results[0]) && p.Results[1].IsConst("false"), "R-C19-5", c.fname(osc)+":default", c.fname(osc), c.pos(p.Ret.Pos()),
					fmt.Sprintf("returns (%s, %s)", p.Results[0], p.Results[1]), "unknown operstate → (0, false)", "unrecognised kernel state produces a notification")
				continue
			}
			covered[state] = true
			got := ""
			if k, isC := p.Results[0].ConstInt(); isC {
				got = linkName[uint64(k)]
			}
			c.R.Check(got == state && p.Results[1].IsConst("true"), "R-C19-5", c.fname(osc)+":OperState"+state, c.fname(osc), c.pos(p.Ret.Pos()),
				fmt.Sprintf("OperState%s → Link%s, %s", state, got, p.Results[1]), "OperState"+state+" → Link"+state+", true",
				"kernel link state mapped to the wrong Change: subscribers are notified of the wrong event")
		}
		c.R.Check(len(covered) == 7, "R-C19-5", c.fname(osc)+":covers-all", c.fname(osc), c.pos(osc.Pos()),
			fmt.Sprintf("%d of 7 operstates mapped", len(covered)), "all seven RFC 2863 states are mapped", "a kernel link state is never reported")
	}

	// BuildTasks subscribes with LinkDown.
	for _, s := range an.FindCalls(c.srcFuncs(), func(cc *ssa.CallCommon) bool { return an.CallIs(cc, PkgNet, "Watcher", "Subscribe") }) {
		if s.Fn.Pkg == nil || s.Fn.Pkg.Pkg.Path() != PkgCorerad {
			continue
		}
		args := s.Common().Args
		mask := c.XO.Of(args[len(args)-1])
		k, isC := mask.ConstInt()
		c.R.Check(isC && uint64(k) == links["LinkDown"], "R-C19-5", c.fname(s.Fn)+":subscribes-LinkDown", c.fname(s.Fn), c.pos(s.Pos()),
			"mask "+mask.String(), fmt.Sprintf("netstate.LinkDown (%d)", links["LinkDown"]), "advertisers would not be re-initialised on link down")
	}
}

// c19NoNestedLock (R-C19-1, second clause): Watcher.mu is never acquired again
// by a function called while it is held. A second RLock under a first one
// deadlocks as soon as a writer (Subscribe) queues up between the two:
// sync.RWMutex blocks new readers once a writer waits.
func c19NoNestedLock(c *Ctx) {
	acquires := func(fn *ssa.Function) bool {
		for _, ci := range an.CallsIn(fn) {
			f := an.CalleeObj(ci.Common())
			if f == nil || (f.Name() != "Lock" && f.Name() != "RLock") || len(ci.Common().Args) == 0 {
				continue
			}
			if fa, ok := ci.Common().Args[0].(*ssa.FieldAddr); ok && an.FieldAddrIs(fa, PkgNet, "Watcher", "mu") {
				return true
			}
		}
		return false
	}
	var holders []*ssa.Function
	for _, fn := range c.srcFuncs() {
		if fn.Pkg != nil && fn.Pkg.Pkg.Path() == PkgNet && acquires(fn) {
			holders = append(holders, fn)
		}
	}
	for _, h := range holders {
		// everything h can call (itself excluded unless recursive)
		var callees []*ssa.Function
		for _, ci := range an.CallsIn(h) {
			if g := an.StaticCallee(ci.Common()); g != nil && load.InModule(g) {
				callees = append(callees, g)
			}
			for _, a := range ci.Common().Args {
				if mc, ok := a.(*ssa.MakeClosure); ok {
					callees = append(callees, mc.Fn.(*ssa.Function))
				}
			}
		}
		reach := an.ModuleReach(callees, load.InModule, nil)
		nested := ""
		for g := range reach {
			if acquires(g) {
				nested = c.fname(g)
			}
		}
		c.R.Check(nested == "", "R-C19-1", c.fname(h)+":no-nested-acquisition-of-Watcher.mu", c.fname(h), c.pos(h.Pos()),
			fmt.Sprintf("functions called while the lock is held that lock it again: %q", nested),
			"a function holding Watcher.mu never calls one that acquires it", "recursive read lock: a Subscribe arriving during a notification deadlocks the watcher")
	}
	c.R.Check(len(holders) >= 3, "R-C19-1", "netstate:lock-holders", "", "", fmt.Sprintf("%d function(s) acquire Watcher.mu", len(holders)), ">= 3 (Subscribe, notify, close)", "anchor-missing")
}


// c19Process (R-C19-6): process() turns every link message whose operational
// state is recognised into exactly one change of that interface, in message
// order: an iteration on which operStateChange reported ok appends once to
// changes[name]. (A "coalescing" filter that skips states already seen in the
// batch drops the third event of up, down, up.)
func c19Process(c *Ctx) {
	if c.P.Cfg.GOOS != "linux" {
		return
	}
	pr := c.needFunc("R-C19-6", "internal/netstate", "process")
	if pr == nil {
		return
	}
	fn := c.fname(pr)
	n, bad := 0, ""
	for _, p := range c.pathsO("R-C19-6", pr, an.PathOpts{EmitCut: true}) {
		if !p.Cut {
			continue
		}
		calls := callsOnPath(p, func(cc *ssa.CallCommon) bool { return an.CallIs(cc, PkgNet, "", "operStateChange") })
		if len(calls) != 1 {
			continue
		}
		// recognised on this path?
		recognised := false
		cv, _ := calls[0].(ssa.Value)
		for _, a := range p.Atoms {
			e := a.Cond
			if e.Op == an.OpExtract && e.Idx == 1 && len(e.Args) == 1 && e.Args[0].V == cv {
				recognised = a.Pos
			}
		}
		if !recognised {
			continue
		}
		n++
		upd := 0
		p.Instrs(func(in ssa.Instruction) {
			if mu, ok := in.(*ssa.MapUpdate); ok {
				if v := p.Of(mu.Value); v.Op == an.OpAppend {
					upd++
				}
			}
		})
		if upd != 1 {
			bad = fmt.Sprintf("a recognised link message leads to %d appends (%s)", upd, atomsString(p))
		}
	}
	c.R.Check(n >= 1 && bad == "", "R-C19-6", fn+":every-recognised-state-recorded", fn, c.pos(pr.Pos()), fmt.Sprintf("%d iteration path(s) with a recognised state; %s", n, bad),
		"each link message with a recognised operational state appends exactly one change for its interface", "a change that occurred is not delivered (e.g. a state that recurs within one batch)")
}


// c19OwnStorage (R-C19-7, linux): the change lists process() builds own their
// storage: no value that goes into the change set is a sub-slice of a buffer
// shared between interfaces. A two-index slice expression keeps the capacity
// of the underlying array, so appending to one interface's list writes into
// the slots of the next one (eth0 down, eth1 down, eth0 up delivers "up" to
// eth1's subscribers).
func c19OwnStorage(c *Ctx) {
	if c.P.Cfg.GOOS != "linux" {
		return
	}
	pr := c.P.Func("internal/netstate", "process")
	if pr == nil {
		return
	}
	fn := c.fname(pr)
	bad := ""
	n := 0
	for _, f := range an.WithAnon(pr) {
		for _, b := range f.Blocks {
			for _, in := range b.Instrs {
				sl, ok := in.(*ssa.Slice)
				if !ok {
					continue
				}
				if _, isSlice := sl.X.Type().Underlying().(*types.Slice); !isSlice {
					continue // slicing a fresh array (a literal) is how Go builds slices
				}
				n++
				if sl.Max == nil {
					bad = "sub-slice of a shared slice without a capacity limit at " + c.pos(instrPos(sl))
				}
			}
		}
	}
	c.R.Check(bad == "", "R-C19-7", fn+":change-lists-own-their-storage", fn, c.pos(pr.Pos()), fmt.Sprintf("%d sub-slice expression(s); %s", n, bad),
		"process() carves no change list out of a shared buffer (or caps its capacity with a three-index slice)", "changes of one interface are overwritten by, or delivered as, changes of another")
}

// usedAsValue reports where fn (or its bound-method wrapper, or the closure
// value made from it) is used other than as the callee of a call/defer.
func usedAsValue(c *Ctx, fn *ssa.Function) string {
	same := func(v ssa.Value) bool {
		switch x := v.(type) {
		case *ssa.Function:
			return x == fn || (x.Synthetic != "" && x.Object() != nil && x.Object() == fn.Object() && fn.Object() != nil)
		case *ssa.MakeClosure:
			if f, ok := x.Fn.(*ssa.Function); ok {
				return f == fn || (f.Synthetic != "" && f.Object() != nil && f.Object() == fn.Object() && fn.Object() != nil)
			}
		}
		return false
	}
	for _, g := range c.srcFuncs() {
		for _, b := range g.Blocks {
			for _, in := range b.Instrs {
				if mc, ok := in.(*ssa.MakeClosure); ok && same(mc) {
					// a closure value: every use must be the callee position of a call or defer
					if mc.Referrers() != nil {
						for _, r := range *mc.Referrers() {
							ci, isCall := r.(ssa.CallInstruction)
							if _, isGo := r.(*ssa.Go); isGo || !isCall || ci.Common().Value != ssa.Value(mc) {
								return c.fname(g)
							}
							for _, a := range ci.Common().Args {
								if a == ssa.Value(mc) {
									return c.fname(g)
								}
							}
						}
					}
					continue
				}
				var callee ssa.Value
				if ci, ok := in.(ssa.CallInstruction); ok {
					callee = ci.Common().Value
					if _, isGo := in.(*ssa.Go); isGo && same(callee) {
						return c.fname(g)
					}
				}
				for _, op := range in.Operands(nil) {
					if *op == nil || !same(*op) {
						continue
					}
					if *op == callee {
						// callee position: fine unless it is also an argument
						ci := in.(ssa.CallInstruction)
						for _, a := range ci.Common().Args {
							if same(a) {
								return c.fname(g)
							}
						}
						continue
					}
					return c.fname(g)
				}
			}
		}
	}
	return ""
}

// c19Delivery evaluates the delivery rules of notify (R-C19-3: a change is
// offered to every subscription of its interface and sent to each whose mask
// intersects it) for another property: C10's "a link-state change promptly
// stops the task" holds only if the LinkDown the task subscribed to arrives.
func c19Delivery(c *Ctx) {
	for _, fn := range c.srcFuncs() {
		if fn.Pkg == nil || fn.Pkg.Pkg.Path() != PkgNet {
			continue
		}
		for _, b := range fn.Blocks {
			for _, in := range b.Instrs {
				x, ok := in.(*ssa.Select)
				if !ok {
					continue
				}
				for _, st := range x.States {
					if st.Dir == types.SendOnly && isChangeChan(st.Chan.Type()) {
						if anchorFuncs[c.fname(fn)] {
							c19OnlyIf(c, fn, x, st)
						}
						c19OnlyIfPaths(c, fn, x, st)
					}
				}
			}
		}
	}
}
