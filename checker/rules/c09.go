package rules

import (
	"fmt"
	"go/token"
	"go/types"
	"math/big"
	"sort"
	"strings"

	"crverif/internal/an"
	"crverif/internal/load"

	"golang.org/x/tools/go/ssa"
)

func asFunc(o types.Object) *types.Func {
	f, _ := o.(*types.Func)
	return f
}

func init() {
	register(&RuleSet{
		Property: "C09",
		Explanation: "PATH rules over listener.receiveRetry / listener.Listen / Advertiser.handle / Monitor.handle: " +
			"R-C09-1 every returned message is gated by hop limit == 255; R-C09-2 an invalid message is counted once and dropped; " +
			"R-C09-3 loop-carried delta of the retry counter is 0 on every back edge through the invalid-message branch (only timeouts consume the budget); " +
			"R-C09-4 other message types are counted invalid once and ignored (no RA build, verify or hook); R-C09-5 an ignored message cannot end the receive loop R-C09-5 every success path of dialNDP enables hop-limit delivery (SetControlMessage(FlagHopLimit, true)) and installs an ICMPv6 filter that passes only types 133 and 134; R-C09-6 no module code allocates an ipv6.ControlMessage, writes its HopLimit, or implements Conn.ReadFrom (the hop limit reaches the listener as the kernel reported it); R-C09-7 nothing on the receive path indexes an array or slice with the received message's type. R-C09-2 also: a path of receiveRetry that loops after a successful ReadFrom must have found HopLimit != 255 (no other ground for discarding a read message).",
		Assumptions: []string{
			"Go type checker and go/ssa construction are correct",
			"path enumeration cuts loop back edges: each loop body is analysed for an arbitrary iteration (loop phis are symbols)",
		},
		NotCovered: []string{"RFC 4861 6.1 validation beyond what the property names (ICMP code, length)"},
		Run:        runC09,
	})
}

// hopLimitAtom matches `<ReadFrom>#1.HopLimit (==|!=) 255` and returns
// (valid polarity, the ReadFrom call expression).
func hopLimitAtom(a an.PathAtom) (valid bool, call *an.Expr, ok bool) {
	x, y, op, ok := effCmp(a)
	if !ok {
		return false, nil, false
	}
	if y.Op == an.OpField {
		x, y = y, x
	}
	if x.Op != an.OpField || x.Name != "HopLimit" {
		return false, nil, false
	}
	k, isC := y.ConstInt()
	if !isC || k != 255 {
		return false, nil, false
	}
	base, idx := stripExtract(x.Args[0])
	if idx != 1 || !exprCallIs(base, PkgSystem, "Conn", "ReadFrom") {
		return false, nil, false
	}
	switch op {
	case token.EQL:
		return true, base, true
	case token.NEQ:
		return false, base, true
	}
	return false, nil, false
}

func runC09(c *Ctx) {
	rr := c.needMethod("R-C09-1", "internal/corerad", "listener", "receiveRetry")
	if rr != nil {
		c09ReceiveRetry(c, rr)
	}
	c09Handle(c)
	c09Listen(c)
	c09HopLimitUnaltered(c)
	c09NoMessageIndexing(c)
	if c.P.Cfg.GOOS == "linux" || c.P.Func("internal/system", "dialNDP") != nil {
		c09Socket(c)
	}
}

func c09ReceiveRetry(c *Ctx, rr *ssa.Function) {
	fn := c.fname(rr)
	ps := c.paths("R-C09-1", rr, an.PathOpts{EmitCut: true})

	// R-C09-1: every path returning a non-nil message passed the hop limit gate
	// on the very message it returns.
	nMsg := 0
	for _, p := range ps {
		if p.Ret == nil || len(p.Results) != 3 || exprIsNil(p.Results[0]) {
			continue
		}
		nMsg++
		key := fmt.Sprintf("%s:return-message@%s", fn, pathShape(p))
		msgCall, idx := stripExtract(p.Results[0])
		okGate := false
		for _, a := range p.Atoms {
			if valid, call, ok := hopLimitAtom(a); ok && valid && sameValue(call, msgCall) {
				okGate = true
			}
		}
		okSrc := idx == 0 && exprCallIs(msgCall, PkgSystem, "Conn", "ReadFrom")
		hostCall, hidx := stripExtract(p.Results[1])
		okHost := hidx == 2 && sameValue(hostCall, msgCall)
		c.R.Check(okGate && okSrc && okHost, "R-C09-1", key, fn, c.pos(p.Ret.Pos()),
			fmt.Sprintf("returns msg=%s host=%s under %s", p.Results[0], p.Results[1], atomsString(p)),
			"message and host are results #0/#2 of one Conn.ReadFrom call whose control message has HopLimit == 255 on this path",
			"a message can be delivered without passing the hop limit == 255 validation")
	}
	c.R.Floor("R-C09-1", 1)

	// R-C09-2 / R-C09-3: invalid branch.
	// Find the budget counter: the loop symbol compared in the guard of `return errRetriesExhausted`.
	var budget *ssa.Phi
	for _, p := range ps {
		if p.Ret == nil || len(p.Results) != 3 {
			continue
		}
		if g := p.Results[2]; g.Op == an.OpGlobal && g.Name == "corerad.errRetriesExhausted" {
			for _, a := range p.Atoms {
				a.Cond.Walk(func(x *an.Expr) bool {
					if x.Op == an.OpLoop && x.V != nil {
						if ph, ok := x.V.(*ssa.Phi); ok {
							budget = ph
						}
					}
					return true
				})
			}
		}
	}
	nInvalid := 0
	for _, p := range ps {
		invalid := false
		for _, a := range p.Atoms {
			if valid, _, ok := hopLimitAtom(a); ok && !valid {
				invalid = true
			}
		}
		if !invalid {
			continue
		}
		nInvalid++
		key := fmt.Sprintf("%s:invalid-hop-limit@%s", fn, pathKind(p))
		em := metricEmits(p)
		okCount := len(em["MessagesReceivedInvalidTotal"]) == 1
		okDrop := p.Ret == nil || exprIsNil(p.Results[0])
		c.R.Check(okCount && okDrop && p.Panic == nil, "R-C09-2", key, fn, c.pos(rr.Pos()),
			fmt.Sprintf("path ends in %s; invalid-counter emissions=%d; other emissions=%v", pathKind(p), len(em["MessagesReceivedInvalidTotal"]), emitNames(em)),
			"exactly one MessagesReceivedInvalidTotal emission and the message is not returned",
			"an invalid message is not counted exactly once or is delivered")
		if p.Cut && budget != nil {
			d := p.BackEdgeValue(budget)
			c09Delta(c, "R-C09-3", fmt.Sprintf("%s:budget-delta@invalid-hop-limit", fn), fn, c.pos(budget.Pos()), budget, d, 0,
				"invalid messages consume the receive retry budget: "+
					"retries(5) consecutive packets with hop limit != 255 make receiveRetry return errRetriesExhausted, which Dialer.init treats as unrecoverable")
		} else if p.Ret != nil {
			// returning an error from the invalid branch would let an invalid message end the loop
			c.R.Check(exprIsNil(p.Results[2]) && false, "R-C09-3", fmt.Sprintf("%s:invalid-hop-limit-returns", fn), fn, c.pos(p.Ret.Pos()),
				fmt.Sprintf("returns err=%s", p.Results[2]), "the invalid branch continues the loop", "an invalid message makes receiveRetry return")
		}
	}
	// the only reason to discard a message that was read successfully is its hop limit: a path that
	// goes round the loop after ReadFrom succeeded without having found HopLimit != 255 drops a valid
	// message (or an invalid one uncounted) on some other ground — rate, size, sender
	nRead := 0
	for _, p := range ps {
		if !p.Cut {
			continue
		}
		readOK, invalid := false, false
		for _, a := range p.Atoms {
			if valid, _, ok := hopLimitAtom(a); ok && !valid {
				invalid = true
			}
			x, y, op, ok := effCmp(a)
			if ok && exprIsNil(y) && op == token.EQL {
				if b, i := stripExtract(x); i == 3 && exprCallIs(b, PkgSystem, "Conn", "ReadFrom") {
					readOK = true
				}
			}
		}
		if !readOK {
			continue
		}
		nRead++
		c.R.Check(invalid, "R-C09-2", fmt.Sprintf("%s:discard-only-invalid@%s", fn, pathShape(p)), fn, c.pos(rr.Pos()),
			"the receive loop continues after a successful ReadFrom under "+atomsString(p),
			"a message that was read is discarded only on a path that found HopLimit != 255",
			"messages are dropped for a reason other than failed validation: valid messages that follow a burst are not served, invalid ones are not counted")
	}
	c.R.Check(nRead >= 1, "R-C09-2", fn+":discard-paths", fn, c.pos(rr.Pos()), fmt.Sprintf("%d loop-back path(s) after a successful read", nRead), ">= 1", "anchor-missing")
	c.R.Floor("R-C09-2", 1)
	if budget == nil {
		c.R.Fail("R-C09-3", fn+":budget-counter", fn, c.pos(rr.Pos()), "no loop counter guards `return errRetriesExhausted`",
			"a bounded retry counter exists", "anchor-missing")
		return
	}
	// Positive half: every back edge that increments the budget goes through the timeout arm.
	for _, p := range ps {
		if !p.Cut {
			continue
		}
		d := p.BackEdgeValue(budget)
		if d == nil {
			continue
		}
		delta, ok := deltaOf(budget, d)
		if !ok {
			c.R.Undecided("R-C09-3", fmt.Sprintf("%s:budget-delta@%s", fn, pathShape(p)), fn, c.pos(budget.Pos()), "cannot normalise back-edge value "+d.String())
			continue
		}
		if delta.Sign() == 0 {
			continue
		}
		timeout := false
		for _, a := range p.Atoms {
			if a.Pos && a.Cond.Op == an.OpCall && a.Cond.Name == "Timeout" {
				timeout = true
			}
		}
		c.R.Check(timeout && delta.Cmp(big.NewRat(1, 1)) == 0, "R-C09-3", fmt.Sprintf("%s:budget-increment@%s", fn, pathShape(p)), fn, c.pos(budget.Pos()),
			fmt.Sprintf("back edge adds %s to the retry counter under %s", ratString(delta), atomsString(p)),
			"the retry counter advances by exactly 1 and only on paths through net.Error.Timeout() == true",
			"retry budget consumed by something other than a receive timeout")
	}
	c.R.Floor("R-C09-3", 2)
}

func ratString(r *big.Rat) string {
	if r.IsInt() {
		return r.Num().String()
	}
	return r.RatString()
}

// deltaOf returns d - loopsym(ph) when it is a constant.
func deltaOf(ph *ssa.Phi, d *an.Expr) (*big.Rat, bool) {
	nf, ok := an.Norm(d)
	if !ok || nf.Mode != an.ModeNone {
		return nil, false
	}
	diff := nf.Lin.Sub(an.LinSym(an.LoopSym(ph)))
	if !diff.IsConst() {
		return nil, false
	}
	return diff.C, true
}

func c09Delta(c *Ctx, rule, key, fn, at string, ph *ssa.Phi, d *an.Expr, want int64, reason string) {
	if d == nil {
		c.R.Undecided(rule, key, fn, at, "no back-edge value")
		return
	}
	delta, ok := deltaOf(ph, d)
	if !ok {
		c.R.Undecided(rule, key, fn, at, "cannot normalise back-edge value "+d.String())
		return
	}
	c.R.Check(delta.Cmp(new(big.Rat).SetInt64(want)) == 0, rule, key, fn, at,
		fmt.Sprintf("counter flows back as %s (delta %s)", d, ratString(delta)),
		fmt.Sprintf("delta %d", want), reason)
}

func emitNames(m map[string][]ssa.CallInstruction) []string {
	var out []string
	for k, v := range m {
		out = append(out, fmt.Sprintf("%s×%d", k, len(v)))
	}
	sortStrings(out)
	return out
}

// pathShape is a short, line-free discriminator of a path: how it ends plus
// the polarity string of its atoms.
func pathShape(p *an.Path) string {
	s := pathKind(p) + ":"
	for _, a := range p.Atoms {
		if a.Pos {
			s += "T"
		} else {
			s += "F"
		}
	}
	return s
}

// typeSwitchArm classifies a path through a type switch over ndp.Message by
// the asserted type that succeeded ("" = default arm).
func typeSwitchArm(p *an.Path) string {
	arm := ""
	for _, a := range p.Atoms {
		e := a.Cond
		if e.Op == an.OpExtract && e.Idx == 1 && e.Args[0].Op == an.OpTypeAssert && a.Pos {
			arm = e.Args[0].Name
		}
	}
	return arm
}

func c09Handle(c *Ctx) {
	h := c.needMethod("R-C09-4", "internal/corerad", "Advertiser", "handle")
	if h == nil {
		return
	}
	fn := c.fname(h)
	ps := c.paths("R-C09-4", h, an.PathOpts{EmitCut: true})
	nDefault := 0
	for _, p := range ps {
		if p.Cut {
			continue
		}
		arm := typeSwitchArm(p)
		if arm != "" {
			continue
		}
		// default arm: no type assertion succeeded
		sawAssert := false
		for _, a := range p.Atoms {
			if a.Cond.Op == an.OpExtract && a.Cond.Args[0].Op == an.OpTypeAssert {
				sawAssert = true
			}
		}
		if !sawAssert {
			continue
		}
		nDefault++
		em := metricEmits(p)
		forbidden := callsOnPath(p, func(cc *ssa.CallCommon) bool {
			f := an.CalleeObj(cc)
			if f == nil {
				// dynamic call (hook)
				if _, isM := an.MetricCall(cc); isM {
					return false
				}
				return !cc.IsInvoke()
			}
			return an.ObjIs(f, PkgCorerad, "Advertiser", "buildRA") || an.ObjIs(f, PkgCorerad, "", "verifyRAs") ||
				an.ObjIs(f, PkgCorerad, "Advertiser", "send") || an.ObjIs(f, PkgCorerad, "Advertiser", "sendWorker")
		})
		okRes := p.Ret != nil && len(p.Results) == 2 && exprIsZero(p.Results[0]) && exprIsNil(p.Results[1])
		c.R.Check(len(em["MessagesReceivedInvalidTotal"]) == 1 && len(forbidden) == 0 && okRes,
			"R-C09-4", fn+":default-arm@"+pathShape(p), fn, c.pos(h.Pos()),
			fmt.Sprintf("emissions=%v forbidden-calls=%d results=%v end=%s", emitNames(em), len(forbidden), exprStrings(p.Results), pathKind(p)),
			"one MessagesReceivedInvalidTotal emission; returns (zero Addr, nil); no buildRA/verifyRAs/send/hook call",
			"a message type other than RS/RA is not simply counted and ignored")
	}
	c.R.Floor("R-C09-4", 1)

	// Monitor.handle has no error result and no panic exit.
	mh := c.needMethod("R-C09-4", "internal/corerad", "Monitor", "handle")
	if mh != nil {
		c.R.Check(mh.Signature.Results().Len() == 0, "R-C09-4", c.fname(mh)+":no-result", c.fname(mh), c.pos(mh.Pos()),
			fmt.Sprintf("%d results", mh.Signature.Results().Len()), "Monitor.handle cannot fail (no result)", "monitor handler can report failure for a message")
	}

	// R-C09-5 (handler half): a non-nil error from Advertiser.handle arises only from buildRA.
	for _, p := range ps {
		if p.Ret == nil || len(p.Results) != 2 || exprIsNil(p.Results[1]) {
			continue
		}
		fromBuild := false
		for _, a := range p.Atoms {
			if x, y, op, ok := effCmp(a); ok && op == token.NEQ && exprIsNil(y) {
				b, idx := stripExtract(x)
				if idx == 1 && (exprCallIs(b, PkgCorerad, "Advertiser", "buildRA") || containsCallTo(b, PkgSystem, "State", "IPv6Forwarding") || containsCallTo(b, PkgConfig, "Interface", "RouterAdvertisement")) {
					fromBuild = true
				}
				// inlined buildRA: its error results mention the state/RA errors
				if x.Contains(func(e *an.Expr) bool {
					return exprCallIs(e, PkgSystem, "State", "IPv6Forwarding") || exprCallIs(e, PkgConfig, "Interface", "RouterAdvertisement")
				}) {
					fromBuild = true
				}
			}
		}
		c.R.Check(fromBuild, "R-C09-5", fn+":error-return@"+pathShape(p), fn, c.pos(p.Ret.Pos()),
			fmt.Sprintf("returns err=%s under %s", p.Results[1], atomsString(p)),
			"handle fails only when building its own RA fails (never from message content)",
			"message content can make the advertiser's handler fail and end the receive loop")
	}
}

func exprStrings(es []*an.Expr) []string {
	var out []string
	for _, e := range es {
		out = append(out, e.String())
	}
	return out
}

func c09Listen(c *Ctx) {
	l := c.needMethod("R-C09-5", "internal/corerad", "listener", "Listen")
	if l == nil {
		return
	}
	fn := c.fname(l)
	defer c.opaque(c.P.Method("internal/corerad", "listener", "receiveRetry"))()
	ps := c.paths("R-C09-5", l, an.PathOpts{EmitCut: true})
	nRet, nLoop := 0, 0
	for _, p := range ps {
		if p.Cut {
			// continuing the loop: must be after a nil callback result
			nLoop++
			continue
		}
		if p.Ret == nil {
			continue
		}
		nRet++
		// exit must be caused by a receiveRetry error or a callback error
		cause := ""
		for _, a := range p.Atoms {
			x, y, op, ok := effCmp(a)
			if !ok || op != token.NEQ || !exprIsNil(y) {
				continue
			}
			b, idx := stripExtract(x)
			if idx == 2 && exprCallIs(b, PkgCorerad, "listener", "receiveRetry") {
				cause = "receiveRetry error"
			}
			if b.Op == an.OpCall && b.Fn == nil && len(b.Args) > 0 && b.Args[0].Op == an.OpParam {
				cause = "callback error"
			}
		}
		c.R.Check(cause != "", "R-C09-5", fn+":exit@"+pathShape(p), fn, c.pos(p.Ret.Pos()),
			fmt.Sprintf("returns %v under %s (cause: %q)", exprStrings(p.Results), atomsString(p), cause),
			"Listen returns only after receiveRetry failed or the callback returned an error",
			"the receive loop can end for another reason")
	}
	c.R.Check(nLoop >= 1, "R-C09-5", fn+":loops", fn, c.pos(l.Pos()), fmt.Sprintf("%d back-edge path(s)", nLoop),
		"after a delivered message the loop continues", "receive loop does not continue")
	c.R.Floor("R-C09-5", 3)

	checkListenDelivery(c, "R-C09-1", l, ps)
}

// checkListenDelivery: the listener callback is invoked only with
// message{Message: receiveRetry#0, Host: receiveRetry#1.WithZone("")}.
func checkListenDelivery(c *Ctx, rule string, l *ssa.Function, ps []*an.Path) {
	fn := c.fname(l)
	n := 0
	seen := false
	// The callback is invoked only with values returned by receiveRetry, host zone cleared.
	for _, p := range ps {
		calls := callsOnPath(p, func(cc *ssa.CallCommon) bool {
			if cc.IsInvoke() {
				return false
			}
			_, isParam := cc.Value.(*ssa.Parameter)
			return isParam
		})
		for _, ci := range calls {
			arg := p.Of(ci.Common().Args[0])
			okMsg, okHost := false, false
			if arg.Op == an.OpStruct {
				for _, f := range arg.Args {
					if f == nil {
						continue
					}
					b, idx := stripExtract(f)
					if idx == 0 && exprCallIs(b, PkgCorerad, "listener", "receiveRetry") {
						okMsg = true
					}
					if f.Op == an.OpCall && f.Fn != nil && f.Fn.String() == "(net/netip.Addr).WithZone" && len(f.Args) == 2 && f.Args[1].IsConst(`""`) {
						hb, hidx := stripExtract(f.Args[0])
						if hidx == 1 && exprCallIs(hb, PkgCorerad, "listener", "receiveRetry") {
							okHost = true
						}
					}
				}
			}
			n++
			if seen && okMsg && okHost {
				continue
			}
			seen = true
			c.R.Check(okMsg && okHost, rule, fn+":callback-arg", fn, c.pos(ci.Pos()),
				"callback argument "+arg.String(),
				"message{Message: receiveRetry#0, Host: receiveRetry#1.WithZone(\"\")}",
				"the callback can be invoked with something other than a validated message")
		}
	}
	c.R.Check(n >= 1, rule, fn+":callback-sites", fn, c.pos(l.Pos()), fmt.Sprintf("%d callback invocation path(s)", n), ">= 1", "anchor-missing")
}

// c09Socket (R-C09-5): the hop-limit test in receiveRetry reads the hop limit
// from the control message of each packet. The socket must be asked to deliver
// it (SetControlMessage(FlagHopLimit, true)) — otherwise the field is zero and
// every message is dropped as invalid — and only router solicitations and
// advertisements pass the ICMPv6 filter. Decided on every success path of
// dialNDP.
func c09Socket(c *Ctx) {
	dn := c.P.Func("internal/system", "dialNDP")
	if dn == nil {
		c.R.Fail("R-C09-5", "system.dialNDP", "", "", "function not found", "dialNDP prepares the socket", "anchor-missing")
		return
	}
	fn := c.fname(dn)
	n := 0
	for _, p := range c.pathsO("R-C09-5", dn, an.PathOpts{}) {
		if p.Ret == nil || len(p.Results) != 3 || !exprIsNil(p.Results[2]) {
			continue
		}
		n++
		hop, blockAll, filterSet := false, false, false
		accepted := map[int64]bool{}
		p.Instrs(func(in ssa.Instruction) {
			ci, ok := in.(ssa.CallInstruction)
			if !ok {
				return
			}
			f := an.CalleeObj(ci.Common())
			if f == nil {
				return
			}
			args := ci.Common().Args
			switch f.Name() {
			case "SetControlMessage":
				if len(args) >= 2 {
					flag, on := p.Of(args[len(args)-2]), p.Of(args[len(args)-1])
					// ipv6.FlagHopLimit = 1 << 1
					if k, isC := flag.ConstInt(); isC && k&2 != 0 && on.IsConst("true") {
						hop = true
					}
				}
			case "SetAll":
				if f.Pkg() != nil && strings.HasSuffix(f.Pkg().Path(), "x/net/ipv6") && p.Of(args[len(args)-1]).IsConst("true") {
					blockAll = true
				}
			case "Accept":
				if f.Pkg() != nil && strings.HasSuffix(f.Pkg().Path(), "x/net/ipv6") && blockAll {
					if k, isC := p.Of(args[len(args)-1]).ConstInt(); isC {
						accepted[k] = true
					}
				}
			case "SetICMPFilter":
				filterSet = true
			}
		})
		okFilter := blockAll && filterSet && len(accepted) == 2 && accepted[133] && accepted[134]
		c.R.Check(hop && okFilter, "R-C09-5", fn+":socket-delivers-hop-limit-and-only-RS-RA", fn, c.pos(p.Ret.Pos()),
			fmt.Sprintf("SetControlMessage(FlagHopLimit,true)=%v; filter: block all=%v, accepted types=%v, applied=%v", hop, blockAll, keysOfInt(accepted), filterSet),
			"hop limit delivery is enabled; the ICMPv6 filter blocks everything except types 133 (RS) and 134 (RA)",
			"without the hop limit control message every packet reads as hop limit 0 and is dropped as invalid (or off-link packets cannot be told apart); with a wider filter other ICMPv6 types reach the handler")
	}
	c.R.Check(n >= 1, "R-C09-5", fn+":success-paths", fn, c.pos(dn.Pos()), fmt.Sprintf("%d success path(s)", n), ">= 1", "anchor-missing")
}

func keysOfInt(m map[int64]bool) []int64 {
	var out []int64
	for k := range m {
		out = append(out, k)
	}
	sort.Slice(out, func(i, j int) bool { return out[i] < out[j] })
	return out
}


// c09HopLimitUnaltered (R-C09-6): the hop limit the listener tests is the one
// the kernel reported. Nothing in the module fabricates or rewrites an
// ipv6.ControlMessage (no allocation of one, no store to its HopLimit), and no
// module type implements system.Conn's ReadFrom (a wrapper around the real
// connection could substitute the value before the listener sees it).
func c09HopLimitUnaltered(c *Ctx) {
	bad := ""
	n := 0
	for _, fn := range c.srcFuncs() {
		n++
		for _, b := range fn.Blocks {
			for _, in := range b.Instrs {
				switch x := in.(type) {
				case *ssa.Alloc:
					if strings.HasSuffix(typeStr(x.Type()), "ipv6.ControlMessage") {
						bad = c.fname(fn) + " builds an ipv6.ControlMessage at " + c.pos(instrPos(x))
					}
				case *ssa.Store:
					if fa, ok := x.Addr.(*ssa.FieldAddr); ok {
						if _, typ, f := an.FieldAddrName(fa); typ == "ControlMessage" && f == "HopLimit" {
							bad = c.fname(fn) + " writes ControlMessage.HopLimit at " + c.pos(x.Pos())
						}
					}
				}
			}
		}
		// a method named ReadFrom with system.Conn's result shape on a module type
		if fn.Signature.Recv() != nil && fn.Name() == "ReadFrom" && fn.Signature.Results().Len() == 4 && fn.Pkg != nil && load.InModule(fn) &&
			strings.HasSuffix(typeStr(fn.Signature.Results().At(1).Type()), "ipv6.ControlMessage") {
			bad = "module type " + typeStr(fn.Signature.Recv().Type()) + " implements Conn.ReadFrom (" + c.pos(fn.Pos()) + ")"
		}
	}
	c.R.Check(bad == "" && n > 0, "R-C09-6", "module:hop-limit-unaltered", "", "", fmt.Sprintf("%d function(s) scanned; %s", n, bad),
		"received control messages come from the kernel only: no module code allocates an ipv6.ControlMessage, writes its HopLimit or wraps Conn.ReadFrom", "a message whose real hop limit is not 255 is presented to the listener as valid")
}


// c09NoMessageIndexing (R-C09-7): nothing on the receive path indexes an array
// or slice with a value taken from the received message (its type, a length
// byte, …) without a bounds test: an index out of range is a panic in the
// listener goroutine, i.e. one NS or NA stops the daemon. (A `[...]bool{133:
// true, 134: true}` table has 135 elements; type 135 is a neighbor
// solicitation.)
func c09NoMessageIndexing(c *Ctx) {
	roots := []*ssa.Function{c.P.Method("internal/corerad", "Advertiser", "handle"), c.P.Method("internal/corerad", "Monitor", "handle"), c.P.Method("internal/corerad", "listener", "receiveRetry"), c.P.Method("internal/corerad", "listener", "Listen")}
	var rs []*ssa.Function
	for _, r := range roots {
		if r != nil {
			rs = append(rs, r)
		}
	}
	reach := an.ModuleReach(rs, func(f *ssa.Function) bool {
		return load.InModule(f) && f.Pkg != nil && strings.HasSuffix(f.Pkg.Pkg.Path(), "internal/corerad")
	}, nil)
	n, bad := 0, ""
	fromMessage := func(e *an.Expr) bool {
		return e.Contains(func(x *an.Expr) bool {
			return x.Op == an.OpCall && x.Fn == nil && x.Name == "Type" // ndp.Message.Type()
		})
	}
	for fn := range reach {
		for _, b := range fn.Blocks {
			for _, in := range b.Instrs {
				var idx ssa.Value
				switch x := in.(type) {
				case *ssa.IndexAddr:
					idx = x.Index
				case *ssa.Index:
					idx = x.Index
				default:
					continue
				}
				n++
				if _, isConst := idx.(*ssa.Const); isConst {
					continue
				}
				if e := c.XO.Of(idx); fromMessage(e) {
					bad = fmt.Sprintf("%s indexes with %s at %s", c.fname(fn), shortExpr(e), c.pos(instrPos(in)))
				}
			}
		}
	}
	c.R.Check(bad == "", "R-C09-7", "corerad:no-message-derived-index", "", "", fmt.Sprintf("%d index operation(s) on the receive path; %s", n, bad),
		"no array or slice is indexed with a value derived from the received message's type", "a message of an unexpected type makes the index run out of range: the listener goroutine panics and the daemon stops")
}
