package rules

import (
	"go/constant"
	"fmt"
	"go/token"
	"sort"
	"strings"

	"crverif/internal/an"
	"crverif/internal/load"

	"golang.org/x/tools/go/ssa"
)

func init() {
	register(&RuleSet{
		Property: "C18",
		Explanation: "SEE/PATH rules on Monitor.handle: R-C18-1 exactly one MonMessagesReceivedTotal(1, iface, host, Type().String()) on every path; " +
			"R-C18-2 on the RA arm each gauge's value and labels come from the like-named field of the received RA / prefix option (managed⇐ManagedConfiguration, other⇐OtherConfiguration, default-route expiry emitted iff RouterLifetime != 0 as now.Add(RouterLifetime).Unix(); per prefix on-link⇐OnLink, autonomous⇐AutonomousAddressConfiguration, preferred/valid expiry ⇐ now.Add(Preferred/ValidLifetime).Unix(), labels (iface, cidrStr(Prefix,PrefixLength), host)), one clock read per message; " +
			"R-C18-3 the handler has no error result and no panic exit, cidrStr is netip.PrefixFrom(addr,int(len)).String(), the callback passes the zone-less host string R-C18-3 also: no panic statement and no always-panicking helper is reachable from Monitor.handle; R-C18-4 every Mon* field of Metrics is assigned, in NewMetrics only, the backend's own Counter/Gauge function with the documented label names (no wrapper in between). R-C18-2 identifies the prefix loop as the loop with an iteration that sets a monitor series; at least one exists. The receive-loop rules R-C09-2/R-C09-3 are evaluated here as shared rules (messages that fail validation never consume the retry budget, so the monitor keeps running).",
		Assumptions: []string{"Go type checker and go/ssa construction are correct", "pick[T] selects exactly the options of type T (checked type assertion)"},
		NotCovered:  []string{"overflow of now.Add for infinite lifetimes (a value question)", "label cardinality"},
		Run:         runC18,
	})
}

// emission describes one metric call on a path.
type emission struct {
	name   string
	value  *an.Expr
	labels []*an.Expr
	instr  ssa.CallInstruction
}

func emissionsOn(p *an.Path) []emission {
	var out []emission
	p.Instrs(func(in ssa.Instruction) {
		ci, ok := in.(ssa.CallInstruction)
		if !ok {
			return
		}
		name, ok := an.MetricCall(ci.Common())
		if !ok {
			return
		}
		args := ci.Common().Args
		em := emission{name: name, instr: ci}
		if len(args) >= 1 {
			em.value = p.Of(args[0])
		}
		if len(args) >= 2 {
			l := p.Of(args[1])
			if l.Op == an.OpStruct && l.Name == "list" {
				em.labels = l.Args
			} else {
				em.labels = []*an.Expr{l}
			}
		}
		out = append(out, em)
	})
	return out
}

// isBoolFloatOf: boolFloat(<base>.field)
func isBoolFloatOf(e *an.Expr, field string, base func(*an.Expr) bool) bool {
	return exprCallIs(e, PkgCorerad, "", "boolFloat") && len(e.Args) == 1 && e.Args[0].IsField(field) && base(e.Args[0].Args[0])
}

// isExpiryOf: float64(now.Add(<base>.field).Unix()) with now = m.now()
func isExpiryOf(e *an.Expr, field string, base func(*an.Expr) bool) (bool, *an.Expr) {
	if e.Op != an.OpConv || !strings.HasSuffix(e.Name, "float64") {
		return false, nil
	}
	u := e.Args[0]
	if !(u.Op == an.OpCall && u.Fn != nil && u.Fn.String() == "(time.Time).Unix") {
		return false, nil
	}
	a := u.Args[0]
	if !(a.Op == an.OpCall && a.Fn != nil && a.Fn.String() == "(time.Time).Add" && len(a.Args) == 2) {
		return false, nil
	}
	now, d := a.Args[0], a.Args[1]
	okNow := now.Op == an.OpCall && strings.HasPrefix(now.Name, "dyn:") && len(now.Args) >= 1 && now.Args[0].IsField("now")
	return okNow && d.IsField(field) && base(d.Args[0]), now
}

func runC18(c *Ctx) {
	h := c.needMethod("R-C18-1", "internal/corerad", "Monitor", "handle")
	if h == nil {
		return
	}
	fn := c.fname(h)
	c18NoPanic(c)
	c18MetricsDirect(c)
	// the monitor keeps running: messages that fail validation never end the receive loop (shared R-C09-2/3)
	if rr := c.P.Method("internal/corerad", "listener", "receiveRetry"); rr != nil {
		c09ReceiveRetry(c, rr)
	}
	c.R.Check(h.Signature.Results().Len() == 0, "R-C18-3", fn+":no-result", fn, c.pos(h.Pos()), fmt.Sprintf("%d results", h.Signature.Results().Len()), "the monitor handler cannot fail", "monitor can fail on a message")
	ps := c.pathsO("R-C18-1", h, an.PathOpts{EmitCut: true})
	isRA := func(e *an.Expr) bool {
		return e.Op == an.OpExtract && e.Idx == 0 && e.Args[0].Op == an.OpTypeAssert && strings.HasSuffix(e.Args[0].Name, "ndp.RouterAdvertisement") && e.Args[0].Args[0].Op == an.OpParam
	}
	isPfx := func(e *an.Expr) bool {
		// an element of pick[*ndp.PrefixInformation](ra.Options) …
		if e.Op == an.OpElem && exprCallIs(e.Args[0], PkgCorerad, "", "pick") && strings.Contains(e.Args[0].Name, "PrefixInformation") &&
			len(e.Args[0].Args) == 1 && e.Args[0].Args[0].IsField("Options") && isRA(e.Args[0].Args[0].Args[0]) {
			return true
		}
		// … or an element of ra.Options type-asserted to *ndp.PrefixInformation (pick written out as a loop)
		b, idx := stripExtract(e)
		if idx == 0 && b.Op == an.OpTypeAssert && strings.HasSuffix(b.Name, "ndp.PrefixInformation") && len(b.Args) == 1 {
			el := b.Args[0]
			return el.Op == an.OpElem && len(el.Args) >= 1 && el.Args[0].IsField("Options") && isRA(el.Args[0].Args[0])
		}
		return false
	}
	isIface := func(e *an.Expr) bool { return e.IsField("iface") && e.Args[0].Op == an.OpParam && e.Args[0].Idx == 0 }
	isHost := func(e *an.Expr) bool { return e.Op == an.OpParam && e.Name == "host" }
	// prefixStr(p) is cidrStr(p.Prefix, p.PrefixLength): checked on its own body, then accepted as a label
	prefixStrOK := false
	if ps := c.P.Func("internal/corerad", "prefixStr"); ps != nil {
		for _, r := range an.Returns(ps) {
			e := c.XO.Of(r.Results[0])
			prefixStrOK = exprCallIs(e, PkgCorerad, "", "cidrStr") && len(e.Args) == 2 && e.Args[0].IsField("Prefix") && e.Args[0].Args[0].Op == an.OpParam &&
				e.Args[1].IsField("PrefixLength") && e.Args[1].Args[0].Op == an.OpParam
		}
	}
	isCIDR := func(e *an.Expr) bool {
		if prefixStrOK && exprCallIs(e, PkgCorerad, "", "prefixStr") && len(e.Args) == 1 && isPfx(e.Args[0]) {
			return true
		}
		return exprCallIs(e, PkgCorerad, "", "cidrStr") && len(e.Args) == 2 && e.Args[0].IsField("Prefix") && isPfx(e.Args[0].Args[0]) &&
			e.Args[1].IsField("PrefixLength") && isPfx(e.Args[1].Args[0])
	}
	seen := map[string]bool{}
	check := func(ok bool, rule, key string, em emission, want string) {
		if seen[key] && ok {
			return
		}
		seen[key] = true
		var ls []string
		for _, l := range em.labels {
			ls = append(ls, l.String())
		}
		c.R.Check(ok, rule, key, fn, c.pos(em.instr.Pos()), fmt.Sprintf("%s(%s; %s)", em.name, em.value, strings.Join(ls, ", ")), want,
			"monitor metric does not describe the received message exactly (wrong source field, label order or condition)")
	}
	// the prefix loop(s): loop headers with an iteration that sets a monitor series. A loop over the
	// options that only formats them (verbose logging) is not one of them
	gaugeLoops := map[*ssa.BasicBlock]bool{}
	for _, p := range ps {
		if !p.Cut {
			continue
		}
		in := false
		p.Instrs(func(i ssa.Instruction) {
			if i.Block() == p.CutTo {
				in = true
			}
			if ci, ok := i.(ssa.CallInstruction); ok && in {
				if _, ok := an.MetricCall(ci.Common()); ok {
					gaugeLoops[p.CutTo] = true
				}
			}
		})
	}
	c.R.Check(len(gaugeLoops) >= 1, "R-C18-2", fn+":prefix-loop", fn, c.pos(h.Pos()), fmt.Sprintf("%d loop(s) setting monitor series", len(gaugeLoops)), ">= 1", "no per-prefix series are set from a received router advertisement")
	nRA := 0
	for _, p := range ps {
		if p.Panic != nil {
			c.R.Fail("R-C18-3", fn+":panic-exit@"+pathShape(p), fn, c.pos(h.Pos()), "path ends in panic", "never fails", "monitor can panic on a message")
			continue
		}
		ems := emissionsOn(p)
		count := map[string]int{}
		for _, e := range ems {
			count[e.name]++
		}
		// R-C18-1
		okCount := count["MonMessagesReceivedTotal"] == 1
		for _, e := range ems {
			if e.name != "MonMessagesReceivedTotal" {
				continue
			}
			okL := len(e.labels) == 3 && isIface(e.labels[0]) && isHost(e.labels[1]) &&
				e.labels[2].Op == an.OpCall && shortCallName(e.labels[2]) == "String" && len(e.labels[2].Args) == 1 && shortCallName(e.labels[2].Args[0]) == "Type"
			k, isC := e.value.ConstInt()
			check(okL && isC && k == 1, "R-C18-1", fn+":received-counter-args", e, "MonMessagesReceivedTotal(1, m.iface, host, msg.Type().String())")
		}
		c.R.Check(okCount, "R-C18-1", fn+":received-counter@"+pathShape(p), fn, c.pos(h.Pos()), fmt.Sprintf("MonMessagesReceivedTotal×%d", count["MonMessagesReceivedTotal"]), "exactly once per message on every path", "a message is not counted exactly once")

		ra := false
		lifeNZ := false
		inLoop := p.Cut && gaugeLoops[p.CutTo]
		// an iteration over ra.Options that meets an option of another kind (pick written out as a loop
		// with a checked type assertion) is not a prefix iteration: no prefix gauge may be set on it
		otherOption := false
		for _, a := range p.Atoms {
			if a.Cond.Op == an.OpExtract && a.Cond.Idx == 1 && a.Cond.Args[0].Op == an.OpTypeAssert && strings.HasSuffix(a.Cond.Args[0].Name, "ndp.PrefixInformation") && !a.Pos {
				otherOption = true
			}
		}
		if otherOption {
			inLoop = false
		}
		for _, a := range p.Atoms {
			if a.Cond.Op == an.OpExtract && a.Cond.Idx == 1 && a.Cond.Args[0].Op == an.OpTypeAssert && strings.HasSuffix(a.Cond.Args[0].Name, "ndp.RouterAdvertisement") {
				ra = a.Pos
			}
			x, y, op, ok := effCmp(a)
			if ok && x.IsField("RouterLifetime") && isRA(x.Args[0]) {
				if k, isC := y.ConstInt(); isC && k == 0 {
					lifeNZ = op == token.NEQ
				}
			}
		}
		if !ra {
			c.R.Check(len(ems) == 1, "R-C18-2", fn+":non-ra-only-counted@"+pathShape(p), fn, c.pos(h.Pos()), fmt.Sprintf("%d emission(s)", len(ems)), "only the received counter for non-RA messages", "gauges set from a message that is not a router advertisement")
			continue
		}
		nRA++
		// one clock read
		nNow := 0
		p.Instrs(func(in ssa.Instruction) {
			if ci, ok := in.(ssa.CallInstruction); ok {
				if _, ok := fieldLoadCall(ci.Common(), PkgCorerad, "Monitor", "now"); ok {
					nNow++
				}
			}
		})
		c.R.Check(nNow == 1, "R-C18-2", fn+":one-clock-read@"+pathShape(p), fn, c.pos(h.Pos()), fmt.Sprintf("%d m.now() call(s)", nNow), "receipt time is read once per message", "expiry timestamps of one message use different receipt times")
		for _, e := range ems {
			base2 := len(e.labels) == 2 && isIface(e.labels[0]) && isHost(e.labels[1])
			base3 := len(e.labels) == 3 && isIface(e.labels[0]) && isCIDR(e.labels[1]) && isHost(e.labels[2])
			switch e.name {
			case "MonMessagesReceivedTotal":
			case "MonFlagManaged":
				check(base2 && isBoolFloatOf(e.value, "ManagedConfiguration", isRA), "R-C18-2", fn+":MonFlagManaged", e, "boolFloat(ra.ManagedConfiguration); labels (iface, host)")
			case "MonFlagOther":
				check(base2 && isBoolFloatOf(e.value, "OtherConfiguration", isRA), "R-C18-2", fn+":MonFlagOther", e, "boolFloat(ra.OtherConfiguration); labels (iface, host)")
			case "MonDefaultRouteExpirationTime":
				ok, _ := isExpiryOf(e.value, "RouterLifetime", isRA)
				check(base2 && ok && lifeNZ, "R-C18-2", fn+":MonDefaultRouteExpirationTime", e, "float64(now.Add(ra.RouterLifetime).Unix()) only when RouterLifetime != 0; labels (iface, host)")
			case "MonPrefixAutonomous":
				check(base3 && isBoolFloatOf(e.value, "AutonomousAddressConfiguration", isPfx), "R-C18-2", fn+":MonPrefixAutonomous", e, "boolFloat(p.AutonomousAddressConfiguration); labels (iface, cidr, host)")
			case "MonPrefixOnLink":
				check(base3 && isBoolFloatOf(e.value, "OnLink", isPfx), "R-C18-2", fn+":MonPrefixOnLink", e, "boolFloat(p.OnLink); labels (iface, cidr, host)")
			case "MonPrefixPreferredLifetimeExpirationTime":
				ok, _ := isExpiryOf(e.value, "PreferredLifetime", isPfx)
				check(base3 && ok, "R-C18-2", fn+":MonPrefixPreferredLifetimeExpirationTime", e, "float64(now.Add(p.PreferredLifetime).Unix()); labels (iface, cidr, host)")
			case "MonPrefixValidLifetimeExpirationTime":
				ok, _ := isExpiryOf(e.value, "ValidLifetime", isPfx)
				check(base3 && ok, "R-C18-2", fn+":MonPrefixValidLifetimeExpirationTime", e, "float64(now.Add(p.ValidLifetime).Unix()); labels (iface, cidr, host)")
			default:
				check(false, "R-C18-2", fn+":unexpected-emission:"+e.name, e, "only the documented monitor series")
			}
		}
		// presence per RA path
		wantDefault := 0
		if lifeNZ {
			wantDefault = 1
		}
		okPresence := count["MonFlagManaged"] == 1 && count["MonFlagOther"] == 1 && count["MonDefaultRouteExpirationTime"] == wantDefault
		if otherOption {
			okPresence = okPresence && count["MonPrefixAutonomous"] == 0 && count["MonPrefixOnLink"] == 0 &&
				count["MonPrefixPreferredLifetimeExpirationTime"] == 0 && count["MonPrefixValidLifetimeExpirationTime"] == 0
		}
		if inLoop {
			okPresence = okPresence && count["MonPrefixAutonomous"] == 1 && count["MonPrefixOnLink"] == 1 &&
				count["MonPrefixPreferredLifetimeExpirationTime"] == 1 && count["MonPrefixValidLifetimeExpirationTime"] == 1
		}
		c.R.Check(okPresence, "R-C18-2", fmt.Sprintf("%s:series-set@lifetime!=0:%v,prefix-iteration:%v", fn, lifeNZ, inLoop), fn, c.pos(h.Pos()), fmt.Sprintf("%v", count),
			"managed and other gauges once; default-route expiry iff RouterLifetime != 0; the four prefix gauges once per prefix option", "a documented series is missing, duplicated or emitted under the wrong condition")
	}
	c.R.Check(nRA >= 4, "R-C18-2", fn+":ra-paths", fn, c.pos(h.Pos()), fmt.Sprintf("%d RA path(s)", nRA), ">= 4", "anchor-missing")
	c.R.Floor("R-C18-2", 12)

	// R-C18-3 cidrStr, boolFloat
	if cs := c.needFunc("R-C18-3", "internal/corerad", "cidrStr"); cs != nil {
		for _, r := range an.Returns(cs) {
			e := c.XO.Of(r.Results[0])
			ok := e.Op == an.OpCall && e.Fn != nil && e.Fn.String() == "(net/netip.Prefix).String" && len(e.Args) == 1
			if ok {
				pf := e.Args[0]
				ok = pf.Op == an.OpCall && pf.Fn != nil && pf.Fn.String() == "net/netip.PrefixFrom" && len(pf.Args) == 2 && pf.Args[0].Op == an.OpParam && pf.Args[0].Idx == 0 &&
					pf.Args[1].Op == an.OpConv && pf.Args[1].Args[0].Op == an.OpParam && pf.Args[1].Args[0].Idx == 1
			}
			c.R.Check(ok, "R-C18-3", c.fname(cs)+":definition", c.fname(cs), c.pos(r.Pos()), "cidrStr = "+e.String(), "netip.PrefixFrom(prefix, int(length)).String()", "prefix label is not the CIDR form of the option")
		}
	}
	if bf := c.needFunc("R-C18-3", "internal/corerad", "boolFloat"); bf != nil {
		for _, p := range c.pathsO("R-C18-3", bf, an.PathOpts{}) {
			if p.Ret == nil || len(p.Atoms) != 1 {
				continue
			}
			k, isC := p.Results[0].ConstInt()
			want := int64(0)
			if p.Atoms[0].Pos {
				want = 1
			}
			c.R.Check(isC && k == want && p.Atoms[0].Cond.Op == an.OpParam, "R-C18-3", fmt.Sprintf("%s:definition@%v", c.fname(bf), p.Atoms[0].Pos), c.fname(bf), c.pos(p.Ret.Pos()), fmt.Sprintf("boolFloat(%v) = %s", p.Atoms[0].Pos, p.Results[0]), fmt.Sprintf("%d", want), "flag gauges inverted")
		}
	}
	// Monitor's listener callback: handle(msg.Message, msg.Host.String()) and never returns an error
	if cb := listenerCallback(c, "R-C18-3", "Monitor", "monitor"); cb != nil {
		for _, p := range c.pathsO("R-C18-3", cb, an.PathOpts{}) {
			hs := callsOnPath(p, func(cc *ssa.CallCommon) bool { return an.CallIs(cc, PkgCorerad, "Monitor", "handle") })
			ok := len(hs) == 1 && p.Ret != nil && exprIsNil(p.Results[0])
			if ok {
				args := hs[0].Common().Args
				m, host := p.Of(args[1]), p.Of(args[2])
				ok = m.IsField("Message") && host.Op == an.OpCall && host.Fn != nil && host.Fn.String() == "(net/netip.Addr).String" && host.Args[0].IsField("Host")
			}
			c.R.Check(ok, "R-C18-3", c.fname(cb)+":delivers-every-message@"+pathShape(p), c.fname(cb), c.pos(cb.Pos()), fmt.Sprintf("%d handle call(s); returns %v", len(hs), exprStrings(p.Results)),
				"handle(msg.Message, msg.Host.String()) exactly once, callback returns nil", "a message is not reported, reported twice, or can stop the monitor")
		}
	}
}

// c18NoPanic (R-C18-3): "the monitor never fails" on any received message: no
// panic statement (and no call of an always-panicking helper) is reachable
// from Monitor.handle through the module's own functions. Received messages
// are attacker-controlled wire data; an assertion that holds for validated
// configuration does not hold for them.
func c18NoPanic(c *Ctx) {
	h := c.P.Method("internal/corerad", "Monitor", "handle")
	if h == nil {
		return
	}
	reach := an.ModuleReach([]*ssa.Function{h}, load.InModule, nil)
	var fns []*ssa.Function
	for f := range reach {
		fns = append(fns, f)
	}
	sort.Slice(fns, func(i, j int) bool { return fns[i].String() < fns[j].String() })
	n := 0
	for _, f := range fns {
		n++
		for _, b := range f.Blocks {
			for _, in := range b.Instrs {
				switch x := in.(type) {
				case *ssa.Panic:
					c.R.Fail("R-C18-3", c.fname(f)+":panic-reachable-from-handle", c.fname(f), c.pos(x.Pos()), "panic statement in a function reachable from Monitor.handle",
						"handling a received message cannot panic", "a crafted or unusual received message crashes the monitor")
				case *ssa.Call:
					if callee := an.StaticCallee(&x.Call); callee != nil && an.NeverReturns(callee) && load.InModule(callee) {
						c.R.Fail("R-C18-3", c.fname(f)+":panic-helper-reachable-from-handle", c.fname(f), c.pos(x.Pos()), "call of "+c.fname(callee)+", which always panics",
							"handling a received message cannot panic", "a crafted or unusual received message crashes the monitor")
					}
				}
			}
		}
	}
	c.R.Check(n >= 2, "R-C18-3", c.fname(h)+":reachable-functions", c.fname(h), c.pos(h.Pos()), fmt.Sprintf("%d module function(s) reachable from handle, none can panic", n), ">= 2", "anchor-missing")
}


// c18MetricsDirect (R-C18-4): the monitor's counters and gauges are the
// metrics backend's own functions: every Mon* field of Metrics is assigned,
// in NewMetrics only, the result of metricslite's Counter/Gauge constructor
// called with the documented label names. A wrapper in between (sampling,
// label rewriting, cardinality bounding) changes what "counted once by
// (interface, host, message type)" means.
func c18MetricsDirect(c *Ctx) {
	nm := c.needFunc("R-C18-4", "internal/corerad", "NewMetrics")
	if nm == nil {
		return
	}
	labels := map[string][]string{
		"MonMessagesReceivedTotal": {"interface", "host", "message"},
	}
	n := 0
	for _, fn := range c.srcFuncs() {
		for _, b := range fn.Blocks {
			for _, in := range b.Instrs {
				st, ok := in.(*ssa.Store)
				if !ok {
					continue
				}
				fa, ok := st.Addr.(*ssa.FieldAddr)
				if !ok {
					continue
				}
				pkg, typ, f := an.FieldAddrName(fa)
				if pkg != PkgCorerad || typ != "Metrics" || !strings.HasPrefix(f, "Mon") {
					continue
				}
				n++
				e := c.XO.Of(st.Val)
				direct := e.Op == an.OpCall && e.Fn == nil && (e.Name == "Counter" || e.Name == "Gauge")
				fact := fmt.Sprintf("Metrics.%s ⇐ %s in %s", f, shortExpr(e), c.fname(fn))
				okLabels := true
				if want, has := labels[f]; has && direct {
					var got []string
					e.Walk(func(x *an.Expr) bool {
						if x.Op == an.OpConst && x.Cval != nil && x.Cval.Kind() == constant.String {
							got = append(got, constant.StringVal(x.Cval))
						}
						return true
					})
					// the constructor's arguments are name, help, labels…: the labels are the last len(want) strings
					okLabels = len(got) >= len(want)
					if okLabels {
						tail := got[len(got)-len(want):]
						for i := range want {
							if tail[i] != want[i] {
								okLabels = false
							}
						}
					}
					fact += fmt.Sprintf("; label names %v", got)
				}
				c.R.Check(direct && okLabels && fn == nm, "R-C18-4", "corerad.Metrics."+f+":backend-function", c.fname(fn), c.pos(st.Pos()), fact,
					"assigned in NewMetrics the backend's Counter/Gauge with the documented label names, nothing in between", "monitor metrics pass through a wrapper that can drop, merge or relabel series")
			}
		}
	}
	c.R.Check(n >= 7, "R-C18-4", "corerad.Metrics:mon-fields", "", "", fmt.Sprintf("%d assignment(s) to Mon* fields", n), ">= 7", "anchor-missing")
}
