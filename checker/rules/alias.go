package rules

import (
	"fmt"
	"go/types"
	"strings"

	"crverif/internal/an"

	"golang.org/x/tools/go/ssa"
)

// scratchAliasing (R-C17-8, R-C01-7): storage shared between the entries a
// loop produces. A slice variable carried around a loop (a φ at the loop
// header) that is re-sliced to a shorter length and filled again on the next
// iteration overwrites its previous content; if a value derived from it was
// stored into another object in the meantime (a field of an appended record,
// a map entry, an interface), that object's content changes after the fact.
// The rule fires only on the conjunction
//
//	(a) the back-edge value of the φ derives from the φ through a re-slice
//	    (x[:k], slices.Grow(x[:0], …), slices.Delete, slices.Insert …), and
//	(b) a value derived from the φ is stored (Store value, map update value,
//	    channel send, conversion to an interface),
//
// which is exactly the "reuse a scratch buffer, yet keep a reference" shape.
// A scratch buffer that is only passed to calls and returned is not reported.
func scratchAliasing(c *Ctx, rule string, fns []*ssa.Function, why string) {
	nPhi := 0
	for _, fn := range fns {
		if fn.Blocks == nil {
			continue
		}
		for _, b := range fn.Blocks {
			for _, in := range b.Instrs {
				ph, ok := in.(*ssa.Phi)
				if !ok {
					break
				}
				if _, isSlice := ph.Type().Underlying().(*types.Slice); !isSlice {
					continue
				}
				// loop header: some predecessor is dominated by this block
				var back []ssa.Value
				for i, pr := range b.Preds {
					if b.Dominates(pr) {
						back = append(back, ph.Edges[i])
					}
				}
				if len(back) == 0 {
					continue
				}
				nPhi++
				// forward closure of values that share storage with ph
				derived := map[ssa.Value]bool{ph: true}
				resliced := map[ssa.Value]bool{} // derived through a re-slice
				var work []ssa.Value
				work = append(work, ph)
				var escape ssa.Instruction
				for len(work) > 0 {
					v := work[len(work)-1]
					work = work[:len(work)-1]
					refs := v.Referrers()
					if refs == nil {
						continue
					}
					add := func(nv ssa.Value, re bool) {
						if re || resliced[v] {
							if !resliced[nv] {
								resliced[nv] = true
								if derived[nv] {
									work = append(work, nv) // propagate the new fact
								}
							}
						}
						if !derived[nv] {
							derived[nv] = true
							work = append(work, nv)
						}
					}
					for _, r := range *refs {
						switch x := r.(type) {
						case *ssa.Slice:
							if x.X == v {
								add(x, x.High != nil)
							}
						case *ssa.Phi:
							add(x, false)
						case *ssa.ChangeType:
							add(x, false)
						case *ssa.Call:
							if bi, ok := x.Call.Value.(*ssa.Builtin); ok && bi.Name() == "append" && len(x.Call.Args) > 0 && x.Call.Args[0] == v {
								add(x, false)
								continue
							}
							if obj := an.CalleeObj(&x.Call); obj != nil && obj.Pkg() != nil && obj.Pkg().Path() == "slices" && len(x.Call.Args) > 0 && x.Call.Args[0] == v {
								switch obj.Name() {
								case "Grow", "Clip":
									add(x, false)
								case "Insert", "Delete", "DeleteFunc", "Compact", "CompactFunc", "Replace":
									add(x, true)
								}
							}
						case *ssa.Store:
							if x.Val == v && escape == nil {
								escape = x
							}
						case *ssa.MapUpdate:
							if x.Value == v && escape == nil {
								escape = x
							}
						case *ssa.Send:
							if x.X == v && escape == nil {
								escape = x
							}
						case *ssa.MakeInterface:
							if escape == nil {
								escape = x
							}
						}
					}
				}
				reused := false
				for _, bv := range back {
					if resliced[bv] {
						reused = true
					}
				}
				if !reused {
					continue
				}
				name := ph.Comment
				if name == "" {
					name = ph.Name()
				}
				key := fmt.Sprintf("%s:scratch-slice:%s", c.fname(fn), name)
				fact := fmt.Sprintf("slice %q is re-sliced and refilled on every iteration", name)
				if escape != nil {
					fact += "; a value sharing its storage is stored at " + c.pos(instrPos(escape))
				} else {
					fact += "; no value sharing its storage is stored anywhere"
				}
				c.R.Check(escape == nil, rule, key, c.fname(fn), c.pos(instrPos(ph)), fact,
					"a buffer refilled on each iteration is never referenced by the entries produced (each entry owns its storage)", why)
			}
		}
	}
	c.R.Check(nPhi >= 1, rule, "loop-carried-slices-analysed", "", "", fmt.Sprintf("%d loop-carried slice variable(s) examined in %d function(s)", nPhi, len(fns)), ">= 1", "anchor-missing")
}

// fnsInPkgs lists the source functions (with their closures) of the module packages whose import
// path ends in one of the given suffixes.
func fnsInPkgs(c *Ctx, suffixes ...string) []*ssa.Function {
	var out []*ssa.Function
	for _, f := range c.srcFuncs() {
		if f.Pkg == nil {
			continue
		}
		for _, s := range suffixes {
			if strings.HasSuffix(f.Pkg.Pkg.Path(), s) {
				out = append(out, f)
				break
			}
		}
	}
	return out
}
