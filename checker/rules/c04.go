package rules

import (
	"fmt"
	"go/constant"
	"go/token"
	"go/types"
	"sort"
	"strings"

	"crverif/internal/an"
	"crverif/internal/load"

	"golang.org/x/tools/go/ssa"
)

func init() {
	register(&RuleSet{
		Property: "C04",
		Explanation: "PATH/SEE/STRUCT rules: R-C04-1 on every success path of Interface.RouterAdvertisement the returned RouterLifetime is the configured lifetime only when forwarding is true (or the lifetime is already <= 0), otherwise the constant 0 together with the InterfaceNotForwarding misconfiguration, all other header fields unchanged; " +
			"R-C04-2 every caller passes the result of State.IPv6Forwarding(<same interface>.Name) read in the same activation, after checking its error; R-C04-3 no field or global ever stores a value derived from IPv6Forwarding (nothing caches it); " +
			"R-C04-4 every switch over config.Misconfiguration covers all declared constants, buildRA logs the condition, constScrape hands the misconfigurations and forwarding value of the same reads to collectMetrics, which exports them Every path through the InterfaceNotForwarding arm of buildRA writes the log line (no latch). R-C04-3 also (linux build): every success path of the forwarding sysctl reader returns a value computed from an os.ReadFile call made on that path (nothing is remembered between calls).",
		Assumptions: []string{
			"Go type checker and go/ssa construction are correct",
			"config guarantees DefaultLifetime >= 0 (decided by C02)",
		},
		NotCovered: []string{"that the sysctl file read by getIPv6Forwarding is the right one beyond its constant key \"forwarding\""},
		Run:        runC04,
	})
}

// headerTable: ndp.RouterAdvertisement header field ⇐ config.Interface field.
var headerTable = map[string]string{
	"CurrentHopLimit":           "HopLimit",
	"ManagedConfiguration":      "Managed",
	"OtherConfiguration":        "OtherConfig",
	"RouterSelectionPreference": "Preference",
	"RouterLifetime":            "DefaultLifetime",
	"ReachableTime":             "ReachableTime",
	"RetransmitTimer":           "RetransmitTimer",
}

// raHeader extracts the header fields of the RA returned on a path.
func raHeader(e *an.Expr) map[string]*an.Expr {
	if e == nil {
		return nil
	}
	if e.Op == an.OpNew && len(e.Args) == 1 {
		e = e.Args[0]
	}
	if e.Op != an.OpStruct || e.Typ == nil {
		return nil
	}
	st, ok := e.Typ.Underlying().(*types.Struct)
	if !ok {
		return nil
	}
	out := map[string]*an.Expr{}
	for i, a := range e.Args {
		if a != nil && i < st.NumFields() {
			out[st.Field(i).Name()] = a
		}
	}
	return out
}

func isRecvField(e *an.Expr, name string) bool {
	return e.Op == an.OpField && e.Name == name && e.Args[0].Op == an.OpParam && e.Args[0].Idx == 0
}

func runC04(c *Ctx) {
	c04ForwardingReadAfresh(c)
	// "all other content is unchanged": the builder writes nothing but the RA under construction, and the
	// options plugins have produced are not rewritten afterwards (shared rules R-C01-4, R-C16-5)
	c01Purity(c)
	c16OnlyPluginsWriteLifetimes(c)
	ra := c.needMethod("R-C04-1", "internal/config", "Interface", "RouterAdvertisement")
	if ra == nil {
		return
	}
	fn := c.fname(ra)
	ps := c.pathsO("R-C04-1", ra, an.PathOpts{EmitCut: true})
	notFwd := int64(-1)
	if k, ok := c.P.TypesPkg("internal/config").Types.Scope().Lookup("InterfaceNotForwarding").(*types.Const); ok {
		notFwd, _ = constant.Int64Val(k.Val())
	}
	nZero, nKeep := 0, 0
	for _, p := range ps {
		if p.Ret == nil || len(p.Results) != 3 || !exprIsNil(p.Results[2]) {
			continue
		}
		hdr := raHeader(p.Results[0])
		if hdr == nil {
			c.R.Undecided("R-C04-1", fn+":returned-ra@"+pathShape(p), fn, c.pos(p.Ret.Pos()), "returned RA is not a locally built object: "+p.Results[0].String())
			continue
		}
		fwdTrue, fwdTested, lifePos, lifeTested := false, false, false, false
		for _, a := range p.Atoms {
			if a.Cond.Op == an.OpParam && a.Cond.Name == "forwarding" {
				fwdTrue, fwdTested = a.Pos, true
			}
			if a.Cond.Op == an.OpUn && a.Cond.Tok == token.NOT && a.Cond.Args[0].Op == an.OpParam && a.Cond.Args[0].Name == "forwarding" {
				fwdTrue, fwdTested = !a.Pos, true
			}
			x, y, op, ok := effCmp(a)
			if ok && isRecvField(x, "DefaultLifetime") {
				if k, isC := y.ConstInt(); isC && k == 0 {
					lifeTested = true
					lifePos = op == token.GTR || op == token.NEQ
				}
			}
		}
		life := hdr["RouterLifetime"]
		ms := p.Results[1]
		key := fmt.Sprintf("%s:lifetime@forwarding=%s,lifetime>0=%s", fn, tri(fwdTrue, fwdTested), tri(lifePos, lifeTested))
		if life == nil {
			c.R.Fail("R-C04-1", key, fn, c.pos(p.Ret.Pos()), "RouterLifetime never stored", "", "router lifetime not set")
			continue
		}
		zero := false
		if k, isC := life.ConstInt(); isC && k == 0 {
			zero = true
		}
		var ok bool
		if zero {
			nZero++
			// zeroing path: must report exactly InterfaceNotForwarding
			// (built by append onto a fresh slice, or written as a one-element literal)
			items, fresh := flattenAppend(ms)
			okMs := fresh && len(items) == 1 && !items[0].spread
			if okMs {
				k, isC := items[0].e.ConstInt()
				okMs = isC && k == notFwd
			}
			ok = okMs && fwdTested && !fwdTrue
		} else {
			nKeep++
			// keeping the configured lifetime requires forwarding==true, or lifetime <= 0 already
			ok = isRecvField(life, "DefaultLifetime") && ((fwdTested && fwdTrue) || (lifeTested && !lifePos)) && (exprIsNil(ms) || exprIsZero(ms))
		}
		// all other header fields unchanged
		var diffs []string
		for f, src := range headerTable {
			if f == "RouterLifetime" {
				continue
			}
			if v := hdr[f]; v == nil || !isRecvField(v, src) {
				diffs = append(diffs, f)
			}
		}
		for f := range hdr {
			if _, known := headerTable[f]; !known && f != "Options" {
				diffs = append(diffs, "+"+f)
			}
		}
		c.R.Check(ok && len(diffs) == 0, "R-C04-1", key, fn, c.pos(p.Ret.Pos()),
			fmt.Sprintf("RouterLifetime=%s misconfigurations=%s other-fields-changed=%v", life, ms, diffs),
			"lifetime 0 + [InterfaceNotForwarding] exactly when !forwarding and the configured lifetime is > 0; otherwise the configured lifetime and no misconfiguration; nothing else differs",
			"a non-forwarding interface can advertise itself as a default router, or the condition is not surfaced, or forwarding interfaces lose their lifetime")
	}
	c.R.Check(nZero >= 1 && nKeep >= 1, "R-C04-1", fn+":both-outcomes", fn, c.pos(ra.Pos()), fmt.Sprintf("%d zeroing path(s), %d keeping path(s)", nZero, nKeep), ">= 1 each", "zeroing logic missing")

	// R-C04-2 callers
	n := 0
	for _, s := range an.FindCalls(c.srcFuncs(), func(cc *ssa.CallCommon) bool { return an.CallIs(cc, PkgConfig, "Interface", "RouterAdvertisement") }) {
		n++
		cc := s.Common()
		recv := c.XO.Of(cc.Args[0])
		arg := c.XO.Of(cc.Args[1])
		b, idx := stripExtract(arg)
		okSrc := idx == 0 && exprCallIs(b, PkgSystem, "State", "IPv6Forwarding")
		okSame := false
		if okSrc {
			nameArg := b.Args[len(b.Args)-1]
			if nameArg.IsField("Name") && sameValue(nameArg.Args[0], recv) {
				okSame = true
			}
		}
		// error checked before use
		okErr := false
		if okSrc {
			fi := an.Info(s.Fn)
			g := fi.Guard(s.Instr.Block())
			okErr = len(g) > 0
			for _, conj := range g {
				found := false
				for _, a := range conj {
					e := c.XO.Of(a.Cond)
					x, y, op, ok := effCmp(an.PathAtom{Cond: e, Pos: a.Pos})
					if ok && exprIsNil(y) && op == token.EQL {
						if eb, eidx := stripExtract(x); eidx == 1 && sameValue(eb, b) {
							found = true
						}
					}
				}
				if !found {
					okErr = false
				}
			}
		}
		c.R.Check(okSrc && okSame && okErr, "R-C04-2", c.fname(s.Fn)+":forwarding-argument", c.fname(s.Fn), c.pos(s.Pos()),
			fmt.Sprintf("%s.RouterAdvertisement(%s); error checked first=%v", recv, arg, okErr),
			"argument is result #0 of State.IPv6Forwarding(<receiver>.Name) evaluated in the same activation, with its error checked before use",
			"an RA is generated from a stale, constant or foreign forwarding state")
	}
	c.R.Floor("R-C04-2", 3)

	// R-C04-2 (transmit side): the message handed to WriteTo is built, from the live state, in the same activation as the write
	nW := 0
	for _, s := range an.FindCalls(c.srcFuncs(), func(cc *ssa.CallCommon) bool { return an.CallIs(cc, PkgSystem, "Conn", "WriteTo") }) {
		nW++
		args := s.Common().Args
		msg := c.XO.Of(args[len(args)-3])
		okFresh := true
		for _, alt := range msg.Alts() {
			b, idx := stripExtract(alt)
			if !(idx == 0 && (exprCallIs(b, PkgCorerad, "Advertiser", "buildRA") || exprCallIs(b, PkgConfig, "Interface", "RouterAdvertisement"))) {
				okFresh = false
			}
		}
		c.R.Check(okFresh, "R-C04-2", c.fname(s.Fn)+":transmits-fresh-ra", c.fname(s.Fn), c.pos(s.Pos()), "WriteTo("+msg.String()+", …)",
			"the RA is generated (forwarding read included) in the same activation that transmits it — never a parameter, field, channel value or captured variable built earlier",
			"an RA built before a delay is transmitted after forwarding was switched off: it still advertises a default route")
	}
	c.R.Check(nW >= 1, "R-C04-2", "module:transmit-sites", "", "", fmt.Sprintf("%d WriteTo site(s)", nW), ">= 1", "anchor-missing")

	// R-C04-3 nothing caches the forwarding state
	nSt := 0
	for _, f := range c.srcFuncs() {
		if f.Pkg != nil && f.Pkg.Pkg.Path() == PkgSystem {
			continue // the State implementations themselves
		}
		for _, b := range f.Blocks {
			for _, in := range b.Instrs {
				st, ok := in.(*ssa.Store)
				if !ok {
					continue
				}
				nSt++
				if isLocalPlace(st.Addr) {
					continue
				}
				e := c.XO.Of(st.Val)
				if isForwardingValue(e, 2) {
					c.R.Fail("R-C04-3", c.fname(f)+":stores-forwarding-state", c.fname(f), c.pos(st.Pos()), "stores "+e.String(),
						"the forwarding state is read afresh for every RA and never kept in a field, global or captured variable", "forwarding state cached: later flips are not tracked")
				}
			}
		}
	}
	c.R.Check(nSt > 100, "R-C04-3", "module:stores-scanned", "", "", fmt.Sprintf("%d stores scanned, none caches IPv6Forwarding", nSt), "scan covers the module", "scan did not run")

	// R-C04-4 exhaustive switches + surfacing
	c04Misconfig(c, notFwd)
}

func tri(v, tested bool) string {
	if !tested {
		return "untested"
	}
	return fmt.Sprint(v)
}

// isLocalPlace reports whether addr is (a field/element of) a non-escaping
// local variable.
func isLocalPlace(addr ssa.Value) bool {
	for {
		switch x := addr.(type) {
		case *ssa.Alloc:
			if _, isArr := x.Type().(*types.Pointer).Elem().Underlying().(*types.Array); isArr {
				return true // varargs / array literal temporary
			}
			return !x.Heap
		case *ssa.FieldAddr:
			addr = x.X
		case *ssa.IndexAddr:
			addr = x.X
		default:
			return false
		}
	}
}

func c04Misconfig(c *Ctx, notFwd int64) {
	mis := c.P.Named("internal/config", "Misconfiguration")
	if mis == nil {
		c.R.Fail("R-C04-4", "config.Misconfiguration", "", "", "type missing", "", "anchor-missing")
		return
	}
	// declared constants
	declared := map[int64]string{}
	sc := c.P.TypesPkg("internal/config").Types.Scope()
	for _, name := range sc.Names() {
		if k, ok := sc.Lookup(name).(*types.Const); ok && types.Identical(k.Type(), mis) {
			v, _ := constant.Int64Val(k.Val())
			declared[v] = name
		}
	}
	nSw := 0
	for _, f := range c.srcFuncs() {
		covered := map[int64]bool{}
		var at token.Pos
		for _, b := range f.Blocks {
			for _, in := range b.Instrs {
				bo, ok := in.(*ssa.BinOp)
				if !ok || (bo.Op != token.EQL && bo.Op != token.NEQ) || !types.Identical(bo.X.Type(), mis) {
					continue
				}
				if k, ok := bo.Y.(*ssa.Const); ok && k.Value != nil {
					v, _ := constant.Int64Val(k.Value)
					covered[v] = true
					at = bo.Pos()
				}
			}
		}
		if len(covered) == 0 {
			continue
		}
		nSw++
		var missing []string
		for v, name := range declared {
			if !covered[v] {
				missing = append(missing, name)
			}
		}
		c.R.Check(len(missing) == 0, "R-C04-4", c.fname(f)+":switch-exhaustive", c.fname(f), c.pos(at),
			fmt.Sprintf("handles %d of %d Misconfiguration constants; missing %v", len(covered), len(declared), missing),
			"every switch over config.Misconfiguration handles every declared constant", "a misconfiguration kind is not surfaced (or panics in the default arm)")
	}
	c.R.Check(nSw >= 2, "R-C04-4", "module:misconfiguration-switches", "", "", fmt.Sprintf("%d switch site(s)", nSw), ">= 2 (log, metric)", "misconfigurations are no longer surfaced in logs or metrics")

	// buildRA logs in the InterfaceNotForwarding arm and returns the RA unmodified.
	if b := c.needMethod("R-C04-4", "internal/corerad", "Advertiser", "buildRA"); b != nil {
		ps := c.pathsO("R-C04-4", b, an.PathOpts{EmitCut: true})
		logged := false
		nArm, nSilent := 0, 0
		for _, p := range ps {
			arm := false
			for _, a := range p.Atoms {
				x, y, op, ok := effCmp(a)
				if ok && op == token.EQL && x.Typ != nil && types.Identical(x.Typ, mis) {
					if k, isC := y.ConstInt(); isC && k == notFwd {
						arm = true
					}
				}
			}
			if arm && p.Panic == nil {
				// every way through the arm writes the log line (no latch, rate limit or early exit)
				nArm++
				logs := callsOnPath(p, func(cc *ssa.CallCommon) bool { return an.CallIs(cc, PkgCorerad, "Advertiser", "logf") })
				if len(logs) >= 1 {
					logged = true
				} else {
					nSilent++
				}
			}
			if p.Ret != nil && len(p.Results) == 2 && exprIsNil(p.Results[1]) {
				bb, idx := stripExtract(p.Results[0])
				c.R.Check(idx == 0 && exprCallIs(bb, PkgConfig, "Interface", "RouterAdvertisement"), "R-C04-4", c.fname(b)+":returns-generated-ra", c.fname(b), c.pos(p.Ret.Pos()),
					"returns "+p.Results[0].String(), "the RA produced by ifi.RouterAdvertisement(forwarding), unmodified", "RA altered after the forwarding rule was applied")
			}
		}
		c.R.Check(logged && nSilent == 0, "R-C04-4", c.fname(b)+":logs-not-forwarding", c.fname(b), c.pos(b.Pos()), fmt.Sprintf("log line on the InterfaceNotForwarding arm=%v (%d of %d path(s) through the arm write nothing)", logged, nSilent, nArm),
			"the condition is logged every time an RA is built while it holds", "misconfiguration not logged (or only the first time)")
	}

	// constScrape hands the same reads to collectMetrics
	if cs := c.needMethod("R-C04-4", "internal/corerad", "Metrics", "constScrape"); cs != nil {
		// decided per path (one loop iteration each), so that it does not matter whether the context is a
		// literal at the call, a variable filled in step by step, or the result of a helper
		nAdv, nCalls := 0, 0
		allOK := true
		fact := ""
		var at ssa.CallInstruction
		for _, p := range c.pathsO("R-C04-4", cs, an.PathOpts{EmitCut: true}) {
			for _, ci := range callsOnPath(p, func(cc *ssa.CallCommon) bool { return an.CallIs(cc, PkgCorerad, "", "collectMetrics") }) {
				nCalls++
				at = ci
				advertising := false
				for _, a := range p.Atoms {
					if a.Cond.IsField("Advertise") {
						advertising = a.Pos
					}
				}
				arg := p.Of(ci.Common().Args[1])
				flds := raHeader(arg)
				if flds == nil {
					allOK = false
					fact = arg.String()
					continue
				}
				fwd, adv, ms := flds["Forwarding"], flds["Advertisement"], flds["Misconfigurations"]
				fb, fidx := stripExtractP(fwd)
				okF := fwd != nil && fidx == 0 && exprCallIs(fb, PkgSystem, "State", "IPv6Forwarding")
				ok := okF
				if advertising {
					nAdv++
					okA, okM, okArg := false, false, false
					var raCall *an.Expr
					if adv != nil {
						if ab, aidx := stripExtract(adv); aidx == 0 && exprCallIs(ab, PkgConfig, "Interface", "RouterAdvertisement") {
							okA = true
							raCall = ab
						}
					}
					if ms != nil && raCall != nil {
						if mb, midx := stripExtract(ms); midx == 1 && sameValue(mb, raCall) {
							okM = true
						}
					}
					if raCall != nil && len(raCall.Args) == 2 {
						okArg = sameValue(raCall.Args[1], fwd)
					}
					ok = okF && okA && okM && okArg
				} else {
					// not advertising: no RA and no misconfiguration is reported
					ok = okF && (adv == nil || exprIsNil(adv) || exprIsZero(adv)) && (ms == nil || exprIsNil(ms) || exprIsZero(ms))
				}
				if !ok {
					allOK = false
					fact = fmt.Sprintf("advertising=%v: Forwarding=%s Advertisement=%s Misconfigurations=%s", advertising, fwd, adv, ms)
				}
			}
		}
		if fact == "" {
			fact = fmt.Sprintf("%d call(s) on enumerated paths, %d on advertising paths, all consistent", nCalls, nAdv)
		}
		pos := c.pos(cs.Pos())
		if at != nil {
			pos = c.pos(at.Pos())
		}
		c.R.Check(allOK && nAdv >= 1, "R-C04-4", c.fname(cs)+":collectMetrics-argument", c.fname(cs), pos, fact,
			"Forwarding is the IPv6Forwarding read passed to RouterAdvertisement; Advertisement and Misconfigurations are results #0/#1 of that same call",
			"forwarding gauge / misconfiguration gauge do not describe the RA that would be sent")
	}
	// collectMetrics exports the detail label
	if cm := c.needFunc("R-C04-4", "internal/corerad", "collectMetrics"); cm != nil {
		found := false
		for _, ci := range an.CallsIn(cm) {
			for _, a := range ci.Common().Args {
				e := c.XO.Of(a)
				if e.Contains(func(x *an.Expr) bool { return x.IsConst(`"interface_not_forwarding"`) }) {
					found = true
				}
			}
		}
		c.R.Check(found, "R-C04-4", c.fname(cm)+":exports-interface_not_forwarding", c.fname(cm), c.pos(cm.Pos()), fmt.Sprintf("emission with detail \"interface_not_forwarding\"=%v", found),
			"the misconfiguration gauge carries detail interface_not_forwarding", "misconfiguration metric missing or mislabelled")
	}
	_ = strings.TrimSpace
}

func altsOf(e *an.Expr) []*an.Expr {
	if e == nil {
		return nil
	}
	return e.Alts()
}

func stripExtractP(e *an.Expr) (*an.Expr, int) {
	if e == nil {
		return &an.Expr{}, -1
	}
	return stripExtract(e)
}

// isForwardingValue reports whether e is directly the boolean read from
// State.IPv6Forwarding (through phis, conversions, negation or a composite
// holding it), as opposed to something computed from it by a call.
func isForwardingValue(e *an.Expr, depth int) bool {
	if e == nil || depth < 0 {
		return false
	}
	switch e.Op {
	case an.OpExtract:
		return e.Idx == 0 && exprCallIs(e.Args[0], PkgSystem, "State", "IPv6Forwarding")
	case an.OpPhi, an.OpStruct, an.OpNew, an.OpConv, an.OpUn:
		for _, a := range e.Args {
			if isForwardingValue(a, depth-1) {
				return true
			}
		}
	}
	return false
}

// c04ForwardingReadAfresh (R-C04-3, on the linux build): the forwarding state
// handed to the RA builder is what the sysctl file says at that moment. Every
// path of the sysctl reader that returns without error returns a value
// computed from an os.ReadFile call made on that path (no value remembered
// from an earlier call: files under /proc/sys do not change their mtime when
// they are written), and getIPv6Forwarding returns that reader's result.
func c04ForwardingReadAfresh(c *Ctx) {
	gf := c.P.Func("internal/system", "getIPv6Forwarding")
	if gf == nil || c.P.Cfg.GOOS != "linux" {
		return // the other platforms have a constant stub
	}
	n, bad := 0, ""
	var reach []*ssa.Function
	for f := range an.ModuleReach([]*ssa.Function{gf}, load.InModule, nil) {
		reach = append(reach, f)
	}
	sort.Slice(reach, func(i, j int) bool { return reach[i].String() < reach[j].String() })
	for _, f := range reach {
		if f.Signature.Results().Len() != 2 || !strings.HasSuffix(typeStr(f.Signature.Results().At(0).Type()), "bool") {
			continue
		}
		ps, err := c.XO.Paths(f, an.PathOpts{EmitCut: true, MaxPaths: 20000, InlinePaths: c.helperInline(f)})
		if err != nil {
			bad = "paths of " + c.fname(f) + " not enumerable"
			continue
		}
		for _, p := range ps {
			if p.Ret == nil || len(p.Results) != 2 || !exprIsNil(p.Results[1]) {
				continue
			}
			n++
			reads := callsOnPath(p, func(cc *ssa.CallCommon) bool {
				o := an.CalleeObj(cc)
				return o != nil && o.Pkg() != nil && (o.Pkg().Path() == "os" || o.Pkg().Path() == "io/ioutil") && o.Name() == "ReadFile"
			})
			fromRead := p.Results[0].Contains(func(e *an.Expr) bool {
				return e.Op == an.OpCall && e.Fn != nil && (e.Fn.String() == "os.ReadFile" || e.Fn.String() == "io/ioutil.ReadFile")
			})
			if len(reads) == 0 || !fromRead {
				bad = fmt.Sprintf("%s returns %s with %d ReadFile call(s) on the path", c.fname(f), shortExpr(p.Results[0]), len(reads))
			}
		}
	}
	c.R.Check(bad == "" && n >= 1, "R-C04-3", c.fname(gf)+":read-afresh", c.fname(gf), c.pos(gf.Pos()), fmt.Sprintf("%d success path(s) of the forwarding reader; %s", n, bad),
		"the value returned is computed from the sysctl file read on that very call", "a remembered forwarding value is used: RAs keep a non-zero router lifetime after forwarding was switched off")
}
