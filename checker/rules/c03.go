package rules

import (
	"fmt"
	"go/token"
	"go/types"
	"math/big"
	"strings"

	"crverif/internal/an"

	"golang.org/x/tools/go/ssa"
)

func obsRange(o *sinkObs) (an.Rng, bool) {
	if o.undecid != "" {
		return an.Rng{}, false
	}
	if !o.free {
		r := o.env.RangeOf(o.nf)
		return r, r.Lo != nil && r.Hi != nil
	}
	if o.point != nil {
		r := o.env.RangeOf(o.point)
		return r, r.Lo != nil && r.Hi != nil
	}
	var out an.Rng
	if o.lo != nil {
		out.Lo = o.env.RangeOf(o.lo).Lo
	}
	if o.hi != nil {
		out.Hi = o.env.RangeOf(o.hi).Hi
	}
	// the symbol's own refined range may be tighter
	if s, ok := singleSym(o.nf); ok {
		out = out.Intersect(o.env[s])
	}
	return out, out.Lo != nil && out.Hi != nil
}

func runC03(c *Ctx) {
	c03Encodable(c)
	// R-C03-1
	n := 0
	for _, r := range configSinks(c, "R-C03-1") {
		if r.spec.wireMax == nil {
			continue
		}
		seen := map[string]bool{}
		for _, o := range r.obs {
			rg, ok := obsRange(o)
			key := fmt.Sprintf("%s:wire-range@%s", r.spec.sink, o.class)
			okIn := ok && rg.Lo.Sign() >= 0 && rg.Hi.Cmp(r.spec.wireMax) <= 0
			if seen[key] && okIn {
				continue
			}
			seen[key] = true
			n++
			c.R.Check(okIn, "R-C03-1", key, c.fname(r.fn), c.pos(r.fn.Pos()), fmt.Sprintf("%s; numeric range %s", o, rg),
				fmt.Sprintf("within [0, %s] (%s)", r.spec.wireMax.Num(), r.spec.wire),
				"an accepted configuration puts a negative or over-range duration into an RA: it wraps on the wire and means something else")
		}
	}
	c.R.Check(n >= 25, "R-C03-1", "config:wire-sinks", "", "", fmt.Sprintf("%d sink×class obligation(s)", n), ">= 25", "anchor-missing")

	// provenance of the wire fields from those sinks (header: R-C04-1/R-C01-1; options below)
	if f := c.P.Method("internal/plugin", "DNSSL", "Apply"); f != nil {
		checkOptionLiteral(c, "R-C03-1", f, "DNSSearchList", map[string]func(*an.Expr) bool{
			"Lifetime":    func(e *an.Expr) bool { return isRecvField(e, "Lifetime") },
			"DomainNames": func(e *an.Expr) bool { return isRecvField(e, "DomainNames") },
		})
	}

	// R-C03-2 narrowing conversions
	nConv := 0
	for _, fn := range c.srcFuncs() {
		if fn.Pkg == nil || (fn.Pkg.Pkg.Path() != PkgConfig && fn.Pkg.Pkg.Path() != PkgPlugin) {
			continue
		}
		for _, b := range fn.Blocks {
			for _, in := range b.Instrs {
				cv, ok := in.(*ssa.Convert)
				if !ok {
					continue
				}
				tb, ok1 := cv.Type().Underlying().(*types.Basic)
				fb, ok2 := cv.X.Type().Underlying().(*types.Basic)
				if !ok1 || !ok2 || tb.Info()&types.IsInteger == 0 || fb.Info()&types.IsInteger == 0 {
					continue
				}
				tmax := intMax(tb)
				fmax := intMax(fb)
				if tmax == nil || fmax == nil || tmax.Cmp(fmax) >= 0 && (tb.Info()&types.IsUnsigned == 0 || fb.Info()&types.IsUnsigned != 0) {
					continue // not narrowing / not sign-changing
				}
				nConv++
				e := c.XO.Of(cv.X)
				key := fmt.Sprintf("%s:narrow:%s(%s)", c.fname(fn), tb.Name(), shortExpr(e))
				var rg an.Rng
				why := ""
				switch {
				case e.Contains(func(x *an.Expr) bool {
					return x.Op == an.OpCall && x.Fn != nil && x.Fn.String() == "(net/netip.Prefix).Bits"
				}):
					rg, why = an.Rng{Lo: big.NewRat(0, 1), Hi: big.NewRat(128, 1)}, "netip.Prefix.Bits() of a valid prefix"
				case strings.Contains(e.String(), "HopLimit") || fn.Name() == "parseInterface":
					// hop limit: use the path observations of Interface.HopLimit
					rg = an.Rng{}
					for _, r := range configSinks(c, "R-C03-2") {
						if r.spec.sink != "Interface.HopLimit" {
							continue
						}
						for _, o := range r.obs {
							if x, ok := obsRange(o); ok {
								if rg.Lo == nil || x.Lo.Cmp(rg.Lo) < 0 {
									rg.Lo = x.Lo
								}
								if rg.Hi == nil || x.Hi.Cmp(rg.Hi) > 0 {
									rg.Hi = x.Hi
								}
							}
						}
					}
					why = "hop limit after the parser's range check"
				case strings.HasSuffix(typeStr(cv.X.Type()), "plugin.MTU"):
					rg, why = c03MTURange(c), "MTU after the parser's range check"
				case func() bool { _, ok := e.ConstInt(); return ok }():
					k, _ := e.ConstInt()
					rg, why = an.Rng{Lo: new(big.Rat).SetInt64(k), Hi: new(big.Rat).SetInt64(k)}, "constant"
				}
				ok3 := rg.Lo != nil && rg.Hi != nil && rg.Lo.Sign() >= 0 && rg.Hi.Cmp(tmax) <= 0
				c.R.Check(ok3, "R-C03-2", key, c.fname(fn), c.pos(cv.Pos()), fmt.Sprintf("%s(%s) with operand range %s (%s)", tb.Name(), e, rg, why),
					fmt.Sprintf("operand within [0, %s]", tmax.Num()), "a narrowing conversion can truncate an accepted value")
			}
		}
	}
	c.R.Check(nConv >= 3, "R-C03-2", "config+plugin:narrowing-conversions", "", "", fmt.Sprintf("%d narrowing conversion(s)", nConv), ">= 3", "anchor-missing")

	// R-C03-3 PREF64
	c03Pref64(c)
	c03LLA(c)

	// R-C03-4 deprecated countdown shape (shared rule R-C16-1)
	if f := c.P.Method("internal/plugin", "Prefix", "lifetimes"); f != nil {
		c16Lifetimes(c, f, []string{"ValidLifetime", "PreferredLifetime"})
	}
	if f := c.P.Method("internal/plugin", "Route", "lifetime"); f != nil {
		c16Lifetimes(c, f, []string{"Lifetime"})
	}

	// R-C03-5 errors surfaced
	chainCommon(c, "R-C03-5")
	if f := c.P.Method("internal/corerad", "Advertiser", "send"); f != nil {
		errorPropagates(c, "R-C03-5", f, func(e *an.Expr) bool { return exprCallIs(e, PkgSystem, "Conn", "WriteTo") }, "WriteTo")
	}
	if cl := dialClosure(c, "R-C03-5", "Advertiser"); cl != nil {
		errorPropagates(c, "R-C03-5", cl, isCallTo(PkgCorerad, "Advertiser", "send"), "initial-send")
	}
}

func shortExpr(e *an.Expr) string {
	s := e.String()
	if len(s) > 50 {
		s = s[:50]
	}
	return s
}

func intMax(b *types.Basic) *big.Rat {
	switch b.Kind() {
	case types.Uint8:
		return big.NewRat(255, 1)
	case types.Uint16:
		return big.NewRat(65535, 1)
	case types.Uint32:
		return big.NewRat(4294967295, 1)
	case types.Int8:
		return big.NewRat(127, 1)
	case types.Int16:
		return big.NewRat(32767, 1)
	case types.Int32:
		return big.NewRat(2147483647, 1)
	case types.Int, types.Int64:
		return new(big.Rat).SetInt64(1<<63 - 1)
	case types.Uint, types.Uint64, types.Uintptr:
		return new(big.Rat).SetInt(new(big.Int).SetUint64(1<<64 - 1))
	}
	return nil
}

func c03MTURange(c *Ctx) an.Rng {
	pp := c.P.Func("internal/config", "parsePlugins")
	out := an.Rng{}
	if pp == nil {
		return out
	}
	for _, p := range successPaths(c, "R-C03-2", pp, nil) {
		calls := callsOnPath(p, func(cc *ssa.CallCommon) bool { return an.CallIs(cc, PkgPlugin, "", "NewMTU") })
		if len(calls) == 0 {
			continue
		}
		if o := observe(p, p.Of(calls[0].Common().Args[0]), "MTU", nil, an.Env{}, nil); o != nil {
			if x, ok := obsRange(o); ok {
				if out.Lo == nil || x.Lo.Cmp(out.Lo) < 0 {
					out.Lo = x.Lo
				}
				if out.Hi == nil || x.Hi.Cmp(out.Hi) > 0 {
					out.Hi = x.Hi
				}
			} else {
				return an.Rng{}
			}
		}
	}
	// NewMTU stores its argument unchanged
	return out
}

func c03Pref64(c *Ctx) {
	pp := c.P.Func("internal/config", "parsePlugins")
	if pp != nil {
		fn := c.fname(pp)
		ps, _ := c.XO.Paths(pp, an.PathOpts{MaxPaths: 400000, EmitCut: true, InlinePaths: c.helperInline(pp)})
		nCalls := 0
		bad := ""
		for _, p := range ps {
			calls := callsOnPath(p, func(cc *ssa.CallCommon) bool { return an.CallIs(cc, PkgPlugin, "", "NewPREF64") })
			if len(calls) == 0 {
				continue
			}
			nCalls++
			prefix := p.Of(calls[0].Common().Args[0])
			b, idx := stripExtract(prefix)
			okSrc := idx == 0 && exprCallIs(b, PkgConfig, "", "parseIPPrefix")
			okLen := false
			for _, a := range p.Atoms {
				x, set, member, ok := c.memberAtom(a)
				if ok && member && x.Op == an.OpCall && x.Fn != nil && x.Fn.String() == "(net/netip.Prefix).Bits" && sameValue(x.Args[0], prefix) {
					all := len(set) > 0
					for _, k := range set {
						switch k {
						case 32, 40, 48, 56, 64, 96:
						default:
							all = false
						}
					}
					if all {
						okLen = true
					}
				}
			}
			if !okSrc || !okLen {
				bad = fmt.Sprintf("NewPREF64(%s) under %s", prefix, atomsString(p))
			}
		}
		c.R.Check(bad == "" && nCalls >= 1, "R-C03-3", fn+":pref64-prefix-encodable", fn, c.pos(pp.Pos()), fmt.Sprintf("%d path(s) to NewPREF64; counterexample: %q", nCalls, bad),
			"the prefix is result #0 of parseIPPrefix (IPv6, canonical) and the path established Bits() ∈ {32,40,48,56,64,96}", "a pref64 prefix that cannot be encoded (or changes meaning on the wire) is accepted")
	}
	// every prefix the shared helper lets through is IPv6 and not IPv4-mapped: ndp refuses to decode
	// an IPv4-mapped prefix/route/pref64 option, so an RA carrying one does not survive the wire
	if ipp := c.needFunc("R-C03-3", "internal/config", "parseIPPrefix"); ipp != nil {
		nOK, bad := 0, ""
		for _, p := range c.pathsO("R-C03-3", ipp, an.PathOpts{}) {
			if p.Ret == nil || len(p.Results) != 2 || !exprIsNil(p.Results[1]) || exprIsZero(p.Results[0]) {
				continue
			}
			res := p.Results[0]
			is6, not4in6 := false, false
			for _, a := range p.Atoms {
				e := a.Cond
				if e.Op != an.OpCall || e.Fn == nil || len(e.Args) != 1 {
					continue
				}
				onRes := e.Args[0].Op == an.OpCall && e.Args[0].Fn != nil && e.Args[0].Fn.String() == "(net/netip.Prefix).Addr" && sameValue(e.Args[0].Args[0], res)
				if !onRes {
					continue
				}
				switch e.Fn.String() {
				case "(net/netip.Addr).Is6":
					is6 = a.Pos
				case "(net/netip.Addr).Is4In6":
					not4in6 = !a.Pos
				}
			}
			if is6 && not4in6 {
				nOK++
			} else {
				bad = fmt.Sprintf("returns %s with Is6 established=%v, Is4In6 excluded=%v", res, is6, not4in6)
			}
		}
		c.R.Check(bad == "" && nOK >= 1, "R-C03-3", c.fname(ipp)+":ipv6-not-mapped", c.fname(ipp), c.pos(ipp.Pos()), fmt.Sprintf("%d accepting path(s); %s", nOK, bad),
			"every accepted prefix has Addr().Is6() and not Addr().Is4In6()", "an IPv4-mapped prefix is accepted; the option it produces cannot be decoded")
	}
	// lifetime range
	np := c.needFunc("R-C03-3", "internal/plugin", "NewPREF64")
	if np == nil {
		return
	}
	if k := c.P.TypesPkg("internal/plugin").Types.Scope().Lookup("maxPref64Lifetime"); k != nil {
		c.R.Check(constVal(k) == 8191*8*nsS, "R-C03-3", "plugin.maxPref64Lifetime", "", c.pos(k.Pos()), fmt.Sprintf("%dns", constVal(k)), "8191·8s (13-bit scaled lifetime)", "PREF64 lifetime cap differs from RFC 8781")
	}
	env := an.Env{"$" + np.Params[1].Name(): an.Rng{Lo: ratS(4), Hi: ratS(1800)}}
	for _, fs := range an.FindFieldStores([]*ssa.Function{np}, PkgNDP, "PREF64", "Lifetime") {
		e := c.X.Of(fs.Store.Val)
		rg, ok := an.EvalRange(e, env)
		hi := new(big.Rat).SetInt64(8191 * 8 * nsS)
		c.R.Check(ok && rg.Lo.Sign() >= 0 && rg.Hi.Cmp(hi) <= 0, "R-C03-3", c.fname(np)+":lifetime-range", c.fname(np), c.pos(fs.Store.Pos()), fmt.Sprintf("Lifetime = %s ∈ %s for max_interval ∈ [4s,1800s]", shortExpr(e), rg),
			"within [0, 65528s]", "PREF64 lifetime does not fit the 13-bit scaled field")
	}
	// every other writer of the option's lifetime: the stored value must be bounded by its own expression
	// (constants, min/max clamps) — a value that arrives through a parameter is not
	var others []*ssa.Function
	for _, fn := range c.srcFuncs() {
		if fn != np && fn.Pkg != nil && strings.HasPrefix(fn.Pkg.Pkg.Path(), Mod) {
			others = append(others, fn)
		}
	}
	for _, fs := range an.FindFieldStores(others, PkgNDP, "PREF64", "Lifetime") {
		e := c.X.Of(fs.Store.Val)
		rg, ok := an.EvalRange(e, an.Env{})
		hi := new(big.Rat).SetInt64(8191 * 8 * nsS)
		okIn := ok && rg.Lo != nil && rg.Hi != nil && rg.Lo.Sign() >= 0 && rg.Hi.Cmp(hi) <= 0
		wfn := fs.Store.Parent()
		c.R.Check(okIn, "R-C03-3", c.fname(wfn)+":lifetime-range", c.fname(wfn), c.pos(fs.Store.Pos()), fmt.Sprintf("Lifetime = %s ∈ %s", shortExpr(e), rg),
			"within [0, 65528s] by construction", "PREF64 lifetime written outside NewPREF64 is not bounded to the 13-bit scaled field: the option fails to encode")
	}
}

// c03LLA (R-C03-4): the source link-layer address option is only emitted for
// an address package ndp can encode (exactly 6 bytes): on every path of
// LLA.Apply that appends the option, len(Addr) == 6 has been established.
// The hardware address is system state, not configuration, so the parser
// cannot exclude other lengths.
func c03LLA(c *Ctx) {
	ap := c.needMethod("R-C03-4", "internal/plugin", "LLA", "Apply")
	if ap == nil {
		return
	}
	fn := c.fname(ap)
	n := 0
	for _, p := range c.pathsO("R-C03-4", ap, an.PathOpts{}) {
		emits := false
		p.Instrs(func(in ssa.Instruction) {
			if mi, ok := in.(*ssa.MakeInterface); ok && strings.HasSuffix(typeStr(mi.X.Type()), "ndp.LinkLayerAddress") {
				emits = true
			}
		})
		if !emits {
			continue
		}
		n++
		okLen := false
		for _, a := range p.Atoms {
			x, y, op, ok := effCmp(a)
			if ok && op == token.EQL && x.Op == an.OpLen && x.Args[0].IsField("Addr") {
				if k, isC := y.ConstInt(); isC && k == 6 {
					okLen = true
				}
			}
		}
		c.R.Check(okLen, "R-C03-4", fn+":option-only-for-6-byte-address", fn, c.pos(ap.Pos()), fmt.Sprintf("len(Addr) == 6 established before the option is appended: %v", okLen),
			"the option is appended only for a 6 byte hardware address", "on an interface with another hardware address length (IPoIB, IEEE 1394) the RA cannot be encoded: nothing is advertised")
	}
	c.R.Check(n >= 1, "R-C03-4", fn+":emitting-paths", fn, c.pos(ap.Pos()), fmt.Sprintf("%d emitting path(s)", n), ">= 1", "anchor-missing")
}
