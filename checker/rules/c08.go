package rules

import (
	"fmt"
	"go/token"
	"go/types"
	"sort"
	"strings"

	"crverif/internal/an"
	"crverif/internal/load"

	"golang.org/x/tools/go/ssa"
)

func init() {
	register(&RuleSet{
		Property:   "C08",
		AllConfigs: true,
		Explanation: "PATH/GUARD/SEE/STRUCT rules: R-C08-1 in Advertiser.Run's dial closure shutdown() runs exactly once, only on the errors.Is(err, context.Canceled) arm, and is followed only by `return nil`; " +
			"R-C08-2 shutdown sends exactly one RA, only under terminate()==true, to all-nodes, built from a copy of a.cfg whose only changed field is DefaultLifetime=0, and has no error result; nothing writes Advertiser.cfg after construction; " +
			"R-C08-3 terminate is the server terminator's method, terminator.set stores isTerminal(sig), isTerminal is `s != SIGHUP` (unix) / true (windows), Signals() includes SIGHUP on unix; " +
			"R-C08-4 every exit of schedule() waits for the scheduled-task group first, the error arm cancelling before waiting; " +
			"R-C08-5 a transmission in flight when the scheduler stops is awaited before schedule() returns: either the group's Wait provably waits for running tasks (decided on the library's own SSA: every returning path passes through WaitGroup.Wait) or a reader/writer barrier exists (workers hold an RWMutex for reading around the transmission and re-check the context, every exit write-locks it); " +
			"R-C08-6 every send of a request to the scheduler is an arm of a blocking select with ctx.Done(); task closures are followed through factories to the Delay call; R-C08-4 also: every schedgroup Delay/Schedule call is made by a named function or a closure that is only ever called directly, never from a function value that may itself run as a task (Delay after Wait panics)",
		Assumptions: []string{
			"Go type checker and go/ssa construction are correct",
			"sync.RWMutex and sync.WaitGroup behave as documented",
		},
		NotCovered: []string{"promptness in real time"},
		Run:        runC08,
	})
}

// dialClosure returns the closure passed to Dialer.Dial inside method Run of typ.
func dialClosure(c *Ctx, rule, typ string) *ssa.Function {
	run := c.needMethod(rule, "internal/corerad", typ, "Run")
	if run == nil {
		return nil
	}
	for _, ci := range an.CallsIn(run) {
		if an.CallIs(ci.Common(), PkgSystem, "Dialer", "Dial") {
			args := ci.Common().Args
			if mc, ok := args[len(args)-1].(*ssa.MakeClosure); ok {
				return mc.Fn.(*ssa.Function)
			}
		}
	}
	c.R.Fail(rule, c.fname(run)+":dial-closure", c.fname(run), c.pos(run.Pos()), "no closure passed to Dialer.Dial", "Run dials and runs its task in a closure", "anchor-missing")
	return nil
}

func isAllNodesCall(e *an.Expr) bool {
	return e.Op == an.OpCall && e.Fn != nil && e.Fn.String() == "net/netip.IPv6LinkLocalAllNodes"
}

func runC08(c *Ctx) {
	// R-C08-1
	if cl := dialClosure(c, "R-C08-1", "Advertiser"); cl != nil {
		fn := c.fname(cl)
		ps := c.pathsO("R-C08-1", cl, an.PathOpts{EmitCut: true})
		nCancel := 0
		for _, p := range ps {
			var seq []string
			p.Instrs(func(in ssa.Instruction) {
				ci, ok := in.(ssa.CallInstruction)
				if !ok {
					return
				}
				f := an.CalleeObj(ci.Common())
				switch {
				case an.ObjIs(f, PkgCorerad, "Advertiser", "advertise"):
					seq = append(seq, "advertise")
				case an.ObjIs(f, PkgCorerad, "Advertiser", "shutdown"):
					seq = append(seq, "shutdown")
				case an.ObjIs(f, PkgCorerad, "Advertiser", "send"):
					seq = append(seq, "send")
				case an.ObjIs(f, PkgCorerad, "Advertiser", "sendWorker"):
					seq = append(seq, "sendWorker")
				}
			})
			canceled, tested := false, false
			for _, a := range p.Atoms {
				e := a.Cond
				if e.Op == an.OpCall && e.Fn != nil && e.Fn.String() == "errors.Is" && len(e.Args) == 2 &&
					exprCallIs(e.Args[0], PkgCorerad, "Advertiser", "advertise") && e.Args[1].Op == an.OpGlobal && e.Args[1].Name == "context.Canceled" {
					tested = true
					canceled = a.Pos
				}
			}
			s := strings.Join(seq, ",")
			if !strings.Contains(s, "advertise") {
				// before advertise: at most the initial send
				continue
			}
			// the "advertise must never return nil" panic may be tested before or after the cancellation test
			nilPanic := false
			if p.Panic != nil {
				for _, a := range p.Atoms {
					x, y, op, ok := effCmp(a)
					if ok && exprIsNil(y) && op == token.EQL && exprCallIs(x, PkgCorerad, "Advertiser", "advertise") {
						nilPanic = true
					}
				}
			}
			if nilPanic && s == "send,advertise" {
				continue
			}
			key := fmt.Sprintf("%s:after-advertise@canceled=%v:%s", fn, canceled, pathKind(p))
			want := "send,advertise"
			if canceled {
				nCancel++
				want = "send,advertise,shutdown"
			}
			okRet := true
			if canceled {
				okRet = p.Ret != nil && len(p.Results) == 1 && exprIsNil(p.Results[0])
			} else if p.Ret != nil {
				// any other return after advertise must report the error
				okRet = len(p.Results) == 1 && !exprIsNil(p.Results[0])
			}
			c.R.Check(s == want && tested && okRet, "R-C08-1", key, fn, c.pos(cl.Pos()),
				fmt.Sprintf("calls=[%s] cancellation tested=%v returns=%v", s, tested, exprStrings(p.Results)),
				"after advertise returns: shutdown() exactly once iff errors.Is(err, context.Canceled), then `return nil`; otherwise no transmission and the error is returned",
				"final-RA logic runs on the wrong arm, more than once, or the stop is not reported as success")
		}
		c.R.Check(nCancel >= 1, "R-C08-1", fn+":cancel-arm", fn, c.pos(cl.Pos()), fmt.Sprintf("%d cancellation path(s)", nCancel), ">= 1", "anchor-missing")
	}

	// R-C08-2
	if sd := c.needMethod("R-C08-2", "internal/corerad", "Advertiser", "shutdown"); sd != nil {
		fn := c.fname(sd)
		c.R.Check(sd.Signature.Results().Len() == 0, "R-C08-2", fn+":no-result", fn, c.pos(sd.Pos()),
			fmt.Sprintf("%d results", sd.Signature.Results().Len()), "shutdown cannot fail the stop (no result)", "a failed final RA would make the stop report an error")
		ps := c.pathsO("R-C08-2", sd, an.PathOpts{EmitCut: true})
		for _, p := range ps {
			var sends []ssa.CallInstruction
			p.Instrs(func(in ssa.Instruction) {
				if ci, ok := in.(ssa.CallInstruction); ok {
					if an.CallIs(ci.Common(), PkgCorerad, "Advertiser", "send") || an.CallIs(ci.Common(), PkgSystem, "Conn", "WriteTo") ||
						an.CallIs(ci.Common(), PkgCorerad, "Advertiser", "sendWorker") {
						sends = append(sends, ci)
					}
				}
			})
			term, tested := false, false
			for _, a := range p.Atoms {
				e := a.Cond
				if e.Op == an.OpCall && strings.HasPrefix(e.Name, "dyn:") && len(e.Args) >= 1 && e.Args[0].IsField("terminate") {
					tested = true
					term = a.Pos
				}
			}
			key := fmt.Sprintf("%s:final-ra@terminate=%v:%s", fn, term, lastAtomName(p))
			if !term {
				c.R.Check(len(sends) == 0 && tested && p.Panic == nil, "R-C08-2", key, fn, c.pos(sd.Pos()),
					fmt.Sprintf("%d transmission(s), terminate() tested=%v", len(sends), tested),
					"no RA is sent unless terminate() returned true", "a final zero-lifetime RA is sent on reload (SIGHUP): hosts drop their default route across the restart")
				continue
			}
			ok := len(sends) == 1 && an.CallIs(sends[0].Common(), PkgCorerad, "Advertiser", "send")
			fact := fmt.Sprintf("%d transmission(s)", len(sends))
			if ok {
				args := sends[0].Common().Args
				dst, cfg := p.Of(args[len(args)-2]), p.Of(args[len(args)-1])
				okDst := isAllNodesCall(dst)
				okCfg := cfg.Op == an.OpStruct
				var diffs []string
				if okCfg {
					st := cfg.Typ.Underlying().(*types.Struct)
					for i, f := range cfg.Args {
						name := st.Field(i).Name()
						if f == nil {
							okCfg = false
							continue
						}
						if name == "DefaultLifetime" {
							if k, isC := f.ConstInt(); !isC || k != 0 {
								okCfg = false
								diffs = append(diffs, name+"="+f.String())
							}
							continue
						}
						root, path := f.FieldPath()
						if !(len(path) == 2 && path[0] == "cfg" && path[1] == name && root.Op == an.OpParam) {
							okCfg = false
							diffs = append(diffs, name+"="+f.String())
						}
					}
				}
				ok = okDst && okCfg
				fact = fmt.Sprintf("send(dst=%s, cfg: copy of a.cfg with DefaultLifetime=0: %v %v)", dst, okCfg, diffs)
			}
			c.R.Check(ok && tested, "R-C08-2", key, fn, c.pos(sd.Pos()), fact,
				"exactly one send, to IPv6LinkLocalAllNodes(), with a copy of a.cfg in which only DefaultLifetime is changed (to 0)",
				"the final RA is missing, duplicated, sent elsewhere, or differs from the normal RA in more than the router lifetime")
		}
		c.R.Floor("R-C08-2", 3)
	}
	// nothing stores into Advertiser.cfg after construction
	for _, fn := range c.srcFuncs() {
		for _, b := range fn.Blocks {
			for _, in := range b.Instrs {
				st, ok := in.(*ssa.Store)
				if !ok {
					continue
				}
				var cur ssa.Value = st.Addr
				hit := false
				for {
					fa, ok := cur.(*ssa.FieldAddr)
					if !ok {
						break
					}
					if an.FieldAddrIs(fa, PkgCorerad, "Advertiser", "cfg") && !isFreshObject(fa.X) {
						hit = true
					}
					cur = fa.X
				}
				if hit {
					c.R.Fail("R-C08-2", c.fname(fn)+":writes-Advertiser.cfg", c.fname(fn), c.pos(st.Pos()), "store into Advertiser.cfg",
						"a.cfg is immutable after NewAdvertiser (pending workers must not observe a zeroed lifetime)", "shared advertiser configuration mutated")
				}
			}
		}
	}

	// R-C08-3
	c08Terminator(c)

	// R-C08-4
	scheduleExits(c, "R-C08-4")
	scheduledOnly(c, "R-C08-4")
	tasksDoNotSchedule(c, "R-C08-4")
	inFlightAwaited(c, "R-C08-5")
	requestChannelSends(c, "R-C08-6")
	c08WatchClosed(c)
	signalOrder(c, "R-C08-3")
}

// scheduleExits: every exit of schedule() waits for the scheduled-task group;
// the worker-error arm cancels first, waits, and returns the worker's error.
func scheduleExits(c *Ctx, rule string) {
	if sch := c.needMethod(rule, "internal/corerad", "Advertiser", "schedule"); sch != nil {
		fn := c.fname(sch)
		ps := c.pathsO(rule, sch, an.PathOpts{EmitCut: true})
		n := 0
		for _, p := range ps {
			if p.Ret == nil {
				continue
			}
			n++
			var seq []string
			p.Instrs(func(in ssa.Instruction) {
				ci, ok := in.(ssa.CallInstruction)
				if !ok {
					return
				}
				if _, isDefer := in.(*ssa.Defer); isDefer {
					return
				}
				cc := ci.Common()
				if f := an.CalleeObj(cc); f != nil && f.Name() == "Wait" && f.Pkg() != nil && f.Pkg().Path() == "github.com/mdlayher/schedgroup" {
					seq = append(seq, "Wait")
				} else if !cc.IsInvoke() {
					if e := p.Of(cc.Value); e.Op == an.OpExtract && e.Idx == 1 && e.Args[0].Op == an.OpCall && e.Args[0].Fn != nil && e.Args[0].Fn.String() == "context.WithCancel" {
						seq = append(seq, "cancel")
					}
				}
			})
			arm := "done"
			for _, a := range selectArmsOf(p) {
				if a.recvElemIsError {
					arm = "error"
				}
			}
			s := strings.Join(seq, ",")
			want := "Wait"
			if arm == "error" {
				want = "cancel,Wait"
			}
			okErr := true
			if arm == "error" {
				okErr = len(p.Results) == 1 && p.Results[0].Op == an.OpRecv
			}
			c.R.Check(s == want && okErr, rule, fmt.Sprintf("%s:exit@%s-arm:%s", fn, arm, lastAtomName(p)), fn, c.pos(p.Ret.Pos()),
				fmt.Sprintf("calls before return=[%s], returns %v", s, exprStrings(p.Results)),
				"every exit waits for the scheduled-task group; a worker error cancels first, waits, and is returned",
				"schedule returns while delayed transmissions may still fire")
		}
		c.R.Check(n >= 3, rule, fn+":exits", fn, c.pos(sch.Pos()), fmt.Sprintf("%d return path(s)", n), ">= 3", "anchor-missing")
	}
}

// scheduledOnly: every transmission by a worker is scheduled through the
// schedgroup that schedule() creates from its own cancelable context and
// waits for on exit — nothing can fire after schedule has returned.
func scheduledOnly(c *Ctx, rule string) {
	sch := c.P.Method("internal/corerad", "Advertiser", "schedule")
	if sch == nil {
		return
	}
	n := 0
	// every closure nested in schedule (or in a helper that only schedule reaches) that transmits
	var closures []*ssa.Function
	var collect func(f *ssa.Function)
	collect = func(f *ssa.Function) {
		for _, a := range f.AnonFuncs {
			closures = append(closures, a)
			collect(a)
		}
	}
	collect(sch)
	for _, f := range c.srcFuncs() {
		if f.Parent() == nil && f != sch && !anchorFuncs[c.fname(f)] {
			if ok, _ := c.reachedOnlyFrom(f, func(root *ssa.Function) bool { return root == sch }); ok && len(c.callersOf()[f]) > 0 {
				collect(f)
			}
		}
	}
	for _, cl := range closures {
		calls := false
		for _, ci := range an.CallsIn(cl) {
			if an.CallIs(ci.Common(), PkgCorerad, "Advertiser", "sendWorker") || an.CallIs(ci.Common(), PkgCorerad, "Advertiser", "send") {
				calls = true
			}
		}
		if !calls {
			continue
		}
		n++
		ok := false
		fact := "closure not handed to the scheduler"
		if site, isMC := closureSite(cl.Parent(), cl).(*ssa.MakeClosure); isMC && site.Referrers() != nil {
			// the closure (or the result of the factory that returns it) must flow only into Delay
			delays, other := c.delayUses(site, 0)
			if other != "" {
				fact = other
			}
			ok = len(delays) > 0 && other == ""
			for _, ci := range delays {
				f := an.CalleeObj(ci.Common())
				grp := c.XO.Of(ci.Common().Args[0])
				okGrp := grp.Op == an.OpCall && grp.Fn != nil && grp.Fn.String() == "github.com/mdlayher/schedgroup.New" && len(grp.Args) == 1 &&
					grp.Args[0].Contains(func(e *an.Expr) bool {
						return e.Op == an.OpCall && e.Fn != nil && e.Fn.String() == "context.WithCancel"
					})
				if !okGrp {
					ok = false
				}
				fact = "scheduled with " + f.FullName() + " on " + grp.String()
			}
		}
		c.R.Check(ok, rule, c.fname(cl)+":scheduled-on-waited-group", c.fname(cl), c.pos(cl.Pos()), fact,
			"worker closures run only as schedgroup tasks of the group bound to schedule()'s cancelable context (which every exit waits for)",
			"a pending transmission is not bound to the scheduler: it can fire after the final RA and after Run has returned")
	}
	c.R.Check(n >= 1, rule, c.fname(sch)+":worker-closures", c.fname(sch), c.pos(sch.Pos()), fmt.Sprintf("%d worker closure(s)", n), ">= 1 (2 confirmed by reading: unicast, multicast)", "anchor-missing")
}

// delayUses follows a task value (a closure, or the result of a call to a
// factory that returns it) to the schedgroup Delay calls it is handed to.
// other is non-empty when the value is used in any other way.
func (c *Ctx) delayUses(v ssa.Value, depth int) (delays []ssa.CallInstruction, other string) {
	if v.Referrers() == nil || depth > 3 {
		return nil, "task value has no tracked uses"
	}
	for _, r := range *v.Referrers() {
		switch r := r.(type) {
		case *ssa.DebugRef:
		case *ssa.Return:
			// returned by a factory: every call of the factory is followed in turn
			f := r.Parent()
			n := 0
			for _, caller := range c.srcFuncs() {
				for _, ci := range an.CallsIn(caller) {
					if an.StaticCallee(ci.Common()) != f {
						continue
					}
					n++
					val, isVal := ci.(ssa.Value)
					if !isVal {
						return delays, "factory " + c.fname(f) + " started with go/defer"
					}
					d2, o2 := c.delayUses(val, depth+1)
					delays = append(delays, d2...)
					if o2 != "" {
						other = o2
					}
				}
			}
			if n == 0 {
				other = "closure returned by " + c.fname(f) + ", which nothing calls statically"
			}
		case ssa.CallInstruction:
			fo := an.CalleeObj(r.Common())
			args := r.Common().Args
			if fo != nil && fo.Name() == "Delay" && fo.Pkg() != nil && fo.Pkg().Path() == "github.com/mdlayher/schedgroup" && len(args) > 0 && args[len(args)-1] == v {
				delays = append(delays, r)
			} else if fo != nil {
				other = "closure passed to " + fo.FullName()
			} else {
				other = "closure called or passed to a dynamic call"
			}
		default:
			other = fmt.Sprintf("closure used by %T", r)
		}
	}
	return delays, other
}

type selArmInfo struct {
	sel             *ssa.Select
	idx             int
	recvElemIsError bool
	chanExpr        string
}

// selectArmsOf lists the select cases taken on a path.
func selectArmsOf(p *an.Path) []selArmInfo {
	var out []selArmInfo
	for _, a := range p.Atoms {
		if !a.Pos || a.Cond.Op != an.OpBin || a.Cond.Tok != token.EQL {
			continue
		}
		x, y := a.Cond.Args[0], a.Cond.Args[1]
		sel, ok := x.V.(*ssa.Select)
		if !ok || x.Name != "select.index" {
			continue
		}
		k, isC := y.ConstInt()
		if !isC || int(k) >= len(sel.States) || k < 0 {
			continue
		}
		st := sel.States[k]
		info := selArmInfo{sel: sel, idx: int(k), chanExpr: p.Of(st.Chan).String()}
		if ch, ok := st.Chan.Type().Underlying().(*types.Chan); ok {
			info.recvElemIsError = st.Dir == types.RecvOnly && types.TypeString(ch.Elem(), nil) == "error"
		}
		out = append(out, info)
	}
	return out
}

// sendEv is a channel send performed on a path: a Send instruction, or the send
// case of a select that was taken.
type sendEv struct {
	Chan, X ssa.Value
	Pos     token.Pos
	Sel     *ssa.Select // nil for a bare send
}

func sendsOn(p *an.Path) []sendEv {
	var out []sendEv
	p.Instrs(func(in ssa.Instruction) {
		if s, ok := in.(*ssa.Send); ok {
			out = append(out, sendEv{Chan: s.Chan, X: s.X, Pos: s.Pos()})
		}
	})
	for _, a := range selectArmsOf(p) {
		if st := a.sel.States[a.idx]; st.Dir == types.SendOnly {
			out = append(out, sendEv{Chan: st.Chan, X: st.Send, Pos: st.Pos, Sel: a.sel})
		}
	}
	return out
}

// stoppedBySelect reports whether the path took a ctx.Done() case of a select
// that also offered a send (the sender gave up because the task is stopping).
func stoppedBySelect(p *an.Path) bool {
	for _, a := range selectArmsOf(p) {
		st := a.sel.States[a.idx]
		if st.Dir != types.RecvOnly || !strings.Contains(a.chanExpr, "Done(") {
			continue
		}
		for _, o := range a.sel.States {
			if o.Dir == types.SendOnly {
				return true
			}
		}
	}
	return false
}

func c08Terminator(c *Ctx) {
	// BuildTasks passes the server terminator's bound method.
	for _, s := range an.FindCalls(c.srcFuncs(), func(cc *ssa.CallCommon) bool { return an.CallIs(cc, PkgCorerad, "", "NewAdvertiser") }) {
		args := s.Common().Args
		e := c.XO.Of(args[len(args)-1])
		ok := e.Op == an.OpClosure && e.Fn != nil && an.ObjIs(an.FuncObj(e.Fn), PkgCorerad, "terminator", "terminate") &&
			len(e.Args) == 1 && e.Args[0].IsField("t")
		c.R.Check(ok, "R-C08-3", c.fname(s.Fn)+":terminate-argument", c.fname(s.Fn), c.pos(s.Pos()), "terminate = "+e.String(),
			"NewAdvertiser receives s.t.terminate (the server's own terminator)", "advertiser consults something other than the server's terminator")
	}
	c.R.Floor("R-C08-3", 1)
	// NewAdvertiser stores its parameter into the field unchanged.
	if na := c.needFunc("R-C08-3", "internal/corerad", "NewAdvertiser"); na != nil {
		for _, fs := range an.FindFieldStores([]*ssa.Function{na}, PkgCorerad, "Advertiser", "terminate") {
			e := c.XO.Of(fs.Store.Val)
			c.R.Check(e.Op == an.OpParam && e.Name == "terminate", "R-C08-3", c.fname(na)+":stores-terminate", c.fname(na), c.pos(fs.Store.Pos()),
				"Advertiser.terminate ⇐ "+e.String(), "the terminate parameter", "terminate hook replaced")
		}
	}
	for _, fs := range an.FindFieldStores(c.srcFuncs(), PkgCorerad, "Advertiser", "terminate") {
		c.R.Check(c.fname(fs.Fn) == "corerad.NewAdvertiser", "R-C08-3", c.fname(fs.Fn)+":writes-Advertiser.terminate", c.fname(fs.Fn), c.pos(fs.Store.Pos()),
			"writer "+c.fname(fs.Fn), "only NewAdvertiser", "terminate hook replaced after construction")
	}
	// terminator.set stores isTerminal(sig); terminate returns the field.
	if set := c.needMethod("R-C08-3", "internal/corerad", "terminator", "set"); set != nil {
		n := 0
		for _, fs := range an.FindFieldStores(c.srcFuncs(), PkgCorerad, "terminator", "term") {
			n++
			e := c.XO.Of(fs.Store.Val)
			ok := fs.Fn == set && exprCallIs(e, PkgCorerad, "", "isTerminal") && len(e.Args) == 1 && e.Args[0].Op == an.OpParam
			c.R.Check(ok, "R-C08-3", c.fname(fs.Fn)+":stores-term", c.fname(fs.Fn), c.pos(fs.Store.Pos()), "term ⇐ "+e.String(),
				"terminator.term is written only by set, with isTerminal(<its signal parameter>)", "terminate/reload decision not derived from the signal")
		}
		c.R.Check(n == 1, "R-C08-3", "corerad.terminator:term-writers", "", "", fmt.Sprintf("%d store(s)", n), "exactly 1", "unexpected writers of terminator.term")
	}
	if tm := c.needMethod("R-C08-3", "internal/corerad", "terminator", "terminate"); tm != nil {
		for _, r := range an.Returns(tm) {
			e := c.XO.Of(r.Results[0])
			c.R.Check(e.IsField("term"), "R-C08-3", c.fname(tm)+":returns-term", c.fname(tm), c.pos(r.Pos()), "returns "+e.String(), "t.term", "terminate() does not report the recorded decision")
		}
	}
	// isTerminal per configuration.
	if it := c.needFunc("R-C08-3", "internal/corerad", "isTerminal"); it != nil {
		// s compared with SIGHUP: (tok, true) when e is `s ==/!= syscall.SIGHUP`
		hupCmp := func(e *an.Expr) (token.Token, bool) {
			if e.Op != an.OpBin || (e.Tok != token.NEQ && e.Tok != token.EQL) {
				return 0, false
			}
			x, y := e.Args[0], e.Args[1]
			if y.Op == an.OpParam {
				x, y = y, x
			}
			k, isC := y.ConstInt()
			if x.Op == an.OpParam && isC && k == 1 && strings.HasSuffix(typeStr(y.Typ), "syscall.Signal") {
				return e.Tok, true
			}
			return 0, false
		}
		nHup := 0
		for _, p := range c.pathsO("R-C08-3", it, an.PathOpts{}) {
			if p.Ret == nil {
				continue
			}
			e := p.Results[0]
			var ok bool
			want := "s != syscall.SIGHUP"
			state := "any"
			if c.P.Cfg.GOOS == "windows" {
				want = "true"
				ok = e.IsConst("true")
			} else {
				// what the path knows about s
				hup, known, otherTests := false, false, false
				for _, a := range p.Atoms {
					if tok, isCmp := hupCmp(a.Cond); isCmp {
						known = true
						hup = (tok == token.EQL) == a.Pos
					} else {
						otherTests = true
					}
				}
				switch {
				case known && hup:
					state = "s=SIGHUP"
					nHup++
					ok = e.IsConst("false")
				case known && !hup:
					state = "s≠SIGHUP"
					ok = e.IsConst("true")
				default:
					if tok, isCmp := hupCmp(e); isCmp && tok == token.NEQ && !otherTests {
						ok = true
						nHup++
					}
				}
				if tok, isCmp := hupCmp(e); isCmp && tok == token.NEQ && !known && !otherTests {
					ok = true
				}
			}
			c.R.Check(ok, "R-C08-3", c.fname(it)+":definition@"+state, c.fname(it), c.pos(p.Ret.Pos()), "isTerminal(s) = "+e.String()+" under "+state, want,
				"which signals mean terminate vs. reload is wrong: SIGHUP must be the only reload signal")
		}
		if c.P.Cfg.GOOS != "windows" {
			c.R.Check(nHup >= 1, "R-C08-3", c.fname(it)+":reload-case", c.fname(it), c.pos(it.Pos()), fmt.Sprintf("%d path(s) decide SIGHUP", nHup), ">= 1", "SIGHUP is not recognised as the reload signal")
		}
	}
	if sg := c.needFunc("R-C08-3", "internal/corerad", "Signals"); sg != nil && c.P.Cfg.GOOS != "windows" {
		for _, r := range an.Returns(sg) {
			e := c.XO.Of(r.Results[0])
			has := e.Contains(func(x *an.Expr) bool {
				k, isC := x.ConstInt()
				return isC && k == 1 && strings.HasSuffix(typeStr(x.Typ), "syscall.Signal")
			})
			c.R.Check(has, "R-C08-3", c.fname(sg)+":includes-SIGHUP", c.fname(sg), c.pos(r.Pos()), "Signals() = "+e.String(), "contains syscall.SIGHUP",
				"SIGHUP is not handled: a reload kills the process without the reload semantics")
		}
	}
}

// resolveCaptured follows a captured variable (FreeVar) of a closure through
// the chain of closure creation sites to the local variable it denotes.
func resolveCaptured(v ssa.Value) ssa.Value {
	for depth := 0; depth < 6; depth++ {
		fv, ok := v.(*ssa.FreeVar)
		if !ok {
			return v
		}
		f := fv.Parent()
		if f == nil || f.Parent() == nil {
			return v
		}
		idx := -1
		for i, x := range f.FreeVars {
			if x == fv {
				idx = i
			}
		}
		mc, ok := closureSite(f.Parent(), f).(*ssa.MakeClosure)
		if !ok || idx < 0 || idx >= len(mc.Bindings) {
			return v
		}
		v = mc.Bindings[idx]
	}
	return v
}

// libraryWaitWaits reports whether every returning path of
// schedgroup.(*Group).Wait passes through sync.(*WaitGroup).Wait, i.e. whether
// the library's Wait can be relied on to wait for tasks that are running.
func (c *Ctx) libraryWaitWaits() (bool, string) {
	var wait *ssa.Function
	for _, pkg := range c.P.SSA.AllPackages() {
		if pkg.Pkg.Path() != "github.com/mdlayher/schedgroup" {
			continue
		}
		if t := pkg.Type("Group"); t != nil {
			wait = c.P.SSA.LookupMethod(types.NewPointer(t.Type()), pkg.Pkg, "Wait")
		}
	}
	if wait == nil || wait.Blocks == nil {
		return false, "schedgroup.(*Group).Wait not found in the loaded program"
	}
	ps, err := c.XO.Paths(wait, an.PathOpts{EmitCut: true, MaxPaths: 10000})
	if err != nil {
		return false, "paths of schedgroup Wait not enumerable: " + err.Error()
	}
	nRet, nBare := 0, 0
	for _, p := range ps {
		if p.Ret == nil {
			continue
		}
		nRet++
		waits := callsOnPath(p, func(cc *ssa.CallCommon) bool {
			f := an.CalleeObj(cc)
			return f != nil && f.Name() == "Wait" && f.Pkg() != nil && f.Pkg().Path() == "sync"
		})
		if len(waits) == 0 {
			nBare++
		}
	}
	return nRet > 0 && nBare == 0, fmt.Sprintf("schedgroup.(*Group).Wait: %d of %d returning path(s) do not wait on the task WaitGroup (it returns at once when the context is canceled)", nBare, nRet)
}

// inFlightAwaited (R-C08-5): a transmission that is already running when the
// scheduler stops is waited for before schedule() returns — otherwise it can
// complete after the final RA and after Run has returned. Accepted mechanisms:
// (1) the group's Wait provably waits for running tasks (decided on the
// library's own code), or (2) every worker holds a sync.RWMutex for reading
// around its transmission and re-checks the context after acquiring it, and
// every exit of schedule() write-locks the same mutex (a barrier).
func inFlightAwaited(c *Ctx, rule string) {
	sch := c.P.Method("internal/corerad", "Advertiser", "schedule")
	if sch == nil {
		return
	}
	fn := c.fname(sch)
	libOK, libFact := c.libraryWaitWaits()

	isMutexCall := func(cc *ssa.CallCommon, names ...string) (ssa.Value, bool) {
		f := an.CalleeObj(cc)
		if f == nil || f.Pkg() == nil || f.Pkg().Path() != "sync" || cc.IsInvoke() || len(cc.Args) == 0 {
			return nil, false
		}
		for _, n := range names {
			if f.Name() == n {
				return resolveCaptured(cc.Args[0]), true
			}
		}
		return nil, false
	}
	// workers
	var closures []*ssa.Function
	var collect func(f *ssa.Function)
	collect = func(f *ssa.Function) {
		for _, a := range f.AnonFuncs {
			closures = append(closures, a)
			collect(a)
		}
	}
	collect(sch)
	for _, f := range c.srcFuncs() {
		if f.Parent() == nil && f != sch && !anchorFuncs[c.fname(f)] {
			if ok, _ := c.reachedOnlyFrom(f, func(root *ssa.Function) bool { return root == sch }); ok && len(c.callersOf()[f]) > 0 {
				collect(f)
			}
		}
	}
	var barrier ssa.Value
	workersOK := true
	nWorkers := 0
	workerFact := ""
	for _, cl := range closures {
		transmits := false
		for _, ci := range an.CallsIn(cl) {
			if an.CallIs(ci.Common(), PkgCorerad, "Advertiser", "sendWorker") || an.CallIs(ci.Common(), PkgCorerad, "Advertiser", "send") {
				transmits = true
			}
		}
		if !transmits {
			continue
		}
		nWorkers++
		for _, wp := range c.pathsO(rule, cl, an.PathOpts{}) {
			var lock ssa.Value
			unlocked, rechecked, sent := false, false, false
			var errCall ssa.Value
			wp.Instrs(func(in ssa.Instruction) {
				ci, ok := in.(ssa.CallInstruction)
				if !ok {
					return
				}
				cc := ci.Common()
				if l, ok := isMutexCall(cc, "RLock", "Lock"); ok && !sent {
					if _, isDefer := in.(*ssa.Defer); !isDefer {
						lock = l
					}
				}
				if l, ok := isMutexCall(cc, "RUnlock", "Unlock"); ok && lock != nil && l == lock {
					if _, isDefer := in.(*ssa.Defer); isDefer || sent {
						unlocked = true
					}
				}
				if cc.IsInvoke() && cc.Method.Name() == "Err" && lock != nil && !sent {
					if v, isV := in.(ssa.Value); isV {
						errCall = v
					}
				}
				if an.CallIs(cc, PkgCorerad, "Advertiser", "sendWorker") || an.CallIs(cc, PkgCorerad, "Advertiser", "send") {
					sent = true
				}
			})
			if !sent {
				continue
			}
			// a worker reports its failure while it holds the in-flight lock; the exits of schedule
			// write-lock it without reading the error channel, so the report must be abandonable
			wp.Instrs(func(in ssa.Instruction) {
				switch x := in.(type) {
				case *ssa.Send:
					workersOK = false
					workerFact = fmt.Sprintf("%s: bare send at %s while the in-flight lock is held (no receiver once schedule is stopping)", c.fname(cl), c.pos(x.Pos()))
				case *ssa.Select:
					hasSend, doneArm := false, false
					for _, st := range x.States {
						if st.Dir == types.SendOnly {
							hasSend = true
						} else if call, ok := st.Chan.(*ssa.Call); ok && call.Call.IsInvoke() && call.Call.Method.Name() == "Done" {
							doneArm = true
						}
					}
					if hasSend && !(doneArm || !x.Blocking) {
						workersOK = false
						workerFact = fmt.Sprintf("%s: select with a send at %s has no ctx.Done() arm", c.fname(cl), c.pos(x.Pos()))
					}
				}
			})
			if errCall != nil {
				for _, a := range wp.Atoms {
					x, y, op, ok := effCmp(a)
					if ok && exprIsNil(y) && op == token.EQL && x.V == errCall {
						rechecked = true
					}
				}
			}
			if lock == nil || !unlocked || !rechecked {
				workersOK = false
				workerFact = fmt.Sprintf("%s transmits with in-flight lock held=%v, released=%v, context re-checked after acquiring=%v", c.fname(cl), lock != nil, unlocked, rechecked)
				continue
			}
			if barrier == nil {
				barrier = lock
			} else if barrier != lock {
				workersOK = false
				workerFact = "workers use different locks"
			}
		}
	}
	if nWorkers == 0 {
		workersOK = false
		workerFact = "no transmitting worker closure found"
	}
	// exits
	exitsOK := true
	exitFact := ""
	nExits := 0
	for _, p := range c.pathsO(rule, sch, an.PathOpts{EmitCut: true}) {
		if p.Ret == nil {
			continue
		}
		nExits++
		locked := false
		p.Instrs(func(in ssa.Instruction) {
			ci, ok := in.(ssa.CallInstruction)
			if !ok {
				return
			}
			if _, isDefer := in.(*ssa.Defer); isDefer {
				return
			}
			if l, ok := isMutexCall(ci.Common(), "Lock"); ok && barrier != nil {
				// (the lock may be taken in a helper that receives the mutex's address)
				if l == barrier {
					locked = true
				} else if e := p.Of(ci.Common().Args[0]); e != nil && (e.V == barrier || e.Contains(func(x *an.Expr) bool { return x.V == barrier })) {
					locked = true
				}
			}
		})
		if !locked {
			exitsOK = false
			exitFact = "exit at " + c.pos(p.Ret.Pos()) + " does not take the in-flight lock for writing"
		}
	}
	barrierOK := workersOK && exitsOK && nExits > 0
	fact := libFact
	switch {
	case libOK:
		fact = "schedgroup Wait waits for running tasks on every path"
	case barrierOK:
		fact += fmt.Sprintf("; barrier: %d worker closure(s) hold the in-flight lock while transmitting and re-check the context, %d exit(s) write-lock it", nWorkers, nExits)
	default:
		if workerFact != "" {
			fact += "; " + workerFact
		}
		if exitFact != "" {
			fact += "; " + exitFact
		}
	}
	c.R.Check(libOK || barrierOK, rule, fn+":in-flight-transmissions-awaited", fn, c.pos(sch.Pos()), fact,
		"a transmission already running when the scheduler stops completes before schedule() returns (group Wait that waits, or a reader/writer barrier)",
		"an RA in flight when the advertiser stops is sent after the final RA / after Run has returned")
}

// requestChannelSends (R-C08-6): a goroutine of the task that hands a request
// to the scheduler can only finish when the scheduler is gone if the send is
// one arm of a blocking select whose other arm is ctx.Done(). (A buffer does
// not help: it is full after 16 solicitations during one slow transmission.)
func requestChannelSends(c *Ctx, rule string) {
	adv := c.P.Method("internal/corerad", "Advertiser", "advertise")
	if adv == nil {
		return
	}
	// the functions advertise creates as values (goroutine bodies, the listener callback): closures
	// and method values, each enumerated with helpers in line
	var fns []*ssa.Function
	seen := map[*ssa.Function]bool{}
	var collect func(f *ssa.Function)
	collect = func(f *ssa.Function) {
		for _, b := range f.Blocks {
			for _, in := range b.Instrs {
				if mc, ok := in.(*ssa.MakeClosure); ok {
					g := mc.Fn.(*ssa.Function)
					if !seen[g] {
						seen[g] = true
						fns = append(fns, g)
						collect(g)
					}
				}
			}
		}
	}
	collect(adv)
	// ... and the module functions those hand the request channel to (multicast)
	for i := 0; i < len(fns); i++ {
		for _, b := range fns[i].Blocks {
			for _, in := range b.Instrs {
				call, ok := in.(ssa.CallInstruction)
				if !ok {
					continue
				}
				g := an.StaticCallee(call.Common())
				if g == nil || g.Blocks == nil || seen[g] || !load.InModule(g) {
					continue
				}
				for _, a := range call.Common().Args {
					if _, isChan := a.Type().Underlying().(*types.Chan); isChan && strings.HasSuffix(typeStr(a.Type()), "netip.Addr") {
						seen[g] = true
						fns = append(fns, g)
						break
					}
				}
			}
		}
	}
	n := 0
	type sendSite struct {
		f  *ssa.Function
		in ssa.Instruction
	}
	done := map[sendSite]bool{} // a send in a shared helper counts once per function that reaches it
	isReq := func(v ssa.Value) bool { return strings.HasSuffix(typeStr(v.Type()), "netip.Addr") }
	for _, f := range fns {
		for _, p := range c.pathsO(rule, f, an.PathOpts{EmitCut: true}) {
			p.Instrs(func(in ssa.Instruction) {
				switch x := in.(type) {
				case *ssa.Send:
					if done[sendSite{f, in}] || !isReq(x.Chan) {
						return
					}
					done[sendSite{f, in}] = true
					n++
					c.R.Check(false, rule, c.fname(x.Parent())+":request-send-cancellable", c.fname(x.Parent()), c.pos(x.Pos()),
						fmt.Sprintf("bare send on %s", p.Of(x.Chan)), "a request is handed to the scheduler under a select with ctx.Done()",
						"when the scheduler has stopped reading and the buffer is full the sender blocks forever: the task neither returns nor is re-established")
				case *ssa.Select:
					send := false
					for _, st := range x.States {
						if st.Dir == types.SendOnly && isReq(st.Chan) {
							send = true
						}
					}
					if !send || done[sendSite{f, in}] {
						return
					}
					done[sendSite{f, in}] = true
					n++
					doneArm := false
					for _, st := range x.States {
						if st.Dir != types.RecvOnly {
							continue
						}
						if call, ok := st.Chan.(*ssa.Call); ok && call.Call.IsInvoke() && call.Call.Method.Name() == "Done" && strings.HasSuffix(typeStr(call.Call.Value.Type()), "context.Context") {
							doneArm = true
						}
					}
					c.R.Check(x.Blocking && doneArm, rule, c.fname(x.Parent())+":request-send-cancellable", c.fname(x.Parent()), c.pos(x.Pos()),
						fmt.Sprintf("select with a request send: blocking=%v, ctx.Done() arm=%v", x.Blocking, doneArm), "a request is handed to the scheduler under a blocking select with ctx.Done()",
						"when the scheduler has stopped reading and the buffer is full the sender blocks forever (or, with a default arm, the request is dropped)")
				}
			})
		}
	}
	c.R.Check(n >= 2, rule, c.fname(adv)+":request-sends", c.fname(adv), c.pos(adv.Pos()), fmt.Sprintf("%d send(s) of a request", n), ">= 2 (listener callback, multicast loop)", "anchor-missing")
}


// c08WatchClosed (R-C08-7): the link watcher reports a link change only for a
// value actually received: every path of its goroutine that returns
// ErrLinkChange established the receive's ok == true. The Watcher closes the
// subscription channels when the server stops; if a closed channel counted as
// a change, a stop could end advertise() with ErrLinkChange, Run would skip
// shutdown() and no final RA would be sent.
func c08WatchClosed(c *Ctx) {
	lw := c.needFunc("R-C08-7", "internal/corerad", "linkStateWatcher")
	if lw == nil {
		return
	}
	n, bad := 0, ""
	// the goroutine body: a closure of linkStateWatcher, or (when it was made a method or a named
	// function) whatever function of the package returns ErrLinkChange on a path
	cands := map[*ssa.Function]bool{}
	for _, f := range an.WithAnon(lw) {
		if f != lw {
			cands[f] = true
		}
	}
	for _, f := range c.srcFuncs() {
		if f.Pkg == nil || f.Pkg.Pkg.Path() != PkgCorerad || cands[f] || f == lw {
			continue
		}
		for _, b := range f.Blocks {
			for _, in := range b.Instrs {
				if u, ok := in.(*ssa.UnOp); ok && u.Op == token.MUL {
					if g, ok := u.X.(*ssa.Global); ok && g.Name() == "ErrLinkChange" && g.Pkg != nil && g.Pkg.Pkg.Path() == PkgSystem {
						if _, isErr := f.Signature.Results().At(max(f.Signature.Results().Len()-1, 0)).Type().Underlying().(*types.Interface); f.Signature.Results().Len() == 1 && isErr {
							cands[f] = true
						}
					}
				}
			}
		}
	}
	var fl []*ssa.Function
	for f := range cands {
		fl = append(fl, f)
	}
	sort.Slice(fl, func(i, j int) bool { return fl[i].String() < fl[j].String() })
	for _, f := range fl {
		for _, p := range c.pathsO("R-C08-7", f, an.PathOpts{EmitCut: true}) {
			if p.Ret == nil || len(p.Results) != 1 || !(p.Results[0].Op == an.OpGlobal && p.Results[0].Name == "system.ErrLinkChange") {
				continue
			}
			n++
			open := false
			for _, a := range p.Atoms {
				if a.Cond.Op == an.OpUnknown && a.Cond.Name == "select.recvOk" && a.Pos {
					open = true
				}
				if a.Cond.Op == an.OpExtract && a.Cond.Idx == 1 && len(a.Cond.Args) == 1 && a.Cond.Args[0].Op == an.OpRecv && a.Pos {
					open = true
				}
			}
			if !open {
				bad = "ErrLinkChange is returned without having established that a value was received (" + atomsString(p) + ")"
			}
		}
	}
	c.R.Check(n >= 1 && bad == "", "R-C08-7", c.fname(lw)+":closed-channel-is-not-a-change", c.fname(lw), c.pos(lw.Pos()), fmt.Sprintf("%d path(s) returning ErrLinkChange; %s", n, bad),
		"ErrLinkChange only after a receive with ok == true", "the subscription channel closed at shutdown is taken for a link change: the advertiser stops without its final RA")
}

// tasksDoNotSchedule: schedgroup panics when a task is scheduled after
// Group.Wait was called, and schedule() calls Wait as soon as it is told to
// stop while a task may still be running. A task that schedules another one
// (a retry, a follow-up) therefore turns a stop request that arrives while it
// runs into a crash. Structural form: every Delay/Schedule call of the module
// is made by a named function or by a closure that is only ever called
// directly — never by a function value (which is what a task is).
func tasksDoNotSchedule(c *Ctx, rule string) {
	n := 0
	for _, fn := range c.srcFuncs() {
		if fn.Pkg == nil || !strings.HasPrefix(fn.Pkg.Pkg.Path(), Mod) {
			continue
		}
		for _, ci := range an.CallsIn(fn) {
			fo := an.CalleeObj(ci.Common())
			if fo == nil || fo.Pkg() == nil || fo.Pkg().Path() != "github.com/mdlayher/schedgroup" || (fo.Name() != "Delay" && fo.Name() != "Schedule") {
				continue
			}
			n++
			where := ""
			for g := fn; g.Parent() != nil; g = g.Parent() {
				if w := usedAsValue(c, g); w != "" {
					where = c.fname(g) + " is used as a function value in " + w
					break
				}
			}
			c.R.Check(where == "", rule, c.fname(fn)+":schedules-from-owner", c.fname(fn), c.pos(ci.Pos()), fo.Name()+" called in "+c.fname(fn)+"; "+where,
				"tasks are scheduled by the function that owns the group (and waits for it), not from inside a function value that may itself run as a task",
				"a task that re-schedules itself calls Delay after Group.Wait when a stop request arrives while it runs: schedgroup panics instead of a clean stop with a final RA")
		}
	}
	c.R.Check(n >= 1, rule, "corerad:schedule-sites", "", "", fmt.Sprintf("%d Delay/Schedule call site(s)", n), ">= 1", "anchor-missing")
}
