package rules

import (
	"fmt"
	"go/token"
	"go/types"
	"sort"
	"strings"

	"crverif/internal/an"
	"crverif/internal/load"

	"golang.org/x/tools/go/ssa"
)

func init() {
	register(&RuleSet{
		Property: "C01",
		Explanation: "SEE/PATH/STRUCT plumbing rules (contents of wildcard expansions belong to C13–C15; the PREF64 round-up-to-8 arithmetic is NOT decided): R-C01-1 every RA header field is the like-named configuration field, which is the like-named TOML key (nothing else is set); " +
			"R-C01-2 on no CFG path of parsePlugins is a plugin of a later kind appended before one of an earlier kind (order prefixes, routes, RDNSS, DNSSL, MTU, source LLA, captive portal, PREF64), and every plugin type has a place in the order; " +
			"R-C01-3 each plugin's Apply appends only its own NDP option type with fields from the like-named plugin fields (LLA direction Source; static servers after the wildcard server); R-C01-4 the Apply call graph never writes plugin state, configuration or globals, touches only ra.Options, and uses no map iteration or randomness (so rebuilding yields the same RA); " +
			"R-C01-5 the only RA constructor is Interface.RouterAdvertisement and the only sender is Advertiser.send with buildRA's result R-C01-3 also decides the PREF64 arithmetic structurally (A = 3·maxInterval, rounding test (A % 8s) > 0, rounded A + (8s − A % 8s), cap 65528s) and that DNSSL names are stored in wire form; R-C01-6 every interface of a names group is the result of its own parseInterface call (own plugin instances); the wildcard rule sets of C13, C14 and C15 are evaluated here as shared rules; R-C01-7 no slice that is re-sliced and refilled on each loop iteration in the plugin/config packages is referenced by a stored value (scratch-buffer aliasing between options). R-C01-8 Prepare (run on every re-dial) stores only to interface-derived plugin state: never to a field that package config or a New* constructor sets, never to a plugin's whole value. R-C01-5 also: every path of buildRA that returns without error returns result #0 of the one Interface.RouterAdvertisement call made on that path (no RA is remembered between calls). R-C01-8 also: every path of the advertiser's dial callback that goes on to transmit has gone through the loop that calls Plugin.Prepare. R-C01-9 outside packages plugin and config nothing stores through a pointer to an NDP option it did not allocate (a built RA shares option values with the configuration).",
		Assumptions: []string{"Go type checker and go/ssa construction are correct", "ndp option constructors copy their arguments as documented"},
		NotCovered:  []string{"contents of wildcard expansions (C13–C15)", "the PREF64 round-up-to-a-multiple-of-8 arithmetic (only its range, C03)", "equality of two successive RAs when system state changes in between (not required)"},
		Run:         runC01,
	})
}

var pluginOrder = []string{"*plugin.Prefix", "*plugin.Route", "*plugin.RDNSS", "*plugin.DNSSL", "*plugin.MTU", "*plugin.LLA", "*plugin.CaptivePortal", "*plugin.PREF64"}

func runC01(c *Ctx) {
	c01Header(c)
	c01Order(c)
	c01Options(c)
	c01Purity(c)
	c01Single(c)
	c01PerInterface(c)
	c01Pref64Lifetime(c)
	c01PrepareKeepsConfig(c)
	freshRA(c, "R-C01-5")
	everyDialPrepares(c, "R-C01-8")
	builtOptionsReadOnly(c, "R-C01-9")
	scratchAliasing(c, "R-C01-7", fnsInPkgs(c, "internal/plugin", "internal/config"), "an option built earlier (or the configuration itself) is overwritten when the next one is built")
	// "exactly the options the configuration calls for … for every interface address list / loopback
	// route list": the wildcard stanzas expand by the rules of C13–C15, which are shared here
	runC13(c)
	runC14(c)
	runC15(c)
}

func c01Header(c *Ctx) {
	ra := c.needMethod("R-C01-1", "internal/config", "Interface", "RouterAdvertisement")
	if ra != nil {
		fn := c.fname(ra)
		done := map[string]bool{}
		for _, p := range c.pathsO("R-C01-1", ra, an.PathOpts{}) {
			if p.Ret == nil || len(p.Results) != 3 || !exprIsNil(p.Results[2]) {
				continue
			}
			hdr := raHeader(p.Results[0])
			if hdr == nil {
				c.R.Undecided("R-C01-1", fn+":returned-ra", fn, c.pos(p.Ret.Pos()), "returned RA is not a locally built object")
				continue
			}
			var names []string
			for f := range headerTable {
				names = append(names, f)
			}
			sort.Strings(names)
			for _, f := range names {
				v := hdr[f]
				ok := v != nil && isRecvField(v, headerTable[f])
				if f == "RouterLifetime" && v != nil {
					if k, isC := v.ConstInt(); isC && k == 0 {
						ok = true // zeroing owned by C04
					}
				}
				key := fn + ":header." + f
				if done[key] && ok {
					continue
				}
				done[key] = true
				c.R.Check(ok, "R-C01-1", key, fn, c.pos(p.Ret.Pos()), fmt.Sprintf("%s ⇐ %v", f, v), "ifi."+headerTable[f], "RA header field does not carry its configured value")
			}
			for f := range hdr {
				if _, known := headerTable[f]; !known && f != "Options" {
					c.R.Fail("R-C01-1", fn+":header.+"+f, fn, c.pos(p.Ret.Pos()), fmt.Sprintf("%s ⇐ %v", f, hdr[f]), "no other header field is set", "RA carries a header field the configuration does not call for")
				}
			}
		}
		c.R.Floor("R-C01-1", 7)
	}
	// TOML key → Interface field (boolean / string keys; numeric keys are decided by C02's value-set analysis)
	if pi := c.P.Func("internal/config", "parseInterface"); pi != nil {
		fn := c.fname(pi)
		done := map[string]bool{}
		for _, p := range successPaths(c, "R-C01-1", pi, nil) {
			flds := raHeader(p.Results[0])
			if flds == nil || flds["MaxInterval"] == nil || monitorPath(p) {
				continue
			}
			for _, pair := range [][2]string{{"Managed", "Managed"}, {"OtherConfig", "OtherConfig"}, {"UnicastOnly", "UnicastOnly"}, {"Verbose", "Verbose"}, {"Advertise", "Advertise"}, {"Monitor", "Monitor"}} {
				v := flds[pair[0]]
				ok := v != nil && v.IsField(pair[1]) && v.Args[0].Op == an.OpParam
				key := fn + ":key." + pair[0]
				if done[key] && ok {
					continue
				}
				done[key] = true
				c.R.Check(ok, "R-C01-1", key, fn, c.pos(p.Ret.Pos()), fmt.Sprintf("%s ⇐ %v", pair[0], v), "raw."+pair[1], "configuration flag taken from another key")
			}
			if v := flds["Name"]; !done[fn+":key.Name"] {
				done[fn+":key.Name"] = true
				c.R.Check(v != nil && v.Op == an.OpParam && v.Name == "name", "R-C01-1", fn+":key.Name", fn, c.pos(p.Ret.Pos()), fmt.Sprintf("Name ⇐ %v", v), "the name parameter", "interface configured under another name")
			}
			// numeric keys: the user value is parsed from the like-named raw key
			for _, pair := range [][2]string{{"MaxInterval", "MaxInterval"}, {"ReachableTime", "ReachableTime"}, {"RetransmitTimer", "RetransmitTimer"}, {"HopLimit", "HopLimit"}} {
				v := flds[pair[0]]
				if v == nil || v.Op == an.OpConst {
					continue
				}
				if nf, okN := an.Norm(v); okN {
					if _, isC := nf.IsConst(); isC {
						continue // a default
					}
				}
				ok := v.Contains(func(e *an.Expr) bool { return e.IsField(pair[1]) && e.Args[0].Op == an.OpParam })
				key := fn + ":key." + pair[0]
				if done[key] && ok {
					continue
				}
				done[key] = true
				c.R.Check(ok, "R-C01-1", key, fn, c.pos(p.Ret.Pos()), fmt.Sprintf("%s ⇐ %v", pair[0], v), "parsed from raw."+pair[1], "numeric setting taken from another key (e.g. reachable/retransmit swapped)")
			}
		}
	}
}

func c01Order(c *Ctx) {
	pp := c.needFunc("R-C01-2", "internal/config", "parsePlugins")
	if pp == nil {
		return
	}
	fn := c.fname(pp)
	rank := map[string]int{}
	for i, t := range pluginOrder {
		rank[t] = i
	}
	// append sites in parsePlugins and in every module function it reaches through static calls (a
	// phase helper that receives and returns the plugin slice); chain = the call instructions from
	// parsePlugins down to the function that holds the append
	type site struct {
		call  *ssa.Call
		kind  string
		chain []ssa.Instruction // chain[0] is in parsePlugins; the last element is the append itself
	}
	var sites []site
	var scan func(f *ssa.Function, chain []ssa.Instruction, depth int)
	visiting := map[*ssa.Function]bool{}
	scan = func(f *ssa.Function, chain []ssa.Instruction, depth int) {
		if depth > 4 || visiting[f] {
			return
		}
		visiting[f] = true
		defer delete(visiting, f)
		for _, b := range f.Blocks {
			for _, in := range b.Instrs {
				call, ok := in.(*ssa.Call)
				if !ok {
					continue
				}
				bi, ok := call.Call.Value.(*ssa.Builtin)
				if !ok || bi.Name() != "append" {
					if callee := an.StaticCallee(&call.Call); callee != nil && callee.Blocks != nil && load.InModule(callee) && strings.HasPrefix(c.fname(callee), "config.") {
						scan(callee, append(append([]ssa.Instruction{}, chain...), call), depth+1)
					}
					continue
				}
				sl, ok := call.Type().Underlying().(*types.Slice)
				if !ok || !strings.HasSuffix(typeStr(sl.Elem()), "plugin.Plugin") {
					continue
				}
				// element kind: the MakeInterface feeding the varargs array
				kind := ""
				if s, ok := call.Call.Args[1].(*ssa.Slice); ok {
					if al, ok := s.X.(*ssa.Alloc); ok && al.Referrers() != nil {
						for _, r := range *al.Referrers() {
							if ia, ok := r.(*ssa.IndexAddr); ok && ia.Referrers() != nil {
								for _, u := range *ia.Referrers() {
									if st, ok := u.(*ssa.Store); ok {
										if mi, ok := st.Val.(*ssa.MakeInterface); ok {
											kind = typeStr(mi.X.Type())
										}
									}
								}
							}
						}
					}
				}
				if kind == "" {
					if _, isSpread := call.Call.Args[1].(*ssa.Slice); !isSpread {
						// append(plugins, more...): the elements of `more` were appended where it was built
						if sl2, ok := call.Call.Args[1].Type().Underlying().(*types.Slice); ok && strings.HasSuffix(typeStr(sl2.Elem()), "plugin.Plugin") {
							continue
						}
					}
				}
				sites = append(sites, site{call, kind, append(append([]ssa.Instruction{}, chain...), call)})
			}
		}
	}
	scan(pp, nil, 0)
	// canFollow: after instruction x has executed, instruction y (same function) may execute
	canFollow := func(x, y ssa.Instruction) bool {
		if x.Block() == y.Block() {
			if an.InstrBlockIndex(x) < an.InstrBlockIndex(y) {
				return true
			}
			return an.Info(x.Parent()).Reaches(x.Block(), x.Block()) // in a loop
		}
		return an.Info(x.Parent()).Reaches(x.Block(), y.Block())
	}
	seenKind := map[string]bool{}
	for _, s := range sites {
		seenKind[s.kind] = true
		if _, ok := rank[s.kind]; !ok {
			c.R.Fail("R-C01-2", fn+":append-kind:"+s.kind, fn, c.pos(s.call.Pos()), "appends a plugin of kind "+s.kind, "every plugin kind has a place in the documented order", "an option of an undocumented kind is advertised at an undefined position")
		}
	}
	for _, a := range sites {
		for _, b := range sites {
			if a.call == b.call && len(a.chain) == len(b.chain) && a.chain[0] == b.chain[0] {
				continue
			}
			ra, okA := rank[a.kind]
			rb, okB := rank[b.kind]
			if !okA || !okB || ra <= rb {
				continue
			}
			// a is a later kind than b: b's append must not be able to follow a's. Compare at the first
			// level where the two call chains differ.
			k := 0
			for k < len(a.chain)-1 && k < len(b.chain)-1 && a.chain[k] == b.chain[k] {
				k++
			}
			bad := false
			if a.chain[k].Parent() == b.chain[k].Parent() {
				if a.chain[k] == b.chain[k] {
					bad = an.Info(a.chain[k].Parent()).Reaches(a.chain[k].Block(), a.chain[k].Block())
				} else {
					bad = canFollow(a.chain[k], b.chain[k])
				}
			} else {
				bad = true // not comparable: be conservative
			}
			c.R.Check(!bad, "R-C01-2", fmt.Sprintf("%s:order:%s-before-%s", fn, b.kind, a.kind), fn, c.pos(a.call.Pos()),
				fmt.Sprintf("append of %s can be followed by append of %s: %v", a.kind, b.kind, bad), "plugins are appended in the order "+strings.Join(pluginOrder, ", "), "options appear on the wire in the wrong order")
		}
	}
	for _, k := range pluginOrder {
		c.R.Check(seenKind[k], "R-C01-2", fn+":appends:"+k, fn, c.pos(pp.Pos()), fmt.Sprintf("append site for %s: %v", k, seenKind[k]), "every configured stanza kind becomes a plugin", "a parsed stanza kind is never advertised")
	}
	// every Plugin implementation has a rank
	if pl := c.P.Named("internal/plugin", "Plugin"); pl != nil {
		iface := pl.Underlying().(*types.Interface)
		sc := c.P.TypesPkg("internal/plugin").Types.Scope()
		for _, name := range sc.Names() {
			tn, ok := sc.Lookup(name).(*types.TypeName)
			if !ok {
				continue
			}
			pt := types.NewPointer(tn.Type())
			if types.Implements(pt, iface) && !types.IsInterface(tn.Type()) {
				_, ok := rank[typeStr(pt)]
				c.R.Check(ok, "R-C01-2", "plugin:"+name+":has-order", "", c.pos(tn.Pos()), typeStr(pt)+" implements plugin.Plugin", "a position in the documented option order", "a new plugin kind has no documented position")
			}
		}
	}
}

func c01Options(c *Ctx) {
	// MTU
	if f := c.needMethod("R-C01-3", "internal/plugin", "MTU", "Apply"); f != nil {
		ok := false
		fact := ""
		for _, p := range c.pathsO("R-C01-3", f, an.PathOpts{}) {
			p.Instrs(func(in ssa.Instruction) {
				if mi, isMI := in.(*ssa.MakeInterface); isMI && strings.HasSuffix(typeStr(mi.X.Type()), "ndp.MTU") {
					e := p.Of(mi.X)
					fact = e.String()
					ok = e.Op == an.OpCall && e.Fn != nil && e.Fn.String() == PkgNDP+".NewMTU" && e.Args[0].Op == an.OpConv && e.Args[0].Args[0].Op == an.OpParam
				}
			})
		}
		c.R.Check(ok, "R-C01-3", c.fname(f)+":option", c.fname(f), c.pos(f.Pos()), "appends "+fact, "ndp.NewMTU(uint32(*m))", "MTU option does not carry the configured MTU")
	}
	if f := c.needFunc("R-C01-3", "internal/plugin", "NewMTU"); f != nil {
		for _, r := range an.Returns(f) {
			e := c.XO.Of(r.Results[0])
			ok := e.Op == an.OpNew && (e.Args[0].Op == an.OpParam || (e.Args[0].Op == an.OpConv && e.Args[0].Args[0].Op == an.OpParam))
			c.R.Check(ok, "R-C01-3", c.fname(f)+":stores-argument", c.fname(f), c.pos(r.Pos()), "returns "+e.String(), "a pointer to MTU(mtu)", "MTU plugin does not hold the configured value")
		}
	}
	// LLA
	if f := c.needMethod("R-C01-3", "internal/plugin", "LLA", "Apply"); f != nil {
		n := 0
		for _, p := range c.pathsO("R-C01-3", f, an.PathOpts{}) {
			if p.Ret == nil {
				continue
			}
			hasAddr := false
			for _, a := range p.Atoms {
				x, y, op, ok := effCmp(a)
				if ok && x.IsField("Addr") && exprIsNil(y) {
					hasAddr = op == token.NEQ
				}
			}
			var lit *an.Expr
			p.Instrs(func(in ssa.Instruction) {
				if mi, ok := in.(*ssa.MakeInterface); ok && strings.HasSuffix(typeStr(mi.X.Type()), "ndp.LinkLayerAddress") {
					lit = p.Of(mi.X)
				}
			})
			n++
			if !hasAddr {
				c.R.Check(lit == nil, "R-C01-3", c.fname(f)+":no-address", c.fname(f), c.pos(p.Ret.Pos()), fmt.Sprintf("option built without an address: %v", lit != nil), "no option when the interface has no hardware address", "a source link-layer option without an address is advertised")
				continue
			}
			if lit == nil {
				// an address that cannot be encoded (not 6 bytes): the option is left out (see R-C03-4)
				unencodable := false
				for _, a := range p.Atoms {
					x, y, op, ok := effCmp(a)
					if ok && op == token.NEQ && x.Op == an.OpLen && x.Args[0].IsField("Addr") {
						if k, isC := y.ConstInt(); isC && k == 6 {
							unencodable = true
						}
					}
				}
				c.R.Check(unencodable, "R-C01-3", c.fname(f)+":address-without-option", c.fname(f), c.pos(p.Ret.Pos()), fmt.Sprintf("no option although an address is set; len(Addr) != 6 established: %v", unencodable),
					"the option is omitted only for an address that is absent or not 6 bytes long", "source link-layer address option missing although the interface has an Ethernet address")
				continue
			}
			flds := raHeader(lit)
			ok := flds != nil && flds["Addr"] != nil && isRecvField(flds["Addr"], "Addr") && flds["Direction"] != nil
			if ok {
				k, isC := flds["Direction"].ConstInt()
				ok = isC && k == 1 // ndp.Source
			}
			c.R.Check(ok, "R-C01-3", c.fname(f)+":option", c.fname(f), c.pos(p.Ret.Pos()), fmt.Sprintf("appends %v", lit), "&ndp.LinkLayerAddress{Direction: ndp.Source, Addr: l.Addr}", "link-layer address sent as Target or with another address")
		}
		c.R.Check(n >= 2, "R-C01-3", c.fname(f)+":paths", c.fname(f), c.pos(f.Pos()), fmt.Sprintf("%d path(s)", n), ">= 2", "anchor-missing")
	}
	// CaptivePortal / PREF64: the prepared option object
	for _, spec := range [][3]string{{"CaptivePortal", "Portal", "ndp.CaptivePortal"}, {"PREF64", "Inner", "ndp.PREF64"}} {
		if f := c.needMethod("R-C01-3", "internal/plugin", spec[0], "Apply"); f != nil {
			ok := false
			fact := ""
			for _, p := range c.pathsO("R-C01-3", f, an.PathOpts{}) {
				p.Instrs(func(in ssa.Instruction) {
					if mi, isMI := in.(*ssa.MakeInterface); isMI && strings.HasSuffix(typeStr(mi.X.Type()), spec[2]) {
						e := p.Of(mi.X)
						fact = e.String()
						ok = isRecvField(e, spec[1])
					}
				})
			}
			c.R.Check(ok, "R-C01-3", c.fname(f)+":option", c.fname(f), c.pos(f.Pos()), "appends "+fact, "the option prepared at parse time ("+spec[1]+")", "option does not carry the configured value")
		}
	}
	if f := c.needFunc("R-C01-3", "internal/plugin", "NewPREF64"); f != nil {
		for _, fs := range an.FindFieldStores([]*ssa.Function{f}, PkgNDP, "PREF64", "Prefix") {
			e := c.XO.Of(fs.Store.Val)
			c.R.Check(e.Op == an.OpParam && e.Idx == 0, "R-C01-3", c.fname(f)+":prefix", c.fname(f), c.pos(fs.Store.Pos()), "Prefix ⇐ "+e.String(), "the prefix parameter", "PREF64 advertises another prefix")
		}
	}
	if f := c.needFunc("R-C01-3", "internal/plugin", "NewCaptivePortal"); f != nil {
		for _, fs := range an.FindFieldStores([]*ssa.Function{f}, PkgPlugin, "CaptivePortal", "Portal") {
			e := c.XO.Of(fs.Store.Val)
			b, i := stripExtract(e)
			c.R.Check(i == 0 && b.Op == an.OpCall && b.Fn != nil && b.Fn.String() == PkgNDP+".NewCaptivePortal" && b.Args[0].Op == an.OpParam, "R-C01-3", c.fname(f)+":portal", c.fname(f), c.pos(fs.Store.Pos()), "Portal ⇐ "+e.String(), "ndp.NewCaptivePortal(uri)", "captive portal URI altered")
		}
	}
	// config side: stanza → plugin construction arguments
	if pp := c.P.Func("internal/config", "parsePlugins"); pp != nil {
		for _, ci := range an.CallsIn(pp) {
			f := an.CalleeObj(ci.Common())
			switch {
			case an.ObjIs(f, PkgPlugin, "", "NewMTU"):
				e := c.XO.Of(ci.Common().Args[0])
				c.R.Check(e.IsField("MTU"), "R-C01-3", c.fname(pp)+":mtu-key", c.fname(pp), c.pos(ci.Pos()), "NewMTU("+e.String()+")", "raw.MTU", "MTU taken from another key")
			case an.ObjIs(f, PkgPlugin, "", "NewCaptivePortal"):
				e := c.XO.Of(ci.Common().Args[0])
				c.R.Check(e.IsField("CaptivePortal"), "R-C01-3", c.fname(pp)+":captive-portal-key", c.fname(pp), c.pos(ci.Pos()), "NewCaptivePortal("+e.String()+")", "raw.CaptivePortal", "captive portal taken from another key")
			}
		}
	}
	dnsslNames(c, "R-C01-3")
}

// dnsslNames: shared by C01 (the search list is the configured one) and C12
// (our own RA compares equal to itself after a wire round trip).
func dnsslNames(c *Ctx, rule string) {
	if f := c.P.Func("internal/config", "parseDNSSL"); f != nil {
		// the advertised search list is the configured one, name by name and in order, each name in the
		// form it has after a wire round trip (trailing dot removed, IDNA labels in Unicode: see R-C12-5)
		wireForm := isWireFormName
		_ = func(e *an.Expr) bool {
			b, idx := stripExtract(e)
			if idx != 0 || b.Op != an.OpCall || b.Fn == nil || b.Fn.String() != "golang.org/x/net/idna.ToUnicode" || len(b.Args) != 1 {
				return false
			}
			t := b.Args[0]
			if t.Op != an.OpCall || t.Fn == nil || t.Fn.String() != "strings.TrimSuffix" || len(t.Args) != 2 || !t.Args[1].IsConst(`"."`) {
				return false
			}
			el := t.Args[0]
			return el.Op == an.OpElem && len(el.Args) == 2 && el.Args[0].IsField("DomainNames") && el.Args[0].Args[0].Op == an.OpParam && el.Args[1].Contains(func(x *an.Expr) bool { return x.Op == an.OpLoop })
		}
		nApp, okApp := 0, true
		fact := ""
		for _, p := range c.pathsO(rule, f, an.PathOpts{EmitCut: true}) {
			p.Instrs(func(in ssa.Instruction) {
				call, ok := in.(*ssa.Call)
				if !ok {
					return
				}
				if b, isB := call.Call.Value.(*ssa.Builtin); !isB || b.Name() != "append" {
					return
				}
				if sl, isS := call.Type().Underlying().(*types.Slice); !isS || typeStr(sl.Elem()) != "string" {
					return
				}
				e := p.Of(call)
				if e.Op != an.OpAppend || len(e.Args) != 2 || e.Args[1].Op != an.OpStruct || len(e.Args[1].Args) != 1 {
					return
				}
				nApp++
				if !wireForm(e.Args[1].Args[0]) {
					okApp = false
					fact = "appends " + e.Args[1].Args[0].String()
				}
			})
		}
		pd := c.P.Func("internal/config", "parseDuration")
		done := false
		for _, p := range successPaths(c, rule, f, map[*ssa.Function]bool{pd: true}) {
			if done {
				break
			}
			if flds := raHeader(p.Results[0]); flds != nil {
				done = true
				v := flds["DomainNames"]
				verbatim := v != nil && v.IsField("DomainNames") && v.Args[0].Op == an.OpParam
				built := v != nil && nApp >= 1 && okApp && !verbatim
				if fact == "" {
					fact = fmt.Sprintf("DomainNames ⇐ %v (%d append site(s) of wire-form names)", v, nApp)
				}
				c.R.Check(built, rule, c.fname(f)+":domain-names", c.fname(f), c.pos(p.Ret.Pos()), fact,
					"every configured name, in order, as idna.ToUnicode(strings.TrimSuffix(name, \".\"))", "search list altered, or names kept in a form that changes on the wire")
			}
		}
	}
}

func c01Purity(c *Ctx) {
	// roots: every Apply method in package plugin + Interface.RouterAdvertisement
	var roots []*ssa.Function
	for _, fn := range c.srcFuncs() {
		if fn.Pkg != nil && fn.Pkg.Pkg.Path() == PkgPlugin && fn.Name() == "Apply" {
			roots = append(roots, fn)
		}
	}
	if ra := c.P.Method("internal/config", "Interface", "RouterAdvertisement"); ra != nil {
		roots = append(roots, ra)
	}
	reach := an.ModuleReach(roots, load.InModule, nil)
	nStores := 0
	var fns []*ssa.Function
	for f := range reach {
		fns = append(fns, f)
	}
	sort.Slice(fns, func(i, j int) bool { return fns[i].String() < fns[j].String() })
	for _, fn := range fns {
		name := c.fname(fn)
		if strings.HasPrefix(name, "system.") || strings.HasPrefix(name, "(*system.") {
			continue // the system-state readers (sockets, netlink) are outside the RA object graph
		}
		for _, b := range fn.Blocks {
			for _, in := range b.Instrs {
				switch x := in.(type) {
				case *ssa.Store:
					nStores++
					root, path := addrRoot(x.Addr)
					ok := false
					why := ""
					switch r := root.(type) {
					case *ssa.Alloc:
						ok = true
					case *ssa.Parameter:
						// plugins may only append options; helpers of the builder itself (package config) fill in
						// the RA under construction, whose returned header is decided path-wise by R-C01-1 / R-C04-1
						ok = strings.HasSuffix(typeStr(r.Type()), "ndp.RouterAdvertisement") && len(path) >= 1 &&
							(path[0] == "Options" || (fn.Pkg != nil && fn.Pkg.Pkg.Path() == PkgConfig))
						why = "store through parameter " + r.Name() + "." + strings.Join(path, ".")
					case *ssa.Global:
						why = "store to global " + r.Name()
					case *ssa.FreeVar:
						ok = true // closure-local state of a local variable
					case *ssa.Call:
						// the object a constructor helper of the builder has just allocated (header())
						ok = an.CtorAlloc(r) != nil
						why = "store through the result of " + r.Call.Value.Name()
					default:
						// element of a freshly made slice/array?
						if e := c.XO.Of(x.Addr); e.Contains(func(y *an.Expr) bool { return y.Op == an.OpMake || y.Op == an.OpAppend }) {
							ok = true
						}
						why = fmt.Sprintf("store to %T", root)
					}
					if !ok {
						c.R.Fail("R-C01-4", name+":writes:"+why, name, c.pos(x.Pos()), why, "Apply and RouterAdvertisement write only locals and ra.Options", "building an RA alters the configuration / plugin state: the next RA differs")
					}
				case *ssa.Range:
					if _, isMap := x.X.Type().Underlying().(*types.Map); isMap {
						c.R.Fail("R-C01-4", name+":map-iteration", name, c.pos(x.Pos()), "range over a map", "no map iteration on the RA-building path", "option order depends on map iteration: rebuilding yields a different RA")
					}
				case ssa.CallInstruction:
					if f := an.CalleeObj(x.Common()); f != nil && f.Pkg() != nil && (f.Pkg().Path() == "math/rand" || f.Pkg().Path() == "crypto/rand") {
						c.R.Fail("R-C01-4", name+":randomness", name, c.pos(x.Pos()), "call to "+f.FullName(), "no randomness on the RA-building path", "rebuilding yields a different RA")
					}
					// in-place slice operations on plugin-owned slices (slices.Insert/Delete/Sort…, sort.*, copy)
					if f := an.CalleeObj(x.Common()); f != nil && f.Pkg() != nil && (f.Pkg().Path() == "slices" || f.Pkg().Path() == "sort") && len(x.Common().Args) > 0 {
						switch f.Name() {
						case "Insert", "Delete", "DeleteFunc", "Replace", "Sort", "SortFunc", "SortStableFunc", "Reverse", "Compact", "CompactFunc", "Slice", "SliceStable", "Stable", "Strings", "Ints":
							first := c.XO.Of(x.Common().Args[0])
							if first.Op == an.OpField && first.Args[0].Op == an.OpParam && first.Args[0].Idx == 0 && fn.Signature.Recv() != nil && !strings.HasSuffix(typeStr(first.Args[0].Typ), "ndp.RouterAdvertisement") {
								c.R.Fail("R-C01-4", name+":in-place-"+f.Name()+"-on-plugin-slice", name, c.pos(x.Pos()), f.FullName()+"("+first.String()+", …)", "plugin-owned slices are never modified in place while building an RA", "Apply can shift/sort the plugin's own backing array: the configuration changes between RAs")
							}
						}
					}
					if bi, ok := x.Common().Value.(*ssa.Builtin); ok && bi.Name() == "copy" {
						first := c.XO.Of(x.Common().Args[0])
						if first.Contains(func(e *an.Expr) bool { return e.Op == an.OpField && e.Args[0].Op == an.OpParam && e.Args[0].Idx == 0 }) && fn.Signature.Recv() != nil && !strings.Contains(first.String(), "Options") {
							c.R.Fail("R-C01-4", name+":copy-into-plugin-slice", name, c.pos(x.Pos()), "copy("+first.String()+", …)", "plugin-owned slices are never modified in place while building an RA", "configuration changes between RAs")
						}
					}
					// append into plugin-owned slices
					if bi, ok := x.Common().Value.(*ssa.Builtin); ok && bi.Name() == "append" {
						first := c.XO.Of(x.Common().Args[0])
						if first.Op == an.OpField && first.Args[0].Op == an.OpParam && first.Args[0].Idx == 0 && !strings.HasSuffix(typeStr(first.Args[0].Typ), "ndp.RouterAdvertisement") && fn.Signature.Recv() != nil {
							c.R.Fail("R-C01-4", name+":append-into-plugin-slice", name, c.pos(x.Pos()), "append("+first.String()+", …)", "plugin-owned slices are never the destination of an append", "Apply can write into the plugin's backing array: the configuration changes between RAs")
						}
					}
				}
			}
		}
	}
	c.R.Check(nStores >= 10 && len(roots) >= 9, "R-C01-4", "plugin:apply-call-graph", "", "", fmt.Sprintf("%d root(s), %d function(s), %d store(s) examined", len(roots), len(fns), nStores), "all Apply methods and their module-local callees", "anchor-missing")
}

// addrRoot walks a FieldAddr/IndexAddr chain to its root value and returns the field path.
func addrRoot(v ssa.Value) (ssa.Value, []string) {
	var path []string
	for {
		switch x := v.(type) {
		case *ssa.FieldAddr:
			_, _, f := an.FieldAddrName(x)
			path = append([]string{f}, path...)
			v = x.X
		case *ssa.IndexAddr:
			path = append([]string{"[]"}, path...)
			v = x.X
		case *ssa.UnOp:
			if x.Op == token.MUL {
				// pointer loaded from somewhere: continue to where it was loaded from
				if fa, ok := x.X.(*ssa.FieldAddr); ok {
					_, _, f := an.FieldAddrName(fa)
					path = append([]string{f}, path...)
					v = fa.X
					continue
				}
				if al, ok := x.X.(*ssa.Alloc); ok {
					// local pointer variable (e.g. defer-spilled); treat by its stored values conservatively as local
					return al, path
				}
			}
			return v, path
		default:
			return v, path
		}
	}
}

// trialEncodingOnly reports whether an allocated RA is only filled in and
// handed to ndp.MarshalMessage (whose bytes go nowhere but a length/err test is
// not checked here: the RA value itself escapes to nothing else).
func trialEncodingOnly(al *ssa.Alloc) bool {
	if al.Referrers() == nil {
		return false
	}
	toMarshal := false
	for _, r := range *al.Referrers() {
		switch x := r.(type) {
		case *ssa.FieldAddr:
			// only stores into the fields
			if x.Referrers() != nil {
				for _, rr := range *x.Referrers() {
					if st, ok := rr.(*ssa.Store); !ok || st.Addr != ssa.Value(x) {
						return false
					}
				}
			}
		case *ssa.MakeInterface:
			if x.Referrers() == nil {
				return false
			}
			for _, rr := range *x.Referrers() {
				call, ok := rr.(*ssa.Call)
				if !ok {
					return false
				}
				fo := an.CalleeObj(&call.Call)
				if fo == nil || fo.Name() != "MarshalMessage" || fo.Pkg() == nil || fo.Pkg().Path() != PkgNDP {
					return false
				}
				toMarshal = true
			}
		case *ssa.DebugRef:
		default:
			return false
		}
	}
	return toMarshal
}

func c01Single(c *Ctx) {
	ra := c.P.Method("internal/config", "Interface", "RouterAdvertisement")
	n := 0
	for _, fn := range c.srcFuncs() {
		for _, b := range fn.Blocks {
			for _, in := range b.Instrs {
				if al, ok := in.(*ssa.Alloc); ok && strings.HasSuffix(typeStr(al.Type()), "*ndp.RouterAdvertisement") && al.Heap {
					if trialEncodingOnly(al) {
						continue // a scratch RA that only ever reaches ndp.MarshalMessage (size check of an option): never sent, never returned
					}
					n++
					okFrom, _ := c.reachedOnlyFrom(fn, func(root *ssa.Function) bool { return root == ra })
					c.R.Check(okFrom, "R-C01-5", c.fname(fn)+":constructs-RouterAdvertisement", c.fname(fn), c.pos(al.Pos()), "RA literal in "+c.fname(fn), "only Interface.RouterAdvertisement builds RAs", "an RA that does not come from the configuration can be sent or reported")
				}
			}
		}
	}
	c.R.Check(n == 1, "R-C01-5", "module:ra-literals", "", "", fmt.Sprintf("%d RA literal(s)", n), "exactly one", "unexpected number of RA constructors")
}

// c01PerInterface (R-C01-6): every interface of a `names` group gets its own
// parse — and with it its own plugin instances. Plugins carry per-interface
// state filled in by Prepare (hardware address, address and route lookups), so
// two interfaces sharing one plugin object advertise each other's state.
func c01PerInterface(c *Ctx) {
	pis := c.needFunc("R-C01-6", "internal/config", "parseInterfaces")
	if pis == nil {
		return
	}
	fn := c.fname(pis)
	n := 0
	for _, p := range c.pathsO("R-C01-6", pis, an.PathOpts{EmitCut: true}) {
		if !p.Cut {
			continue
		}
		p.Instrs(func(in ssa.Instruction) {
			// an Interface handed to the result: appended, or stored into an element of a pre-sized slice
			var el *an.Expr
			var at ssa.Instruction = in
			switch x := in.(type) {
			case *ssa.Call:
				b, ok := x.Call.Value.(*ssa.Builtin)
				if !ok || b.Name() != "append" {
					return
				}
				sl, ok := x.Type().Underlying().(*types.Slice)
				if !ok || !strings.HasSuffix(typeStr(sl.Elem()), "config.Interface") {
					return
				}
				e := p.Of(x)
				if e.Op == an.OpAppend && len(e.Args) == 2 && e.Args[1].Op == an.OpStruct && len(e.Args[1].Args) == 1 {
					el = e.Args[1].Args[0]
				} else {
					el = e
				}
			case *ssa.Store:
				if _, isElem := x.Addr.(*ssa.IndexAddr); !isElem || !strings.HasSuffix(typeStr(x.Val.Type()), "config.Interface") {
					return
				}
				el = p.Of(x.Val)
			default:
				return
			}
			call := at
			n++
			okOwn := false
			fact := el.String()
			{
				// the element is (a copy of) result #0 of a parseInterface call made in this iteration,
				// for this iteration's name
				var pcall *an.Expr
				el.Walk(func(x *an.Expr) bool {
					if exprCallIs(x, PkgConfig, "", "parseInterface") && pcall == nil {
						pcall = x
					}
					return true
				})
				if pcall != nil && len(pcall.Args) >= 1 {
					inLoop := false
					if cv, isV := pcall.V.(*ssa.Call); isV && p.CutTo != nil && cv.Parent() == p.CutTo.Parent() {
						inLoop = p.CutTo.Dominates(cv.Block()) && cv.Block() != p.CutTo.Parent().Blocks[0]
					}
					perName := pcall.Args[0].Contains(func(x *an.Expr) bool { return x.Op == an.OpLoop })
					okOwn = inLoop && perName
					fact = fmt.Sprintf("appends %s; parse call inside the loop=%v, called with this iteration's name=%v", pcall, inLoop, perName)
				}
			}
			c.R.Check(okOwn, "R-C01-6", fn+":own-parse-per-interface", fn, c.pos(call.Pos()), fact,
				"each interface appended to the group is the result of its own parseInterface call (own plugin instances)",
				"interfaces of one group share plugin objects: Prepare for one interface overwrites the state the others advertise")
		})
	}
	c.R.Check(n >= 1, "R-C01-6", fn+":append-sites", fn, c.pos(pis.Pos()), fmt.Sprintf("%d append(s) of an Interface on iteration paths", n), ">= 1", "anchor-missing")
}

// c01Pref64Lifetime (R-C01-3, arithmetic clause): PREF64 lifetime =
// 3 × MaxRtrAdvInterval rounded up to a multiple of 8 s, capped at 65528 s —
// for every accepted interval, fractional ones included, so the scaling is on
// the duration itself, not on its whole seconds. Decided structurally on the
// three paths of NewPREF64: with A = 3 × maxInterval, the rounding test is
// (A % 8s) > 0 (or != 0), the rounded value A + (8s − A % 8s), the unrounded
// value A, and the cap path returns 65528 s under ¬(A < 65528 s).
func c01Pref64Lifetime(c *Ctx) {
	f := c.P.Func("internal/plugin", "NewPREF64")
	if f == nil {
		return
	}
	fn := c.fname(f)
	const unit = 8 * 1000000000
	isA := func(e *an.Expr) bool {
		// 3 * $maxInterval (a time.Duration)
		if e.Op != an.OpBin || e.Tok != token.MUL {
			return false
		}
		x, k := e.Args[0], e.Args[1]
		if _, isC := x.ConstInt(); isC {
			x, k = k, x
		}
		kv, isC := k.ConstInt()
		return isC && kv == 3 && x.Op == an.OpParam && x.Idx == 1
	}
	const capNS = 8191 * unit
	// X: the value that is rounded: A itself (the path must then have established A < cap), or
	// min(A, cap) (clamped first: the cap is a multiple of the unit, so rounding leaves it alone)
	isX := func(e *an.Expr) (ok, clamped bool) {
		if isA(e) {
			return true, false
		}
		if e.Op == an.OpCall && e.Fn == nil && e.Name == "min" && len(e.Args) == 2 {
			x, k := e.Args[0], e.Args[1]
			if _, isC := x.ConstInt(); isC {
				x, k = k, x
			}
			kv, isC := k.ConstInt()
			return isC && kv == capNS && isA(x), true
		}
		return false, false
	}
	modX := func(e *an.Expr) (*an.Expr, bool) {
		if e.Op != an.OpBin || e.Tok != token.REM {
			return nil, false
		}
		k, isC := e.Args[1].ConstInt()
		if ok, _ := isX(e.Args[0]); ok && isC && k == unit {
			return e.Args[0], true
		}
		return nil, false
	}
	rounded := func(e *an.Expr) (*an.Expr, bool) {
		// X + (8s - X%8s)
		if e.Op != an.OpBin || e.Tok != token.ADD {
			return nil, false
		}
		a, b := e.Args[0], e.Args[1]
		if ok, _ := isX(a); !ok {
			a, b = b, a
		}
		if ok, _ := isX(a); !ok || b.Op != an.OpBin || b.Tok != token.SUB {
			return nil, false
		}
		k, isC := b.Args[0].ConstInt()
		m, okm := modX(b.Args[1])
		return a, isC && k == unit && okm && m.String() == a.String()
	}
	n := 0
	seenCase := map[string]bool{}
	for _, p := range c.pathsO("R-C01-3", f, an.PathOpts{}) {
		if p.Ret == nil {
			continue
		}
		var lt *an.Expr
		p.Results[0].Walk(func(x *an.Expr) bool {
			if x.Op == an.OpStruct {
				if v := raHeader(x)["Lifetime"]; v != nil && lt == nil {
					lt = v
				}
			}
			return true
		})
		if lt == nil {
			for _, fs := range an.FindFieldStores([]*ssa.Function{f}, PkgNDP, "PREF64", "Lifetime") {
				lt = p.Of(fs.Store.Val)
			}
		}
		if lt == nil {
			continue
		}
		n++
		// what the path decided
		needsRound, roundTested, belowCap, capTested := false, false, false, false
		var roundedOf *an.Expr
		for _, a := range p.Atoms {
			x, y, op, ok := effCmp(a)
			if !ok {
				continue
			}
			if m, okm := modX(x); okm {
				if k, isC := y.ConstInt(); isC && k == 0 && (op == token.GTR || op == token.NEQ || op == token.LEQ || op == token.EQL) {
					roundTested = true
					needsRound = op == token.GTR || op == token.NEQ
					roundedOf = m
				}
			}
			if isA(x) && (op == token.LSS || op == token.GEQ) {
				// against the cap of 65528 s
				if k, isC := y.ConstInt(); isC && k == capNS {
					capTested = true
					belowCap = op == token.LSS
				}
			}
		}
		state := fmt.Sprintf("below-cap=%s,needs-rounding=%s", tri(belowCap, capTested), tri(needsRound, roundTested))
		// the rounded value is legitimate when it was clamped first, or when the path knows A < cap
		legit := func(x *an.Expr) bool {
			ok, clamped := isX(x)
			return ok && (clamped || (capTested && belowCap)) && (roundedOf == nil || roundedOf.String() == x.String())
		}
		var ok bool
		switch {
		case capTested && !belowCap:
			k, isC := lt.ConstInt()
			ok = isC && k == capNS
			seenCase["capped"] = true
		case roundTested && needsRound:
			x, okr := rounded(lt)
			ok = okr && legit(x)
			seenCase["rounded"] = true
			if _, cl := isX(x); okr && cl {
				seenCase["capped"] = true
			}
		case roundTested && !needsRound:
			ok = legit(lt)
			seenCase["exact"] = true
			if _, cl := isX(lt); cl {
				seenCase["capped"] = true
			}
		}
		c.R.Check(ok, "R-C01-3", fn+":lifetime-arithmetic@"+state, fn, c.pos(p.Ret.Pos()), fmt.Sprintf("Lifetime = %s under %s", lt, state),
			"3 × maxInterval (clamped to 65528 s before or after), rounded up to a multiple of 8 s when (· % 8s) > 0", "PREF64 lifetime is not 3 × MaxRtrAdvInterval rounded up to a multiple of 8 s")
	}
	c.R.Check(seenCase["capped"] && seenCase["rounded"] && seenCase["exact"], "R-C01-3", fn+":lifetime-paths", fn, c.pos(f.Pos()), fmt.Sprintf("%d path(s) with a lifetime; cases %v", n, seenCase), "the capped, the rounded and the exact case are all present", "the lifetime computation has an unexpected shape")
}

// isWireFormName matches idna.ToUnicode(strings.TrimSuffix(raw.DomainNames[i], "."))#0: a configured DNSSL
// name in the form it has after a wire round trip.
func isWireFormName(e *an.Expr) bool {
	b, idx := stripExtract(e)
	if idx != 0 || b.Op != an.OpCall || b.Fn == nil || b.Fn.String() != "golang.org/x/net/idna.ToUnicode" || len(b.Args) != 1 {
		return false
	}
	t := b.Args[0]
	if t.Op != an.OpCall || t.Fn == nil || t.Fn.String() != "strings.TrimSuffix" || len(t.Args) != 2 || !t.Args[1].IsConst(`"."`) {
		return false
	}
	el := t.Args[0]
	return el.Op == an.OpElem && len(el.Args) == 2 && el.Args[0].IsField("DomainNames") && el.Args[0].Args[0].Op == an.OpParam && el.Args[1].Contains(func(x *an.Expr) bool { return x.Op == an.OpLoop })
}

// c01PrepareKeepsConfig (R-C01-8): Prepare runs on every (re-)dial of the
// advertiser against the plugin instances held by the configuration. It may
// fill in what depends on the interface (address sources, the clock, the
// hardware address) but not state the configuration itself wrote: a value of
// the configuration overwritten by Prepare is gone for every later RA.
// "Configured" is read from the repository: every field of a plugin type that
// package config or a plugin New* constructor stores, and the whole value of a
// plugin type that is not a struct.
func c01PrepareKeepsConfig(c *Ctx) {
	configured := map[string]bool{}
	var prepares []*ssa.Function
	for _, fn := range c.srcFuncs() {
		if fn.Pkg == nil {
			continue
		}
		pp := fn.Pkg.Pkg.Path()
		isCfg := pp == PkgConfig
		isCtor := pp == PkgPlugin && strings.HasPrefix(fn.Name(), "New") && fn.Signature.Recv() == nil
		if pp == PkgPlugin && fn.Name() == "Prepare" && fn.Signature.Recv() != nil {
			prepares = append(prepares, fn)
		}
		if !isCfg && !isCtor {
			continue
		}
		for _, b := range fn.Blocks {
			for _, in := range b.Instrs {
				st, ok := in.(*ssa.Store)
				if !ok {
					continue
				}
				for v := st.Addr; ; {
					fa, ok := v.(*ssa.FieldAddr)
					if !ok {
						break
					}
					if pk, tn, f := an.FieldAddrName(fa); pk == PkgPlugin {
						configured[tn+"."+f] = true
					}
					v = fa.X
				}
			}
		}
	}
	sort.Slice(prepares, func(i, j int) bool { return prepares[i].String() < prepares[j].String() })
	reach := an.ModuleReach(prepares, load.InModule, nil)
	var fns []*ssa.Function
	for f := range reach {
		if f.Pkg != nil && f.Pkg.Pkg.Path() == PkgPlugin {
			fns = append(fns, f)
		}
	}
	sort.Slice(fns, func(i, j int) bool { return fns[i].String() < fns[j].String() })
	n := 0
	for _, fn := range fns {
		name := c.fname(fn)
		for _, b := range fn.Blocks {
			for _, in := range b.Instrs {
				st, ok := in.(*ssa.Store)
				if !ok {
					continue
				}
				root, path := addrRoot(st.Addr)
				par, ok := root.(*ssa.Parameter)
				if !ok {
					continue
				}
				pt, ok := par.Type().(*types.Pointer)
				if !ok {
					continue
				}
				nt, ok := pt.Elem().(*types.Named)
				if !ok || nt.Obj().Pkg() == nil || nt.Obj().Pkg().Path() != PkgPlugin {
					continue
				}
				n++
				tn := nt.Obj().Name()
				target := tn
				bad := false
				if len(path) == 0 {
					target += " (whole value)"
					bad = true // replaces every configured field at once
				} else {
					target = tn + "." + path[0]
					bad = configured[target]
				}
				c.R.Check(!bad, "R-C01-8", name+":prepare-writes:"+target, name, c.pos(st.Pos()), "Prepare stores to "+target,
					"Prepare writes only interface-derived state (fields that neither package config nor a New* constructor sets)",
					"the configured value is overwritten when the advertiser (re-)dials: later RAs no longer carry the configured values")
			}
		}
	}
	c.R.Check(len(configured) >= 20, "R-C01-8", "plugin:configured-fields", "", "", fmt.Sprintf("%d plugin field(s) written by package config / New* constructors", len(configured)), ">= 20", "anchor-missing")
	c.R.Check(n >= 6, "R-C01-8", "plugin:prepare-stores", "", "", fmt.Sprintf("%d store(s) through a Prepare receiver", n), ">= 6", "anchor-missing")
}

// freshRA (shared; R-C01-5 / R-C16-4 / R-C12-4): every RA the advertiser sends,
// verifies against or reports is generated for that very use: each path of
// buildRA that returns without an error returns result #0 of an
// Interface.RouterAdvertisement call made on that path. An RA remembered from
// an earlier call (a memo keyed on anything) is stale as soon as something it
// depends on changes — the hardware address after a re-dial, the interface
// addresses, the clock of a deprecated prefix or route, forwarding.
func freshRA(c *Ctx, rule string) {
	b := c.needMethod(rule, "internal/corerad", "Advertiser", "buildRA")
	if b == nil {
		return
	}
	n := 0
	for _, p := range c.pathsO(rule, b, an.PathOpts{EmitCut: true}) {
		if p.Ret == nil || len(p.Results) != 2 || !exprIsNil(p.Results[1]) {
			continue
		}
		n++
		bb, idx := stripExtract(p.Results[0])
		gen := callsOnPath(p, func(cc *ssa.CallCommon) bool { return an.CallIs(cc, PkgConfig, "Interface", "RouterAdvertisement") })
		ok := idx == 0 && exprCallIs(bb, PkgConfig, "Interface", "RouterAdvertisement") && len(gen) == 1
		c.R.Check(ok, rule, c.fname(b)+":returns-freshly-generated-ra@"+pathShape(p), c.fname(b), c.pos(p.Ret.Pos()),
			fmt.Sprintf("returns %s; %d RouterAdvertisement call(s) on the path", shortExpr(p.Results[0]), len(gen)),
			"result #0 of the one ifi.RouterAdvertisement(forwarding) call made on this path",
			"an RA built earlier is reused: it no longer reflects the hardware address, addresses, clock or forwarding state of this moment")
	}
	c.R.Check(n >= 1, rule, c.fname(b)+":success-paths", c.fname(b), c.pos(b.Pos()), fmt.Sprintf("%d returning path(s) without error", n), ">= 1", "anchor-missing")
}

// everyDialPrepares (R-C01-8, second half): what depends on the interface is
// read again on every dial. Every path of the advertiser's dial callback that
// goes on to transmit or to advertise() has gone through the loop that calls
// Plugin.Prepare (with the interface of this dial) — a dial that skips it keeps
// the hardware address and the address sources of the previous connection.
func everyDialPrepares(c *Ctx, rule string) {
	cl := dialClosure(c, rule, "Advertiser")
	if cl == nil {
		return
	}
	reach := an.ModuleReach([]*ssa.Function{cl}, load.InModule, nil)
	hdrs := map[*ssa.BasicBlock]bool{}
	for f := range reach {
		for _, b := range f.Blocks {
			for _, in := range b.Instrs {
				ci, ok := in.(ssa.CallInstruction)
				if !ok || !ci.Common().IsInvoke() || ci.Common().Method.Name() != "Prepare" {
					continue
				}
				if n, ok := ci.Common().Value.Type().(*types.Named); !ok || n.Obj().Pkg() == nil || n.Obj().Pkg().Path() != PkgPlugin {
					continue
				}
				for h := b; h != nil; h = h.Idom() {
					isHdr := false
					for _, pr := range h.Preds {
						if h.Dominates(pr) {
							isHdr = true
						}
					}
					if isHdr {
						hdrs[h] = true
						break
					}
				}
			}
		}
	}
	c.R.Check(len(hdrs) >= 1, rule, c.fname(cl)+":prepare-loop", c.fname(cl), c.pos(cl.Pos()), fmt.Sprintf("%d loop(s) calling Plugin.Prepare reachable from the dial callback", len(hdrs)), ">= 1", "anchor-missing")
	if len(hdrs) == 0 {
		return
	}
	n, bad := 0, ""
	for _, p := range c.pathsO(rule, cl, an.PathOpts{EmitCut: true}) {
		uses := callsOnPath(p, func(cc *ssa.CallCommon) bool {
			return an.CallIs(cc, PkgCorerad, "Advertiser", "advertise") || an.CallIs(cc, PkgCorerad, "Advertiser", "send")
		})
		if len(uses) == 0 {
			continue
		}
		n++
		visited := false
		for h := range hdrs {
			if p.Visited(h) {
				visited = true
			}
		}
		if !visited {
			bad = "a path reaches " + uses[0].Common().Value.Name() + " without the Prepare loop (under " + atomsString(p) + ")"
		}
	}
	c.R.Check(bad == "" && n >= 1, rule, c.fname(cl)+":every-dial-prepares", c.fname(cl), c.pos(cl.Pos()), fmt.Sprintf("%d path(s) to a transmission; %s", n, bad),
		"every dial runs Plugin.Prepare for each plugin before anything is sent", "RAs after a re-dial carry the hardware address / address sources of the previous connection")
}

// builtOptionsReadOnly (R-C01-9): an RA handed out by buildRA shares memory
// with the configuration — a plugin's Apply may append the option value it
// holds (PREF64 appends its own *ndp.PREF64). The consumers of a built RA
// (advertiser, monitor, debug API, metrics) therefore never write to a field of
// an NDP option they did not allocate themselves: such a write changes the
// configuration, and every RA built afterwards carries the altered value.
// Structural form: outside packages plugin and config no store goes through a
// pointer to an option type of package ndp (a type whose pointer has a Code
// method) unless the pointer is an allocation of the storing function.
func builtOptionsReadOnly(c *Ctx, rule string) {
	isOpt := func(t types.Type) (string, bool) {
		pt, ok := t.Underlying().(*types.Pointer)
		if !ok {
			return "", false
		}
		n, ok := pt.Elem().(*types.Named)
		if !ok || n.Obj().Pkg() == nil || n.Obj().Pkg().Path() != "github.com/mdlayher/ndp" {
			return "", false
		}
		ms := types.NewMethodSet(pt)
		for i := 0; i < ms.Len(); i++ {
			if ms.At(i).Obj().Name() == "Code" {
				return n.Obj().Name(), true
			}
		}
		return "", false
	}
	nFns := 0
	for _, fn := range c.srcFuncs() {
		if fn.Pkg == nil || !strings.HasPrefix(fn.Pkg.Pkg.Path(), Mod) || fn.Pkg.Pkg.Path() == PkgConfig || fn.Pkg.Pkg.Path() == PkgPlugin {
			continue
		}
		nFns++
		for _, b := range fn.Blocks {
			for _, in := range b.Instrs {
				st, ok := in.(*ssa.Store)
				if !ok {
					continue
				}
				// walk the address down to its base pointer
				addr := st.Addr
				for {
					var base ssa.Value
					switch a := addr.(type) {
					case *ssa.FieldAddr:
						base = a.X
					case *ssa.IndexAddr:
						base = a.X
					}
					if base == nil {
						break
					}
					if name, ok := isOpt(base.Type()); ok {
						if _, own := base.(*ssa.Alloc); !own {
							c.R.Fail(rule, c.fname(fn)+":writes-option:"+name, c.fname(fn), c.pos(st.Pos()), "store through a *ndp."+name+" this function did not allocate",
								"a built RA's options are read-only outside packages plugin and config (copy the option before changing it)",
								"the option may be the plugin's own value: the configuration is altered and every later RA carries the changed field")
						}
						break
					}
					addr = base
				}
			}
		}
	}
	c.R.Check(nFns >= 50, rule, "module:functions-scanned-for-option-writes", "", "", fmt.Sprintf("%d function(s) outside packages plugin and config scanned", nFns), ">= 50", "anchor-missing")
}
