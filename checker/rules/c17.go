package rules

import (
	"fmt"
	"go/constant"
	"go/token"
	"go/types"
	"sort"
	"strings"

	"crverif/internal/an"
	"crverif/internal/load"

	"golang.org/x/tools/go/ssa"
)

func init() {
	register(&RuleSet{
		Property: "C17",
		Explanation: "STRUCT/SEE/PATH/GUARD rules: R-C17-1 every NDP option type the plugin package can put into an RA has an arm in crhttp.packOptions (whose default arm panics), and crhttp.preference covers every value config.parsePreference can produce; " +
			"R-C17-2 the const gauges registered in NewMetrics are exactly the names handled by collectMetrics (default arm panics); " +
			"R-C17-3 mirroring: each series/JSON field takes its value and labels from the like-named field of the like-typed option of the same RA, in the documented unit (seconds / milliseconds), interface gauges from Advertise/Monitor/forwarding/autoconf reads; " +
			"R-C17-4 every call through a plugin's func-typed runtime field (populated only by Prepare) is preceded on its path by a non-nil test of that field; R-C17-5 plugin fields written by Prepare and read by Apply must be synchronised (reported as known findings); " +
			"R-C17-6 /metrics is registered only under Debug.Prometheus, /debug/pprof/* only under Debug.PProf, /_/api/interfaces unconditionally; State failures produce an error response / ScrapeError, not a panic R-C17-6 also: a ScrapeError names a metric registered with ConstGauge; R-C17-7 per-option label values are unique among the options of one RA (pairwise check in the parser and no wildcard collision, or de-duplication before emission) — four known findings; R-C17-8 no slice that is re-sliced and refilled on each loop iteration is referenced by a stored entry (scratch-buffer aliasing between rendered options); R-C17-9 Handler.interfaces indexes its output with the interface loop counter only while every iteration appends exactly one entry. R-C17-6 constrains a route by the kind of its handler (pprof handlers under Debug.PProf, the Prometheus handler under Debug.Prometheus); routes with other handlers are not constrained. R-C17-3 also: the debug API stores packRA(ra) with ra generated on that request's path; a series' value and label are taken from the same option element (labels formatted once into a parallel slice are resolved). R-C17-10 outside package config no in-place slice mutator (slices.Delete/DeleteFunc/Insert/Compact/Sort…/Reverse, sort.*, clear) is applied to a []config.Interface the function did not make, and no element of one is stored to (metrics, API and BuildTasks share one backing array).",
		Assumptions: []string{
			"Go type checker and go/ssa construction are correct",
			"a type switch whose default arm panics crashes the request for any unlisted type",
			"metricslite invokes the scrape function with exactly the registered const metric names",
		},
		NotCovered: []string{"whether a scrape or request can block", "a complete data-race analysis of Prepare vs. scrape (only the unsynchronised shared fields are reported)", "JSON encoder behaviour"},
		Run:        runC17,
	})
}

func runC17(c *Ctx) {
	c17UseAfterCheck(c)
	c17APIFresh(c)
	c17InterfaceListShared(c)
	c17Options(c)
	c17ConstMetrics(c)
	c17Mirror(c)
	c17Pack(c)
	c17NilHooks(c)
	c17Shared(c)
	c17Gating(c)
	c17ScrapeErrorMetric(c)
	c17LabelUniqueness(c)
	c17IndexInStep(c)
	c01Purity(c) // shared R-C01-4: a scrape that alters the configuration changes the next RA
	scratchAliasing(c, "R-C17-8", fnsInPkgs(c, "internal/crhttp", "internal/corerad"), "an entry of the API/metrics rendering is overwritten by a later option of the same RA (the JSON no longer mirrors the RA)")
}

func c17Options(c *Ctx) {
	// Produced: concrete types converted to ndp.Option inside package plugin.
	produced := map[string]token.Pos{}
	for _, fn := range c.srcFuncs() {
		if fn.Pkg == nil || fn.Pkg.Pkg.Path() != PkgPlugin {
			continue
		}
		for _, b := range fn.Blocks {
			for _, in := range b.Instrs {
				if mi, ok := in.(*ssa.MakeInterface); ok {
					if n, ok := mi.Type().(*types.Named); ok && n.Obj().Name() == "Option" && n.Obj().Pkg().Path() == PkgNDP {
						produced[typeStr(mi.X.Type())] = mi.Pos()
					}
				}
			}
		}
	}
	po := c.needFunc("R-C17-1", "internal/crhttp", "packOptions")
	if po == nil {
		return
	}
	rendered := map[string]bool{}
	defaultPanics := false
	// packOptions and the helpers it dispatches to (a method holding the type switch, per-kind helpers)
	for fnr := range an.ModuleReach([]*ssa.Function{po}, func(f *ssa.Function) bool {
		return load.InModule(f) && strings.HasPrefix(c.fname(f), "crhttp.") || strings.HasPrefix(c.fname(f), "(*crhttp.") || strings.HasPrefix(c.fname(f), "(crhttp.")
	}, nil) {
		for _, b := range fnr.Blocks {
			for _, in := range b.Instrs {
				if ta, ok := in.(*ssa.TypeAssert); ok && ta.CommaOk {
					rendered[typeStr(ta.AssertedType)] = true
				}
				if _, ok := in.(*ssa.Panic); ok && fnr.Name() != "panicf" {
					defaultPanics = true
				}
				if call, ok := in.(*ssa.Call); ok && an.CallIs(&call.Call, PkgCrhttp, "", "panicf") {
					defaultPanics = true
				}
			}
		}
	}
	var names []string
	for t := range produced {
		names = append(names, t)
	}
	sort.Strings(names)
	for _, t := range names {
		c.R.Check(rendered[t], "R-C17-1", "crhttp.packOptions:renders:"+t, c.fname(po), c.pos(po.Pos()),
			fmt.Sprintf("option type %s is produced by package plugin; packOptions has an arm=%v (default arm panics=%v)", t, rendered[t], defaultPanics),
			"every option kind CoreRAD can advertise is rendered by the debug API", "GET /_/api/interfaces panics for a configuration using this option kind")
	}
	c.R.Floor("R-C17-1", 8)
	// preference(): covers every ndp.Preference value parsePreference produces
	pp := c.P.Func("internal/config", "parsePreference")
	pr := c.needFunc("R-C17-1", "internal/crhttp", "preference")
	if pp != nil && pr != nil {
		prod := map[int64]bool{}
		for _, r := range an.Returns(pp) {
			if k, ok := r.Results[0].(*ssa.Const); ok && exprIsNil(c.XO.Of(r.Results[1])) {
				prod[k.Int64()] = true
			}
		}
		handled := map[int64]bool{}
		for _, b := range pr.Blocks {
			for _, in := range b.Instrs {
				if bo, ok := in.(*ssa.BinOp); ok && bo.Op == token.EQL {
					if k, ok := bo.Y.(*ssa.Const); ok && k.Value != nil && k.Value.Kind() == constant.Int {
						handled[k.Int64()] = true
					}
				}
			}
		}
		// … or looked up in a constant package-level map (a missing key panics / is reported like the default arm)
		for _, b := range pr.Blocks {
			for _, in := range b.Instrs {
				lk, ok := in.(*ssa.Lookup)
				if !ok {
					continue
				}
				if tbl, okT := c.globalConstMap(c.XO.Of(lk.X)); okT {
					for k := range tbl {
						handled[k] = true
					}
				}
			}
		}
		for v := range prod {
			c.R.Check(handled[v], "R-C17-1", fmt.Sprintf("crhttp.preference:handles:%d", v), c.fname(pr), c.pos(pr.Pos()), fmt.Sprintf("preference value %d produced by config; handled=%v", v, handled[v]), "every configurable preference is rendered", "debug API panics for this router/route preference")
		}
	}
}

func c17ConstMetrics(c *Ctx) {
	nm := c.needFunc("R-C17-2", "internal/corerad", "NewMetrics")
	cm := c.needFunc("R-C17-2", "internal/corerad", "collectMetrics")
	if nm == nil || cm == nil {
		return
	}
	registered := map[string]bool{}
	for _, ci := range an.CallsIn(nm) {
		cc := ci.Common()
		if cc.IsInvoke() && cc.Method.Name() == "ConstGauge" {
			if k, ok := cc.Args[0].(*ssa.Const); ok && k.Value != nil {
				registered[constant.StringVal(k.Value)] = true
			}
		}
	}
	handled := map[string]bool{}
	for _, b := range cm.Blocks {
		for _, in := range b.Instrs {
			if bo, ok := in.(*ssa.BinOp); ok && bo.Op == token.EQL {
				if k, ok := bo.Y.(*ssa.Const); ok && k.Value != nil && k.Value.Kind() == constant.String {
					handled[constant.StringVal(k.Value)] = true
				}
			}
		}
	}
	all := map[string]bool{}
	for k := range registered {
		all[k] = true
	}
	for k := range handled {
		all[k] = true
	}
	var names []string
	for k := range all {
		names = append(names, k)
	}
	sort.Strings(names)
	for _, k := range names {
		c.R.Check(registered[k] && handled[k], "R-C17-2", "corerad.const-metric:"+k, c.fname(cm), c.pos(cm.Pos()),
			fmt.Sprintf("registered in NewMetrics=%v, handled in collectMetrics=%v", registered[k], handled[k]),
			"registered const gauges == names handled by collectMetrics", "a scrape panics on an unhandled metric, or a documented series is never produced")
	}
	c.R.Floor("R-C17-2", 12)
}

// metricOfPath returns the metric name selected on a collectMetrics path: the
// string constant of the last satisfied `key == "name"` atom.
func metricOfPath(p *an.Path) string {
	name := ""
	for _, a := range p.Atoms {
		x, y, op, ok := effCmp(a)
		if ok && op == token.EQL && y.Op == an.OpConst && y.Cval != nil && y.Cval.Kind() == constant.String && x.Op == an.OpElem && x.Name == "key" {
			name = constant.StringVal(y.Cval)
		}
	}
	return name
}

func c17Mirror(c *Ctx) {
	cm := c.P.Func("internal/corerad", "collectMetrics")
	if cm == nil {
		return
	}
	fn := c.fname(cm)
	ps := c.pathsO("R-C17-3", cm, an.PathOpts{EmitCut: true})
	isCtx := func(e *an.Expr, f string) bool {
		return e.IsField(f) && e.Args[0].Op == an.OpParam && e.Args[0].Name == "mctx"
	}
	optOf := func(e *an.Expr, typ string) bool {
		// element of pick[typ](mctx.Advertisement.Options)
		if e.Op != an.OpElem {
			return false
		}
		pk := e.Args[0]
		return exprCallIs(pk, PkgCorerad, "", "pick") && strings.Contains(pk.Name, typ) && len(pk.Args) == 1 && pk.Args[0].IsField("Options") && isCtx(pk.Args[0].Args[0], "Advertisement")
	}
	secondsOf := func(e *an.Expr, field, typ string) bool {
		return e.Op == an.OpCall && e.Fn != nil && e.Fn.String() == "(time.Duration).Seconds" && e.Args[0].IsField(field) && optOf(e.Args[0].Args[0], typ)
	}
	boolOf := func(e *an.Expr, field, typ string) bool {
		return exprCallIs(e, PkgCorerad, "", "boolFloat") && e.Args[0].IsField(field) && optOf(e.Args[0].Args[0], typ)
	}
	boolCtx := func(e *an.Expr, field string) bool {
		return exprCallIs(e, PkgCorerad, "", "boolFloat") && isCtx(e.Args[0], field)
	}
	strOf := func(e *an.Expr, helper, typ string) bool {
		e = parallelElem(c, e) // a label formatted once per option into a parallel local slice
		return exprCallIs(e, PkgCorerad, "", helper) && len(e.Args) == 1 && optOf(e.Args[0], typ)
	}
	type spec struct {
		value func(*an.Expr) bool
		label func(*an.Expr) bool // second label (first is always mctx.Interface); nil = none
		want  string
	}
	table := map[string]spec{
		"corerad_interface_advertising":       {func(e *an.Expr) bool { return boolCtx(e, "Advertising") }, nil, "boolFloat(mctx.Advertising)"},
		"corerad_interface_autoconfiguration": {func(e *an.Expr) bool { return boolCtx(e, "Autoconfiguration") }, nil, "boolFloat(mctx.Autoconfiguration)"},
		"corerad_interface_forwarding":        {func(e *an.Expr) bool { return boolCtx(e, "Forwarding") }, nil, "boolFloat(mctx.Forwarding)"},
		"corerad_interface_monitoring":        {func(e *an.Expr) bool { return boolCtx(e, "Monitoring") }, nil, "boolFloat(mctx.Monitoring)"},
		"corerad_advertiser_misconfiguration": {func(e *an.Expr) bool { k, ok := e.ConstInt(); return ok && k == 1 },
			func(e *an.Expr) bool { return e.IsConst(`"interface_not_forwarding"`) }, `1; label "interface_not_forwarding"`},
		"corerad_advertiser_dnssl_lifetime_seconds": {func(e *an.Expr) bool { return secondsOf(e, "Lifetime", "DNSSearchList") },
			func(e *an.Expr) bool {
				return e.Op == an.OpCall && e.Fn != nil && e.Fn.String() == "strings.Join" && e.Args[0].IsField("DomainNames") && optOf(e.Args[0].Args[0], "DNSSearchList")
			}, "dnssl.Lifetime.Seconds(); label strings.Join(dnssl.DomainNames, ...)"},
		"corerad_advertiser_prefix_autonomous": {func(e *an.Expr) bool { return boolOf(e, "AutonomousAddressConfiguration", "PrefixInformation") },
			func(e *an.Expr) bool { return strOf(e, "prefixStr", "PrefixInformation") }, "boolFloat(p.AutonomousAddressConfiguration); label prefixStr(p)"},
		"corerad_advertiser_prefix_on_link": {func(e *an.Expr) bool { return boolOf(e, "OnLink", "PrefixInformation") },
			func(e *an.Expr) bool { return strOf(e, "prefixStr", "PrefixInformation") }, "boolFloat(p.OnLink); label prefixStr(p)"},
		"corerad_advertiser_prefix_valid_seconds": {func(e *an.Expr) bool { return secondsOf(e, "ValidLifetime", "PrefixInformation") },
			func(e *an.Expr) bool { return strOf(e, "prefixStr", "PrefixInformation") }, "p.ValidLifetime.Seconds(); label prefixStr(p)"},
		"corerad_advertiser_prefix_preferred_seconds": {func(e *an.Expr) bool { return secondsOf(e, "PreferredLifetime", "PrefixInformation") },
			func(e *an.Expr) bool { return strOf(e, "prefixStr", "PrefixInformation") }, "p.PreferredLifetime.Seconds(); label prefixStr(p)"},
		"corerad_advertiser_rdnss_lifetime_seconds": {func(e *an.Expr) bool { return secondsOf(e, "Lifetime", "RecursiveDNSServer") },
			func(e *an.Expr) bool {
				return exprCallIs(e, PkgCorerad, "", "stringerStr") && e.Args[0].IsField("Servers") && optOf(e.Args[0].Args[0], "RecursiveDNSServer")
			}, "rdnss.Lifetime.Seconds(); label stringerStr(rdnss.Servers)"},
		"corerad_advertiser_route_lifetime_seconds": {func(e *an.Expr) bool { return secondsOf(e, "RouteLifetime", "RouteInformation") },
			func(e *an.Expr) bool { return strOf(e, "routeStr", "RouteInformation") }, "route.RouteLifetime.Seconds(); label routeStr(route)"},
	}
	done := map[string]bool{}
	for _, p := range ps {
		if p.Panic != nil {
			continue
		}
		hasAdv := false
		for _, a := range p.Atoms {
			x, y, op, ok := effCmp(a)
			if ok && isCtx(x, "Advertisement") && exprIsNil(y) {
				hasAdv = op == token.NEQ
			}
		}
		name := metricOfPath(p)
		if name == "" {
			continue
		}
		// emissions: dynamic calls through the map value of this iteration
		var ems []ssa.CallInstruction
		p.Instrs(func(in ssa.Instruction) {
			ci, ok := in.(ssa.CallInstruction)
			if !ok || ci.Common().IsInvoke() {
				return
			}
			if nx, idx := rangeEntry(ci.Common().Value); nx != nil && idx == 2 {
				ems = append(ems, ci)
			}
		})
		sp, known := table[name]
		if !known {
			if len(ems) > 0 && !done["?"+name] {
				done["?"+name] = true
				c.R.Fail("R-C17-3", fn+":series:"+name, fn, c.pos(ems[0].Pos()), "series "+name+" has no entry in the mirroring table", "documented series only", "an undocumented series is exported; its source cannot be checked")
			}
			continue
		}
		perOption := strings.HasPrefix(name, "corerad_advertiser_") && name != "corerad_advertiser_misconfiguration"
		if perOption && !hasAdv {
			continue // no advertisement: loops over nil slices
		}
		if len(ems) == 0 {
			continue // zero-iteration path of a per-option loop
		}
		for _, ci := range ems {
			args := ci.Common().Args
			val := p.Of(args[0])
			lbl := p.Of(args[1])
			var labels []*an.Expr
			if lbl.Op == an.OpStruct && lbl.Name == "list" {
				labels = lbl.Args
			}
			ok := sp.value(val) && len(labels) >= 1 && isCtx(labels[0], "Interface")
			if sp.label == nil {
				ok = ok && len(labels) == 1
			} else {
				ok = ok && len(labels) == 2 && sp.label(labels[1])
				// value and label describe the same option: one element of the pick, not two
				if ok {
					elems := map[string]bool{}
					for _, e := range []*an.Expr{val, parallelElem(c, labels[1])} {
						e.Walk(func(x *an.Expr) bool {
							if x.Op == an.OpElem && len(x.Args) >= 1 && exprCallIs(x.Args[0], PkgCorerad, "", "pick") {
								k := x.Args[0].Name + "[]"
								if len(x.Args) == 2 {
									k = x.Args[0].Name + "[" + x.Args[1].String() + "]"
								}
								elems[k] = true
							}
							return true
						})
					}
					ok = len(elems) <= 1
				}
			}
			key := fn + ":series:" + name
			if done[key] && ok {
				continue
			}
			done[key] = true
			c.R.Check(ok && len(ems) == 1, "R-C17-3", key, fn, c.pos(ci.Pos()), fmt.Sprintf("c(%s; %s) ×%d per element", val, lbl, len(ems)), sp.want+"; first label mctx.Interface; one sample per element",
				"exported series does not mirror the RA that would be sent (wrong field, unit, label or multiplicity)")
		}
	}
	for name := range table {
		if !done[fn+":series:"+name] {
			c.R.Fail("R-C17-3", fn+":series:"+name, fn, c.pos(cm.Pos()), "no emission found for "+name, "every documented series is produced", "series missing")
		}
	}

	// constScrape: interface gauges come from the right reads
	if cs := c.needMethod("R-C17-3", "internal/corerad", "Metrics", "constScrape"); cs != nil {
		ifiField := func(e *an.Expr, f string) bool { return e != nil && e.IsField(f) && e.Args[0].Op == an.OpElem }
		stateRead := func(e *an.Expr, m string) bool {
			if e == nil {
				return false
			}
			b, idx := stripExtract(e)
			return idx == 0 && exprCallIs(b, PkgSystem, "State", m) && b.Args[len(b.Args)-1].IsField("Name")
		}
		ctxOK := map[string]bool{}
		ctxFact := map[string]string{}
		var ctxPos string
		// per iteration (path-sensitive): the RA and misconfigurations handed to collectMetrics are those of THIS
		// interface's RouterAdvertisement call when it advertises, and nothing (nil) when it does not
		nIter := 0
		for _, p := range c.pathsO("R-C17-3", cs, an.PathOpts{EmitCut: true}) {
			calls := callsOnPath(p, func(cc *ssa.CallCommon) bool { return an.CallIs(cc, PkgCorerad, "", "collectMetrics") })
			if len(calls) == 0 {
				continue
			}
			nIter++
			adv, tested := false, false
			for _, a := range p.Atoms {
				if a.Cond.IsField("Advertise") {
					adv, tested = a.Pos, true
				}
			}
			flds := raHeader(p.Of(calls[0].Common().Args[1]))
			ok := flds != nil && tested
			fact := "metricsContext not a literal"
			ctxPos = c.pos(calls[0].Pos())
			if flds != nil {
				for k, v := range map[string]bool{
					"Interface":         ifiField(flds["Interface"], "Name"),
					"Advertising":       ifiField(flds["Advertising"], "Advertise"),
					"Monitoring":        ifiField(flds["Monitoring"], "Monitor"),
					"Autoconfiguration": stateRead(flds["Autoconfiguration"], "IPv6Autoconf"),
					"Forwarding":        stateRead(flds["Forwarding"], "IPv6Forwarding"),
				} {
					if prev, seen := ctxOK[k]; !seen || (prev && !v) {
						ctxOK[k] = v
						ctxFact[k] = fmt.Sprintf("%s ⇐ %v", k, flds[k])
					}
				}
			}
			if flds != nil {
				ra, ms := flds["Advertisement"], flds["Misconfigurations"]
				fact = fmt.Sprintf("Advertisement=%v Misconfigurations=%v", ra, ms)
				if adv {
					rb, ri := stripExtractP(ra)
					mb, mi := stripExtractP(ms)
					ok = ok && ri == 0 && mi == 1 && exprCallIs(rb, PkgConfig, "Interface", "RouterAdvertisement") && sameValue(rb, mb)
				} else {
					ok = ok && (ra == nil || exprIsNil(ra) || exprIsZero(ra)) && (ms == nil || exprIsNil(ms) || exprIsZero(ms))
				}
			}
			c.R.Check(ok, "R-C17-3", fmt.Sprintf("%s:per-interface-ra@advertise=%v", c.fname(cs), adv), c.fname(cs), c.pos(calls[0].Pos()), fact,
				"an advertising interface reports the RA it would send now; a non-advertising interface reports no RA (nothing carried over from another interface)",
				"samples of one interface's RA are exported under another interface")
		}
		for _, k := range []string{"Advertising", "Autoconfiguration", "Forwarding", "Interface", "Monitoring"} {
			v, seen := ctxOK[k]
			fact := ctxFact[k]
			if !seen {
				fact = k + " not found in the context handed to collectMetrics"
			}
			c.R.Check(seen && v, "R-C17-3", c.fname(cs)+":context."+k, c.fname(cs), ctxPos, fact,
				"Interface⇐ifi.Name, Advertising⇐ifi.Advertise, Monitoring⇐ifi.Monitor, Autoconfiguration⇐State.IPv6Autoconf(ifi.Name), Forwarding⇐State.IPv6Forwarding(ifi.Name)",
				"interface gauges swapped or fed from the wrong source")
		}
		c.R.Check(nIter >= 2, "R-C17-3", c.fname(cs)+":iterations", c.fname(cs), c.pos(cs.Pos()), fmt.Sprintf("%d iteration path(s)", nIter), ">= 2", "anchor-missing")
		// State errors become ScrapeErrors
		for _, p := range c.pathsO("R-C17-6", cs, an.PathOpts{EmitCut: true}) {
			if p.Panic != nil {
				c.R.Fail("R-C17-6", c.fname(cs)+":panic-exit", c.fname(cs), c.pos(cs.Pos()), "scrape can panic", "errors are reported as ScrapeError", "a State failure crashes the scrape")
			}
			if p.Ret == nil {
				continue
			}
			failed := false
			for _, a := range p.Atoms {
				x, y, op, ok := effCmp(a)
				if ok && exprIsNil(y) && op == token.NEQ {
					if _, idx := stripExtract(x); idx >= 1 {
						failed = true
					}
				}
			}
			if failed {
				c.R.Check(!exprIsNil(p.Results[0]), "R-C17-6", c.fname(cs)+":error-reported@"+lastAtomName(p), c.fname(cs), c.pos(p.Ret.Pos()), "returns "+p.Results[0].String(), "a non-nil ScrapeError", "State/RA failure swallowed by the scrape")
			}
		}
	}
}

// jsonTable: JSON struct field ⇐ (source field, unit) for packRA/packOptions.
func c17Pack(c *Ctx) {
	pr := c.needFunc("R-C17-3", "internal/crhttp", "packRA")
	if pr != nil {
		intOf := func(e *an.Expr) *an.Expr {
			if e.Op != an.OpConv || !strings.HasSuffix(e.Name, "int") {
				return nil
			}
			// int(int64(x)): conversions between integer types in between do not change the value rendered
			x := e.Args[0]
			for x.Op == an.OpConv && len(x.Args) == 1 && x.Typ != nil {
				if b, ok := x.Typ.Underlying().(*types.Basic); !ok || b.Info()&types.IsInteger == 0 {
					break
				}
				x = x.Args[0]
			}
			return x
		}
		durOf := func(e *an.Expr, unit, field string) bool {
			x := intOf(e)
			return x != nil && x.Op == an.OpCall && x.Fn != nil && x.Fn.String() == "(time.Duration)."+unit && x.Args[0].IsField(field) && x.Args[0].Args[0].Op == an.OpParam
		}
		plain := func(field string) func(*an.Expr) bool {
			return func(e *an.Expr) bool { return e.IsField(field) && e.Args[0].Op == an.OpParam }
		}
		want := map[string]func(*an.Expr) bool{
			"CurrentHopLimit": func(e *an.Expr) bool {
				x := intOf(e)
				return x != nil && x.IsField("CurrentHopLimit")
			},
			"ManagedConfiguration":   plain("ManagedConfiguration"),
			"OtherConfiguration":     plain("OtherConfiguration"),
			"MobileIPv6HomeAgent":    plain("MobileIPv6HomeAgent"),
			"NeighborDiscoveryProxy": plain("NeighborDiscoveryProxy"),
			"RouterSelectionPreference": func(e *an.Expr) bool {
				return exprCallIs(e, PkgCrhttp, "", "preference") && e.Args[0].IsField("RouterSelectionPreference")
			},
			"RouterLifetimeSeconds":       func(e *an.Expr) bool { return durOf(e, "Seconds", "RouterLifetime") },
			"ReachableTimeMilliseconds":   func(e *an.Expr) bool { return durOf(e, "Milliseconds", "ReachableTime") },
			"RetransmitTimerMilliseconds": func(e *an.Expr) bool { return durOf(e, "Milliseconds", "RetransmitTimer") },
			"Options": func(e *an.Expr) bool {
				return exprCallIs(e, PkgCrhttp, "", "packOptions") && e.Args[0].IsField("Options")
			},
		}
		for _, r := range an.Returns(pr) {
			flds := raHeader(c.XO.Of(r.Results[0]))
			var keys []string
			for k := range want {
				keys = append(keys, k)
			}
			sort.Strings(keys)
			for _, k := range keys {
				v := flds[k]
				c.R.Check(v != nil && want[k](v), "R-C17-3", "crhttp.packRA:"+k, c.fname(pr), c.pos(r.Pos()), fmt.Sprintf("%s ⇐ %v", k, v), "the like-named RA field in the documented unit", "debug API does not mirror the RA (wrong field or unit)")
			}
		}
	}
	// packOptions arms
	po := c.P.Func("internal/crhttp", "packOptions")
	if po == nil {
		return
	}
	fn := c.fname(po)
	ps := c.pathsO("R-C17-3", po, an.PathOpts{EmitCut: true})
	type fieldSpec struct{ jsonField, srcField, unit string }
	specs := map[string][]fieldSpec{
		"*ndp.DNSSearchList":      {{"LifetimeSeconds", "Lifetime", "Seconds"}, {"DomainNames", "DomainNames", ""}},
		"*ndp.PrefixInformation":  {{"OnLink", "OnLink", ""}, {"AutonomousAddressAutoconfiguration", "AutonomousAddressConfiguration", ""}, {"ValidLifetimeSeconds", "ValidLifetime", "Seconds"}, {"PreferredLifetimeSeconds", "PreferredLifetime", "Seconds"}},
		"*ndp.RecursiveDNSServer": {{"LifetimeSeconds", "Lifetime", "Seconds"}},
		"*ndp.RouteInformation":   {{"RouteLifetimeSeconds", "RouteLifetime", "Seconds"}},
		"*ndp.PREF64":             {{"LifetimeSeconds", "Lifetime", "Seconds"}},
	}
	seen := map[string]bool{}
	for _, p := range ps {
		arm := typeSwitchArm(p)
		sp, ok := specs[arm]
		if !ok || !p.Cut || seen[arm] {
			continue
		}
		// the struct appended on this path
		var lit *an.Expr
		p.Instrs(func(in ssa.Instruction) {
			if call, ok := in.(*ssa.Call); ok {
				if b, ok := call.Call.Value.(*ssa.Builtin); ok && b.Name() == "append" {
					e := p.Of(call)
					if e.Op == an.OpAppend && len(e.Args) == 2 && e.Args[1].Op == an.OpStruct && e.Args[1].Name == "list" && len(e.Args[1].Args) == 1 {
						if x := e.Args[1].Args[0]; x != nil && x.Op == an.OpStruct && x.Name == "" {
							lit = x
						}
					}
				}
			}
		})
		if lit == nil {
			continue
		}
		seen[arm] = true
		flds := raHeader(lit)
		for _, fs := range sp {
			v := flds[fs.jsonField]
			ok := v != nil
			if ok {
				src := v
				if fs.unit != "" {
					ok = v.Op == an.OpConv && v.Args[0].Op == an.OpCall && v.Args[0].Fn != nil && v.Args[0].Fn.String() == "(time.Duration)."+fs.unit
					if ok {
						src = v.Args[0].Args[0]
						// option lifetimes go up to 2^32-1 seconds ("infinite"): the integer type of the rendering must
						// hold that on this build target (a plain int is 32 bits wide on 386/arm)
						if !holdsUint32(c, v.Typ) {
							ok = false
							v = &an.Expr{Op: an.OpUnknown, Name: fmt.Sprintf("%s — %s cannot represent 4294967295 on %s", v, typeStr(v.Typ), c.P.Cfg)}
						}
					}
				}
				ok = ok && src.IsField(fs.srcField) && src.Args[0].Op == an.OpExtract && src.Args[0].Args[0].Op == an.OpTypeAssert
			}
			c.R.Check(ok, "R-C17-3", fmt.Sprintf("%s:%s.%s", fn, arm, fs.jsonField), fn, c.pos(po.Pos()), fmt.Sprintf("%s ⇐ %v", fs.jsonField, v),
				fmt.Sprintf("option.%s%s", fs.srcField, map[bool]string{true: " in " + fs.unit, false: ""}[fs.unit != ""]), "debug API JSON does not mirror the option (wrong field or unit)")
		}
	}
	for arm := range specs {
		if !seen[arm] {
			c.R.Fail("R-C17-3", fn+":"+arm, fn, c.pos(po.Pos()), "no arm appending a rendering of "+arm, "every list-valued option kind is rendered as one JSON object per option", "option kind not rendered")
		}
	}
}

func c17NilHooks(c *Ctx) {
	n := 0
	for _, fn := range c.srcFuncs() {
		if fn.Pkg == nil || fn.Pkg.Pkg.Path() != PkgPlugin {
			continue
		}
		// does the function call through a func-typed field of a plugin struct?
		has := false
		for _, ci := range an.CallsIn(fn) {
			if fa := funcFieldOf(ci.Common()); fa != nil {
				has = true
			}
		}
		if !has {
			continue
		}
		ps := c.pathsO("R-C17-4", fn, an.PathOpts{EmitCut: true})
		reported := map[string]bool{}
		for _, p := range ps {
			tested := map[string]bool{}
			for _, a := range p.Atoms {
				x, y, op, ok := effCmp(a)
				if ok && exprIsNil(y) && op == token.NEQ && x.Op == an.OpField {
					tested[x.String()] = true
				}
			}
			p.Instrs(func(in ssa.Instruction) {
				ci, ok := in.(ssa.CallInstruction)
				if !ok || ci.Common().IsInvoke() {
					return
				}
				callee := p.Of(ci.Common().Value)
				if callee.Op != an.OpField {
					return
				}
				if _, isSig := callee.Typ.Underlying().(*types.Signature); !isSig {
					return
				}
				key := fmt.Sprintf("%s:calls-%s", c.fname(fn), callee.Name)
				okc := tested[callee.String()]
				if reported[key] && okc {
					return
				}
				if !reported[key] {
					n++
				}
				reported[key] = true
				c.R.Check(okc, "R-C17-4", key, c.fname(fn), c.pos(ci.Pos()), fmt.Sprintf("call through %s; non-nil tested on this path=%v", callee, okc),
					"runtime hooks populated only by Prepare are called only after a non-nil test (or a default is substituted)",
					"a scrape or API request before the interface has been initialised calls a nil function and crashes the daemon")
			})
		}
	}
	c.R.Check(n >= 3, "R-C17-4", "plugin:hook-call-sites", "", "", fmt.Sprintf("%d hook call site(s)", n), ">= 3", "anchor-missing")
}

// funcFieldOf returns the FieldAddr when cc calls through a func-typed field of a struct in package plugin.
func funcFieldOf(cc *ssa.CallCommon) *ssa.FieldAddr {
	if cc.IsInvoke() {
		return nil
	}
	var find func(v ssa.Value, depth int) *ssa.FieldAddr
	find = func(v ssa.Value, depth int) *ssa.FieldAddr {
		if depth > 3 {
			return nil
		}
		switch x := v.(type) {
		case *ssa.UnOp:
			if fa, ok := x.X.(*ssa.FieldAddr); ok {
				pkg, _, _ := an.FieldAddrName(fa)
				if pkg == PkgPlugin {
					return fa
				}
			}
		case *ssa.Phi:
			for _, e := range x.Edges {
				if fa := find(e, depth+1); fa != nil {
					return fa
				}
			}
		}
		return nil
	}
	return find(cc.Value, 0)
}

func c17Shared(c *Ctx) {
	// Fields of plugin types stored by a Prepare method and loaded in the Apply call graph.
	written := map[string]token.Pos{}
	for _, fn := range c.srcFuncs() {
		if fn.Pkg == nil || fn.Pkg.Pkg.Path() != PkgPlugin || fn.Name() != "Prepare" {
			continue
		}
		for _, b := range fn.Blocks {
			for _, in := range b.Instrs {
				if st, ok := in.(*ssa.Store); ok {
					if fa, ok := st.Addr.(*ssa.FieldAddr); ok {
						_, typ, f := an.FieldAddrName(fa)
						written[typ+"."+f] = st.Pos()
					}
				}
			}
		}
	}
	var keys []string
	for k := range written {
		keys = append(keys, k)
	}
	sort.Strings(keys)
	for _, k := range keys {
		// any synchronisation? look for a mutex/atomic field in the struct type
		typ := strings.SplitN(k, ".", 2)[0]
		synced := false
		if n := c.P.Named("internal/plugin", typ); n != nil {
			if st, ok := n.Underlying().(*types.Struct); ok {
				for i := 0; i < st.NumFields(); i++ {
					ts := typeStr(st.Field(i).Type())
					if strings.Contains(ts, "sync.") || strings.Contains(ts, "atomic.") {
						synced = true
					}
				}
			}
		}
		c.R.Check(synced, "R-C17-5", "plugin."+k+":shared-unsynchronised", "(*plugin."+typ+").Prepare", c.pos(written[k]),
			fmt.Sprintf("field %s is written by Prepare (advertiser goroutine) and read by Apply (metrics scrape / debug API goroutines); struct has a mutex/atomic: %v", k, synced),
			"fields shared between the advertiser's Prepare and concurrent Apply calls are accessed under a common mutex or atomically",
			"data race between (re)initialisation and a concurrent scrape/API request on this field")
	}
}

func c17Gating(c *Ctx) {
	nh := c.needFunc("R-C17-6", "internal/crhttp", "NewHandler")
	if nh == nil {
		return
	}
	fn := c.fname(nh)
	// Decided on the enumerated paths of NewHandler (registration helpers in line). A route may be
	// registered with a constant pattern, or row by row from a literal table of {pattern, …} structs: then
	// every row is decided separately, a condition on a field of the row being read from that row.
	n := 0
	type verdict struct {
		ok   bool
		fact string
		pos  string
	}
	routes := map[string]*verdict{}
	var order []string
	fieldOfRow := func(row *an.Expr, name string) *an.Expr {
		if row.Op == an.OpNew && len(row.Args) == 1 {
			row = row.Args[0]
		}
		if row.Op != an.OpStruct || row.Typ == nil {
			return nil
		}
		st, ok := row.Typ.Underlying().(*types.Struct)
		if !ok {
			if pt, isP := row.Typ.Underlying().(*types.Pointer); isP {
				st, ok = pt.Elem().Underlying().(*types.Struct)
			}
		}
		if !ok {
			return nil
		}
		for i := 0; i < st.NumFields() && i < len(row.Args); i++ {
			if st.Field(i).Name() == name {
				return row.Args[i]
			}
		}
		return nil
	}
	for _, p := range c.pathsO("R-C17-6", nh, an.PathOpts{EmitCut: true}) {
		type reg struct {
			ci  ssa.CallInstruction
			pat *an.Expr
		}
		var regs []reg
		seq := map[ssa.Instruction]int{}
		p.Instrs(func(in ssa.Instruction) {
			seq[in] = len(seq)
			ci, ok := in.(ssa.CallInstruction)
			if !ok {
				return
			}
			f := an.CalleeObj(ci.Common())
			if f == nil || f.Pkg() == nil || f.Pkg().Path() != "net/http" || (f.Name() != "Handle" && f.Name() != "HandleFunc") {
				return
			}
			regs = append(regs, reg{ci, p.Of(ci.Common().Args[1])})
		})
		for _, rg := range regs {
			// rows: (pattern, the table element expression, the row literal)
			type rowT struct {
				pattern string
				elem    *an.Expr
				row     *an.Expr
			}
			var rows []rowT
			if s, ok := constString(rg.pat); ok {
				rows = append(rows, rowT{s, nil, nil})
			} else if rg.pat.Op == an.OpField && len(rg.pat.Args) == 1 && rg.pat.Args[0].Op == an.OpElem && len(rg.pat.Args[0].Args) >= 1 {
				elem := rg.pat.Args[0]
				var literalRows []*an.Expr
				if tbl := elem.Args[0]; tbl.Op == an.OpStruct && tbl.Name == "list" {
					literalRows = tbl.Args
				} else if gr, ok := c.globalStructTable(tbl); ok {
					literalRows = gr
				}
				if len(literalRows) == 0 {
					rows = nil
				}
				for _, row := range literalRows {
					if row == nil {
						continue
					}
					if pv := fieldOfRow(row, rg.pat.Name); pv != nil {
						if s, ok := constString(pv); ok {
							rows = append(rows, rowT{s, elem, row})
							continue
						}
					}
					rows = nil
					break
				}
			}
			if len(rows) == 0 {
				c.R.Undecided("R-C17-6", fn+":route-pattern", fn, c.pos(rg.ci.Pos()), "route pattern is neither a constant nor a field of a literal table row: "+rg.pat.String())
				continue
			}
			for _, row := range rows {
				// configuration flags established on the path for this row
				flags := map[string]bool{}
				for _, a := range p.Atoms {
					// only conditions decided before the registration guard it
					if a.If != nil {
						if k, known := seq[a.If]; known && k > seq[rg.ci.(ssa.Instruction)] {
							continue
						}
					}
					e := a.Cond
					if row.elem != nil && e.Op == an.OpField && len(e.Args) == 1 && sameValue(e.Args[0], row.elem) {
						if v := fieldOfRow(row.row, e.Name); v != nil {
							e = v
						}
					}
					if e.Op == an.OpField && len(e.Args) == 1 && e.Args[0].IsField("Debug") && a.Pos {
						flags[e.Name] = true
					}
				}
				route := row.pattern
				want := ""
				switch {
				case route == "/metrics":
					want = "Prometheus"
				case strings.HasPrefix(route, "/debug/pprof"):
					want = "PProf"
				case route == "/_/api/interfaces":
					want = ""
				default:
					// another route (a build-info endpoint, say): the property only constrains what serves the
					// metrics and the profiler, so what matters is the handler, not the path
					want = "-"
					if args := rg.ci.Common().Args; len(args) >= 1 {
						h := p.Of(args[len(args)-1])
						switch {
						case h.Contains(func(x *an.Expr) bool {
							return (x.Op == an.OpFunc || x.Op == an.OpClosure || x.Op == an.OpCall) && x.Fn != nil && x.Fn.Pkg != nil && x.Fn.Pkg.Pkg.Path() == "net/http/pprof"
						}):
							want = "PProf"
						case h.Contains(func(x *an.Expr) bool { return x.Op == an.OpParam && x.Name == "prom" }) || strings.Contains(h.String(), "promhttp"):
							want = "Prometheus"
						}
					}
				}
				if want == "-" {
					continue // neither the metrics nor the profiler: not constrained by C17
				}
				ok2 := true
				fact := "unconditional"
				if want == "" {
					ok2 = len(flags) == 0
					if !ok2 {
						fact = "conditional"
					}
				} else {
					ok2 = flags[want]
					fact = fmt.Sprintf("registered on a path that established cfg.Debug.%s: %v (flags %v)", want, ok2, keysOf(flags))
				}
				v := routes[route]
				if v == nil {
					v = &verdict{ok: true, pos: c.pos(rg.ci.Pos())}
					routes[route] = v
					order = append(order, route)
					n++
				}
				if !ok2 {
					v.ok = false
				}
				if v.fact == "" || !ok2 {
					v.fact = fact
				}
			}
		}
	}
	for _, route := range order {
		v := routes[route]
		c.R.Check(v.ok, "R-C17-6", fn+":route:"+route, fn, v.pos, v.fact,
			"/metrics only under Debug.Prometheus, /debug/pprof/* only under Debug.PProf, /_/api/interfaces always", "a debug endpoint is served when disabled (or the API is missing)")
	}
	_ = n
	c.R.Floor("R-C17-6", 7)
	// interfaces handler: State/RA errors → errorf + return, no panic
	if ih := c.needMethod("R-C17-6", "internal/crhttp", "Handler", "interfaces"); ih != nil {
		for _, p := range c.pathsO("R-C17-6", ih, an.PathOpts{EmitCut: true}) {
			if p.Panic != nil {
				c.R.Fail("R-C17-6", c.fname(ih)+":panic-exit", c.fname(ih), c.pos(ih.Pos()), "handler can panic", "errors produce an error response", "a State failure crashes the request")
				continue
			}
			if p.Ret == nil {
				continue
			}
			failed := false
			for _, a := range p.Atoms {
				x, y, op, ok := effCmp(a)
				if ok && exprIsNil(y) && op == token.NEQ {
					if _, idx := stripExtract(x); idx >= 1 {
						failed = true
					}
				}
			}
			if failed {
				// an error response: http.Error reached on the path, directly or through a helper of the package
				// that calls it (errorf, or whatever it is called after a tidy-up)
				direct := callsOnPath(p, func(cc *ssa.CallCommon) bool {
					fo := an.CalleeObj(cc)
					return fo != nil && fo.Pkg() != nil && fo.Pkg().Path() == "net/http" && fo.Name() == "Error"
				})
				errs := direct
				if len(direct) == 0 {
					errs = callsOnPath(p, func(cc *ssa.CallCommon) bool {
						callee := an.StaticCallee(cc)
						if callee == nil || callee.Blocks == nil || !load.InModule(callee) {
							return false
						}
						for _, ci := range an.CallsIn(callee) {
							if fo := an.CalleeObj(ci.Common()); fo != nil && fo.Pkg() != nil && fo.Pkg().Path() == "net/http" && fo.Name() == "Error" {
								return true
							}
						}
						return false
					})
				}
				c.R.Check(len(errs) == 1, "R-C17-6", c.fname(ih)+":error-response@"+lastAtomName(p), c.fname(ih), c.pos(p.Ret.Pos()), fmt.Sprintf("%d error response(s) (http.Error, directly or through a helper)", len(errs)), "an HTTP 500 error response", "failure swallowed: a partial/incorrect body is served as success")
			}
		}
	}
}

// c17UseAfterCheck (R-C17-6): wherever an RA is generated for a scrape or an
// API request, the RA value is used (passed on, dereferenced) only after the
// generation error has been tested on that path — otherwise a failure to
// generate (unprepared plugin, address lookup error) crashes the request.
func c17UseAfterCheck(c *Ctx) {
	n := 0
	for _, fn := range c.srcFuncs() {
		if fn.Pkg == nil || (fn.Pkg.Pkg.Path() != PkgCrhttp && fn.Pkg.Pkg.Path() != PkgCorerad) {
			continue
		}
		var gens []*ssa.Call
		for _, ci := range an.CallsIn(fn) {
			if call, ok := ci.(*ssa.Call); ok && (an.CallIs(&call.Call, PkgConfig, "Interface", "RouterAdvertisement") || an.CallIs(&call.Call, PkgCorerad, "Advertiser", "buildRA")) {
				gens = append(gens, call)
			}
		}
		if len(gens) == 0 {
			continue
		}
		ps := c.pathsO("R-C17-6", fn, an.PathOpts{EmitCut: true})
		for _, g := range gens {
			n++
			var raVal, errVal ssa.Value
			nres := g.Call.Signature().Results().Len()
			if g.Referrers() != nil {
				for _, r := range *g.Referrers() {
					if ex, ok := r.(*ssa.Extract); ok {
						if ex.Index == 0 {
							raVal = ex
						}
						if ex.Index == nres-1 {
							errVal = ex
						}
					}
				}
			}
			if raVal == nil {
				continue
			}
			bad := ""
			for _, p := range ps {
				if !p.Visited(g.Block()) {
					continue
				}
				// position of the first test of the error on this path
				testPos := -1
				idx := 0
				pos := map[ssa.Instruction]int{}
				p.Instrs(func(in ssa.Instruction) { pos[in] = idx; idx++ })
				for _, a := range p.Atoms {
					if a.If == nil || errVal == nil {
						continue
					}
					if bo, ok := a.If.Cond.(*ssa.BinOp); ok && (bo.X == errVal || bo.Y == errVal) {
						// the path must have established err == nil
						isNil := (bo.Op == token.EQL) == a.Pos
						if !isNil {
							continue
						}
						if ip, ok := pos[a.If]; ok && (testPos < 0 || ip < testPos) {
							testPos = ip
						}
					}
				}
				// uses of the RA value on this path: call arguments and dereferences
				if raVal.Referrers() == nil {
					continue
				}
				for _, u := range *raVal.Referrers() {
					up, on := pos[u]
					if !on {
						continue
					}
					isUse := false
					switch x := u.(type) {
					case ssa.CallInstruction:
						isUse = true
						_ = x
					case *ssa.FieldAddr, *ssa.Field, *ssa.UnOp:
						isUse = true
					}
					if isUse && (testPos < 0 || up < testPos) {
						bad = fmt.Sprintf("%s uses the RA at %s before its error is tested", c.fname(fn), c.pos(instrPos(u)))
					}
				}
			}
			c.R.Check(bad == "", "R-C17-6", c.fname(fn)+":ra-used-after-error-check", c.fname(fn), c.pos(g.Pos()), fmt.Sprintf("counterexample: %q", bad),
				"the generated RA is passed on or dereferenced only on paths where the generation error was tested first", "a failure to generate the RA (interface not initialised yet, address lookup error) is followed by a nil dereference: the scrape or API request crashes")
		}
	}
	c.R.Check(n >= 3, "R-C17-6", "module:ra-generation-sites", "", "", fmt.Sprintf("%d RA generation site(s)", n), ">= 3", "anchor-missing")
}

// c17ScrapeErrorMetric (R-C17-6, second clause): a *metricslite.ScrapeError
// names the const metric the failure is reported against. metricslite panics
// ("non-existent metric") when it does not name one registered with
// ConstGauge, and the Prometheus collector runs outside net/http's recover:
// a scrape would crash the daemon. Every ScrapeError built in constScrape
// names a metric NewMetrics registers as a const gauge.
func c17ScrapeErrorMetric(c *Ctx) {
	nm := c.P.Func("internal/corerad", "NewMetrics")
	cs := c.P.Method("internal/corerad", "Metrics", "constScrape")
	if nm == nil || cs == nil {
		return
	}
	consts := map[string]bool{}
	for _, ci := range an.CallsIn(nm) {
		cc := ci.Common()
		name := ""
		if cc.IsInvoke() {
			name = cc.Method.Name()
		} else if f := an.CalleeObj(cc); f != nil {
			name = f.Name()
		}
		if name != "ConstGauge" || len(cc.Args) == 0 {
			continue
		}
		for _, a := range cc.Args {
			if s, ok := constString(c.XO.Of(a)); ok {
				consts[s] = true
				break
			}
		}
	}
	fn := c.fname(cs)
	n := 0
	for _, p := range c.pathsO("R-C17-6", cs, an.PathOpts{EmitCut: true}) {
		if p.Ret == nil || exprIsNil(p.Results[0]) {
			continue
		}
		var metric *an.Expr
		p.Results[0].Walk(func(x *an.Expr) bool {
			if metric == nil && x.Op == an.OpStruct && x.Typ != nil && strings.HasSuffix(typeStr(x.Typ), "metricslite.ScrapeError") {
				metric = raHeader(x)["Metric"]
			}
			return true
		})
		if metric == nil {
			continue
		}
		n++
		name, isC := constString(metric)
		c.R.Check(isC && consts[name], "R-C17-6", fn+":scrape-error-names-const-metric@"+lastAtomName(p), fn, c.pos(p.Ret.Pos()), fmt.Sprintf("ScrapeError.Metric = %s; const gauges: %d registered", metric, len(consts)),
			"the name of a metric registered with ConstGauge in NewMetrics", "metricslite panics on a ScrapeError for a non-const metric: a failing scrape crashes the daemon")
	}
	c.R.Check(n >= 2 && len(consts) >= 5, "R-C17-6", fn+":scrape-error-sites", fn, c.pos(cs.Pos()), fmt.Sprintf("%d error return(s) with a ScrapeError, %d const gauge(s)", n, len(consts)), ">= 2 returns, >= 5 gauges", "anchor-missing")
}

// c17LabelUniqueness (R-C17-7): the Prometheus registry rejects two samples of
// one series with equal label values ("was collected before with the same
// name and label values"), and the whole scrape then fails with HTTP 500. The
// per-option series are labelled (interface, key of the option): the key must
// be unique among the options an accepted configuration can put into one RA.
// Decided structurally as a necessary condition per option kind:
//   - the parser rejects two stanzas of the kind with the same key (a pairwise
//     check over the kind's plugin list exists), and
//   - a wildcard stanza cannot expand to a key that a static stanza of the same
//     interface also has (the pairwise check does not exempt the wildcard, or
//     the kind has no wildcard that changes the key).
func c17LabelUniqueness(c *Ctx) {
	pp := c.P.Func("internal/config", "parsePlugins")
	if pp == nil {
		return
	}
	rej := rejections(c, pp)
	// a rejection whose deciding condition relates two plugins of the given type
	pairwise := func(typ string) (found, exemptsWildcard bool) {
		for _, r := range rej {
			two := false
			for _, a := range r.atoms {
				x, y, _, ok := effCmp(a)
				if ok && x.Typ != nil && y.Typ != nil && strings.HasSuffix(typeStr(x.Typ), "*plugin."+typ) && strings.HasSuffix(typeStr(y.Typ), "*plugin."+typ) {
					two = true
				}
			}
			if !two {
				continue
			}
			found = true
			for _, a := range r.atoms {
				if a.Cond.Contains(func(e *an.Expr) bool {
					return e.Op == an.OpGlobal && (e.Name == "config.autoRoute" || e.Name == "config.autoPrefix")
				}) || a.Cond.Contains(func(e *an.Expr) bool { return e.IsField("Auto") }) {
					exemptsWildcard = true
				}
			}
		}
		return
	}
	// does collectMetrics guard the emission of a kind's samples by a "label already seen" test?
	emitsOncePerLabel := map[string]bool{}
	if cm := c.P.Func("internal/corerad", "collectMetrics"); cm != nil {
		for _, p := range c.pathsO("R-C17-7", cm, an.PathOpts{EmitCut: true}) {
			name := metricOfPath(p)
			seenGuard := false
			for _, a := range p.Atoms {
				if filterKind(a) == "Seen" && !a.Pos {
					seenGuard = true
				}
			}
			if !seenGuard {
				continue
			}
			for _, kind := range []string{"prefix", "route", "rdnss", "dnssl"} {
				if strings.Contains(name, "_"+kind+"_") {
					emitsOncePerLabel[kind] = true
				}
			}
		}
	}
	for _, k := range []struct {
		kind, typ, series  string
		wildcardChangesKey bool
	}{
		{"prefix", "Prefix", "corerad_advertiser_prefix_*", true},
		{"route", "Route", "corerad_advertiser_route_lifetime_seconds", true},
		{"rdnss", "RDNSS", "corerad_advertiser_rdnss_lifetime_seconds", false},
		{"dnssl", "DNSSL", "corerad_advertiser_dnssl_lifetime_seconds", false},
	} {
		found, exempt := pairwise(k.typ)
		dedup := emitsOncePerLabel[k.kind]
		okUnique := found || dedup
		why := fmt.Sprintf("pairwise check over the %s stanzas: %v; samples de-duplicated by label before emission: %v", k.kind, found, dedup)
		if !found && !dedup {
			why = "no pairwise check over the " + k.kind + " stanzas of an interface (two stanzas with the same key are accepted) and collectMetrics emits one sample per option without de-duplicating labels"
		}
		if k.wildcardChangesKey && !dedup {
			// the wildcard expands at run time to keys the parser cannot see; a static stanza with the same key collides
			okUnique = false
			if found {
				why = fmt.Sprintf("the %s wildcard expands at run time to keys that a static %s stanza of the same interface may also have (the parser's pairwise check exempts the wildcard: %v), and collectMetrics emits one sample per option without de-duplicating labels", k.kind, k.kind, exempt)
			}
		}
		c.R.Check(okUnique, "R-C17-7", "corerad.collectMetrics:series-labels-unique:"+k.kind, "corerad.collectMetrics", c.pos(pp.Pos()), why,
			"label values identify one option: no accepted configuration produces two "+k.kind+" options with the same labels in one RA",
			"a duplicate sample makes every /metrics scrape of the interface fail with HTTP 500 ("+k.series+")")
	}
}


// c17IndexInStep (R-C17-9): Handler.interfaces fills in the entry it appended
// for the current interface by indexing the output slice with the counter of
// the loop over the configured interfaces. That is only in range (and only the
// right entry) while every iteration so far appended exactly one entry: an
// iteration that skips the append (a filter, an early continue) makes a later
// index run past the end and the request panics. Vacuous when the function
// does not index the output with the loop counter.
func c17IndexInStep(c *Ctx) {
	h := c.needMethod("R-C17-9", "internal/crhttp", "Handler", "interfaces")
	if h == nil {
		return
	}
	fn := c.fname(h)
	isOut := func(t types.Type) bool { return strings.HasSuffix(typeStr(t), "[]crhttp.interfaceBody") || strings.HasSuffix(typeStr(t), "interfaceBody") && strings.HasPrefix(typeStr(t), "[]") }
	indexed := false
	for _, b := range h.Blocks {
		for _, in := range b.Instrs {
			if ia, ok := in.(*ssa.IndexAddr); ok && isOut(ia.X.Type()) {
				if _, isConst := ia.Index.(*ssa.Const); !isConst {
					indexed = true
				}
			}
		}
	}
	if !indexed {
		c.R.Check(true, "R-C17-9", fn+":index-in-step", fn, c.pos(h.Pos()), "the output slice is not indexed with a loop counter", "n/a", "")
		return
	}
	n, bad := 0, ""
	for _, p := range c.pathsO("R-C17-9", h, an.PathOpts{EmitCut: true}) {
		if !p.Cut {
			continue
		}
		apps := 0
		p.Instrs(func(in ssa.Instruction) {
			if call, ok := in.(*ssa.Call); ok {
				if bi, ok := call.Call.Value.(*ssa.Builtin); ok && bi.Name() == "append" && isOut(call.Type()) {
					apps++
				}
			}
		})
		n++
		if apps != 1 {
			bad = fmt.Sprintf("an iteration appends %d entries (%s)", apps, atomsString(p))
		}
	}
	c.R.Check(n >= 1 && bad == "", "R-C17-9", fn+":index-in-step", fn, c.pos(h.Pos()), fmt.Sprintf("%d iteration path(s); %s", n, bad),
		"the output is indexed with the counter of the loop over the interfaces, so every iteration appends exactly one entry", "an iteration that appends nothing shifts the entries: a later index is out of range and the API request panics (or fills in the wrong interface)")
}


// holdsUint32 reports whether integer type t can represent 2^32-1 on the build
// target being analysed.
func holdsUint32(c *Ctx, t types.Type) bool {
	if t == nil {
		return false
	}
	b, ok := t.Underlying().(*types.Basic)
	if !ok || b.Info()&types.IsInteger == 0 {
		return false
	}
	sz := types.SizesFor("gc", c.P.Cfg.GOARCH)
	if sz == nil {
		return false
	}
	bits := sz.Sizeof(t) * 8
	if b.Info()&types.IsUnsigned != 0 {
		return bits >= 32
	}
	return bits >= 64
}

// c17APIFresh (R-C17-3): the advertisement the debug API renders for an
// interface is packed from an RA generated for that very request: every store
// to interfaceBody.Advertisement takes packRA(<result #0 of a
// RouterAdvertisement call made on the same path>). A rendering remembered
// from an earlier request is stale as soon as Prepare runs again (hardware
// address), an address changes or a deprecated lifetime counts down.
func c17APIFresh(c *Ctx) {
	var fns []*ssa.Function
	for _, fn := range c.srcFuncs() {
		if fn.Pkg != nil && fn.Pkg.Pkg.Path() == PkgCrhttp {
			fns = append(fns, fn)
		}
	}
	n := 0
	for _, fs := range an.FindFieldStores(fns, PkgCrhttp, "interfaceBody", "Advertisement") {
		fn := fs.Fn
		for _, p := range c.pathsO("R-C17-3", fn, an.PathOpts{EmitCut: true}) {
			if !p.Visited(fs.Store.Block()) {
				continue
			}
			n++
			v := p.Of(fs.Store.Val)
			ok := exprCallIs(v, PkgCrhttp, "", "packRA") && len(v.Args) == 1
			if ok {
				b, idx := stripExtract(v.Args[0])
				gen := callsOnPath(p, func(cc *ssa.CallCommon) bool { return an.CallIs(cc, PkgConfig, "Interface", "RouterAdvertisement") })
				ok = idx == 0 && exprCallIs(b, PkgConfig, "Interface", "RouterAdvertisement") && len(gen) >= 1
			}
			c.R.Check(ok, "R-C17-3", c.fname(fn)+":renders-freshly-generated-ra", c.fname(fn), c.pos(fs.Store.Pos()), "Advertisement ⇐ "+shortExpr(v),
				"packRA(ra) with ra result #0 of an iface.RouterAdvertisement call on this path",
				"the API reports an advertisement remembered from an earlier request, not the RA that would be sent now")
		}
	}
	c.R.Check(n >= 1, "R-C17-3", "crhttp:advertisement-stores", "", "", fmt.Sprintf("%d path(s) storing interfaceBody.Advertisement", n), ">= 1", "anchor-missing")
}

// c17InterfaceListShared (R-C17-10): cmd/corerad hands the parsed interface
// list to the metrics, to the debug API and to BuildTasks; config.Config is
// passed by value but the slice's backing array is one. Whoever compacts,
// sorts, clears or overwrites that slice in place changes what every scrape and
// API request iterates over (an interface named "" makes each scrape fail).
// Structural form: outside package config no in-place slice mutator is applied
// to a []config.Interface and no element of one is stored to, unless the slice
// was made in the same function.
func c17InterfaceListShared(c *Ctx) {
	isIfaceSlice := func(t types.Type) bool {
		sl, ok := t.Underlying().(*types.Slice)
		if !ok {
			return false
		}
		n, ok := sl.Elem().(*types.Named)
		return ok && n.Obj().Pkg() != nil && n.Obj().Pkg().Path() == PkgConfig && n.Obj().Name() == "Interface"
	}
	mutators := map[string]bool{"Delete": true, "DeleteFunc": true, "Insert": true, "Compact": true, "CompactFunc": true, "Sort": true, "SortFunc": true,
		"SortStableFunc": true, "Reverse": true, "Replace": true}
	fresh := func(v ssa.Value) bool {
		e := c.XO.Of(v)
		return e.Op == an.OpMake || e.Op == an.OpAppend || e.Contains(func(x *an.Expr) bool { return x.Op == an.OpMake })
	}
	nFns := 0
	for _, fn := range c.srcFuncs() {
		if fn.Pkg == nil || !strings.HasPrefix(fn.Pkg.Pkg.Path(), Mod) || fn.Pkg.Pkg.Path() == PkgConfig {
			continue
		}
		nFns++
		for _, b := range fn.Blocks {
			for _, in := range b.Instrs {
				switch x := in.(type) {
				case ssa.CallInstruction:
					cc := x.Common()
					name := ""
					if bi, ok := cc.Value.(*ssa.Builtin); ok && bi.Name() == "clear" {
						name = "clear"
					} else if fo := an.CalleeObj(cc); fo != nil && fo.Pkg() != nil && (fo.Pkg().Path() == "slices" || fo.Pkg().Path() == "sort") && (mutators[fo.Name()] || fo.Pkg().Path() == "sort") {
						name = fo.Pkg().Path() + "." + fo.Name()
					}
					if name == "" {
						continue
					}
					for _, a := range cc.Args {
						v := a
						if mi, ok := v.(*ssa.MakeInterface); ok {
							v = mi.X
						}
						if isIfaceSlice(v.Type()) && !fresh(v) {
							c.R.Fail("R-C17-10", c.fname(fn)+":mutates-interface-list:"+name, c.fname(fn), c.pos(x.Pos()), name+" applied to a []config.Interface that this function did not make",
								"the parsed interface list is never modified in place (filter into a new slice)",
								"metrics and the debug API iterate over the same backing array: entries shift and a zeroed entry makes every scrape fail")
						}
					}
				case *ssa.Store:
					root, path := addrRoot(x.Addr)
					if len(path) == 0 || path[0] != "[]" {
						continue
					}
					if isIfaceSlice(root.Type()) && !fresh(root) {
						c.R.Fail("R-C17-10", c.fname(fn)+":stores-into-interface-list", c.fname(fn), c.pos(x.Pos()), "store to an element of a []config.Interface that this function did not make",
							"the parsed interface list is never modified in place", "metrics and the debug API see the altered entry")
					}
				}
			}
		}
	}
	c.R.Check(nFns >= 50, "R-C17-10", "module:functions-scanned", "", "", fmt.Sprintf("%d function(s) outside package config scanned", nFns), ">= 50", "anchor-missing")
}
