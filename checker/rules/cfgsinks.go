package rules

import (
	"os"
	"fmt"
	"go/token"
	"math/big"
	"strings"

	"crverif/internal/an"

	"golang.org/x/tools/go/ssa"
)

// Shared value-set analysis of the configuration parser: for every numeric
// sink (a field of config.Interface or of a plugin, or a returned duration)
// and every success path of the function that computes it, the value is
// described as an exact normal form or as a free (user) value with the bounds
// the path's checks impose on it.

const nsS = int64(1000000000)

var (
	ratInfinity = new(big.Rat).SetInt64(4294967295 * nsS) // ndp.Infinity
)

func ratS(sec int64) *big.Rat { return new(big.Rat).SetInt64(sec * nsS) }

// A sinkObs is what one success path says about one sink.
type sinkObs struct {
	class   string // trigger class of the raw key on this path: absent|auto|empty|infinite|user
	nf      *an.NF // value (exact) or the free symbol
	free    bool
	lo, hi  *an.NF   // inclusive bounds on the free value (nil = unbounded)
	point   *an.NF   // equality constraint (free value == point)
	relUp   []string // relational upper bounds against other sinks (e.g. preferred <= valid)
	env     an.Env
	maxNF   *an.NF
	maxRng  an.Rng
	path    *an.Path
	undecid string
}

func (o *sinkObs) String() string {
	if o.undecid != "" {
		return "undecided: " + o.undecid
	}
	if !o.free {
		return fmt.Sprintf("[%s] = %s", o.class, o.nf)
	}
	if o.point != nil {
		return fmt.Sprintf("[%s] user value == %s", o.class, o.point)
	}
	lo, hi := "-∞", "+∞"
	if o.lo != nil {
		lo = o.lo.String()
	}
	if o.hi != nil {
		hi = o.hi.String()
	}
	return fmt.Sprintf("[%s] user value ∈ [%s, %s]", o.class, lo, hi)
}

// classOf derives the trigger class of raw key `raw` (a field name of the raw
// stanza struct) from the atoms of a path.
func classOf(p *an.Path, raw string) string {
	isRaw := func(e *an.Expr) bool {
		return (e.Op == an.OpField && e.Name == raw && e.Args[0].Op == an.OpParam) || (e.Op == an.OpParam && e.Name == raw)
	}
	class := ""
	sawAny := false
	sawNilTest := false // optional (pointer) key: "" means "set but empty"
	for _, a := range p.Atoms {
		x, y, op, ok := effCmp(a)
		if !ok {
			continue
		}
		if isRaw(y) {
			x, y = y, x
		}
		if !isRaw(x) || y.Op != an.OpConst {
			continue
		}
		sawAny = true
		if y.Name == "nil" {
			sawNilTest = true
		}
		if op != token.EQL {
			continue
		}
		switch y.Name {
		case "nil":
			class = "absent"
		case `""`:
			if sawNilTest {
				class = "empty"
			} else {
				class = "absent"
			}
		case `"auto"`:
			class = "auto"
		case `"infinite"`:
			class = "infinite"
		default:
			class = "literal:" + y.Name
		}
	}
	if class == "" {
		if !sawAny {
			return "user"
		}
		return "user"
	}
	return class
}

// singleSym returns the symbol when nf is exactly 1·sym.
func singleSym(nf *an.NF) (string, bool) {
	if nf == nil || nf.Mode != an.ModeNone || nf.Lin.C.Sign() != 0 || len(nf.Lin.T) != 1 {
		return "", false
	}
	for s, c := range nf.Lin.T {
		if c.Cmp(big.NewRat(1, 1)) == 0 {
			return s, true
		}
	}
	return "", false
}

func isFreeSym(s string) bool {
	return strings.Contains(s, "ParseDuration(") || (strings.HasPrefix(s, "$") && strings.Contains(s, "."))
}

func constNF(r *big.Rat) *an.NF { return &an.NF{Lin: an.NewLin(r)} }

func addConst(n *an.NF, k int64) *an.NF {
	if n.Mode != an.ModeNone {
		// trunc_u(L) ± 1ns is not representable exactly; keep (conservative for display)
		return n
	}
	return &an.NF{Lin: n.Lin.Add(an.LinConst(k))}
}

// nfSame: equal constants or structurally equal normal forms.
func nfSame(a, b *an.NF) bool {
	if a == nil || b == nil {
		return a == b
	}
	ca, okA := a.IsConst()
	cb, okB := b.IsConst()
	if okA && okB {
		return ca.Cmp(cb) == 0
	}
	return a.Equal(b)
}

// pathEnv refines symbol ranges from the atoms of a path; feasible is false
// when an atom is contradicted.
func pathEnv(p *an.Path, base an.Env) (an.Env, bool) {
	env := an.Env{}
	for k, v := range base {
		env[k] = v
	}
	for round := 0; round < 2; round++ {
		for _, a := range p.Atoms {
			x, y, op, ok := effCmp(a)
			if !ok {
				continue
			}
			xn, okx := an.Norm(x)
			yn, oky := an.Norm(y)
			if !okx || !oky {
				continue
			}
			if t := env.Compare(xn, op, yn); t == an.TriFalse {
				return env, false
			}
			refine := func(sym string, op token.Token, other *an.NF) {
				r := env.RangeOf(other)
				cur := env[sym]
				one := big.NewRat(1, 1)
				switch op {
				case token.GEQ:
					if r.Lo != nil {
						cur = cur.Intersect(an.Rng{Lo: r.Lo})
					}
				case token.GTR:
					if r.Lo != nil {
						cur = cur.Intersect(an.Rng{Lo: new(big.Rat).Add(r.Lo, one)})
					}
				case token.LEQ:
					if r.Hi != nil {
						cur = cur.Intersect(an.Rng{Hi: r.Hi})
					}
				case token.LSS:
					if r.Hi != nil {
						cur = cur.Intersect(an.Rng{Hi: new(big.Rat).Sub(r.Hi, one)})
					}
				case token.EQL:
					cur = cur.Intersect(r)
				case token.NEQ:
					if cv, isC := other.IsConst(); isC {
						if cur.Lo != nil && cur.Lo.Cmp(cv) == 0 {
							cur.Lo = new(big.Rat).Add(cv, one)
						}
						if cur.Hi != nil && cur.Hi.Cmp(cv) == 0 {
							cur.Hi = new(big.Rat).Sub(cv, one)
						}
					}
				}
				env[sym] = cur
			}
			if s, ok := singleSym(xn); ok {
				refine(s, op, yn)
			}
			if s, ok := singleSym(yn); ok {
				refine(s, flip(op), xn)
			}
		}
	}
	for _, r := range env {
		if r.Empty() {
			return env, false
		}
	}
	return env, true
}

// observe describes sink value v on path p. `others` lists expressions of
// other sinks of the same function: constraints against them are relational
// and reported separately instead of as bounds.
func observe(p *an.Path, v *an.Expr, raw string, maxExpr *an.Expr, base an.Env, others map[string]ssa.Value) *sinkObs {
	o := &sinkObs{path: p, class: classOf(p, raw)}
	env, feasible := pathEnv(p, base)
	if !feasible {
		return nil
	}
	o.env = env
	if maxExpr != nil {
		if mn, ok := an.Norm(maxExpr); ok {
			o.maxNF = mn
			o.maxRng = env.RangeOf(mn)
		}
	}
	nf, ok := an.Norm(v)
	if !ok {
		o.undecid = "no normal form for " + v.String()
		return o
	}
	o.nf = nf
	sym, single := singleSym(nf)
	if _, isConst := nf.IsConst(); isConst {
		// `if user == K { return K }`: the constant stands for the user's value on this path
		for _, a := range p.Atoms {
			x, y, op, ok := effCmp(a)
			if !ok || op != token.EQL {
				continue
			}
			xn, okx := an.Norm(x)
			yn, oky := an.Norm(y)
			if !okx || !oky {
				continue
			}
			// (the symbol must be this key's own parsed value, not that of a sibling key tested on the path)
			own := func(s string) bool { return raw == "" || strings.Contains(s, raw) }
			if s, ok := singleSym(xn); ok && isFreeSym(s) && own(s) && nfSame(yn, nf) {
				nf, sym, single = xn, s, true
			} else if s, ok := singleSym(yn); ok && isFreeSym(s) && own(s) && nfSame(xn, nf) {
				nf, sym, single = yn, s, true
			}
		}
		o.nf = nf
	}
	if !single || !isFreeSym(sym) || (o.maxNF != nil && nfSame(nf, o.maxNF)) {
		return o // exact value (constant or a form over other values)
	}
	o.free = true
	one := int64(1)
	var holes []*an.NF
	for _, a := range p.Atoms {
		x, y, op, ok := effCmp(a)
		if !ok {
			continue
		}
		xn, okx := an.Norm(x)
		yn, oky := an.Norm(y)
		if !okx || !oky {
			continue
		}
		var other *an.NF
		var otherExpr *an.Expr
		if s, ok := singleSym(xn); ok && s == sym {
			other, otherExpr = yn, y
		} else if s, ok := singleSym(yn); ok && s == sym {
			other, otherExpr = xn, x
			op = flip(op)
		} else {
			continue
		}
		// relational against another sink of the same function?
		rel := ""
		_ = otherExpr
		if a.If != nil {
			if bo, ok := a.If.Cond.(*ssa.BinOp); ok {
				for name, ov := range others {
					if ov != nil && (bo.X == ov || bo.Y == ov) {
						rel = name
					}
				}
				if rel == "" {
					// the comparison sits in a helper enumerated in line: its operands are the helper's own
					// values. It is relational when neither operand is a literal and the other side is, on
					// this path, the value of another sink.
					_, cx := bo.X.(*ssa.Const)
					_, cy := bo.Y.(*ssa.Const)
					if !cx && !cy {
						for name, ov := range others {
							if ov != nil && ov.Parent() != a.If.Block().Parent() && sameValue(otherExpr, p.Of(ov)) {
								rel = name
							}
						}
					}
				}
			}
		}
		if rel != "" {
			o.relUp = append(o.relUp, fmt.Sprintf("%s %s", op, rel))
			continue
		}
		switch op {
		case token.GEQ:
			o.lo = tighter(env, o.lo, other, true)
		case token.GTR:
			o.lo = tighter(env, o.lo, addConst(other, one), true)
		case token.LEQ:
			o.hi = tighter(env, o.hi, other, false)
		case token.LSS:
			o.hi = tighter(env, o.hi, addConst(other, -one), false)
		case token.EQL:
			o.point = other
		case token.NEQ:
			// x != K with K == lower bound: lower bound becomes K+1 (integers)
			if o.lo != nil && nfSame(o.lo, other) {
				o.lo = addConst(other, one)
			} else if o.hi != nil && nfSame(o.hi, other) {
				o.hi = addConst(other, -one)
			} else {
				holes = append(holes, other)
			}
		}
	}
	for _, k := range holes {
		if o.lo != nil && nfSame(o.lo, k) {
			o.lo = addConst(k, one)
		} else if o.hi != nil && nfSame(o.hi, k) {
			o.hi = addConst(k, -one)
		}
	}
	return o
}

// tighter keeps the stronger of two bounds when they are comparable.
func tighter(env an.Env, cur, cand *an.NF, lower bool) *an.NF {
	if cur == nil {
		return cand
	}
	var t an.Tri
	if lower {
		t = env.Compare(cand, token.GEQ, cur)
	} else {
		t = env.Compare(cand, token.LEQ, cur)
	}
	if t == an.TriTrue {
		return cand
	}
	return cur
}

// successPaths enumerates the success paths (last result nil error) of fn with
// the given callees enumerated path by path.
func successPaths(c *Ctx, rule string, fn *ssa.Function, inline map[*ssa.Function]bool) []*an.Path {
	ps, err := c.XO.Paths(fn, an.PathOpts{MaxPaths: 400000, InlinePaths: func(g *ssa.Function) bool { return inline[g] || c.helperInline(fn)(g) }})
	if err != nil {
		c.R.Undecided(rule, "paths:"+c.fname(fn), c.fname(fn), c.pos(fn.Pos()), err.Error())
	}
	c.notePaths(fn, len(ps))
	var out []*an.Path
	for _, p := range ps {
		if p.Ret == nil || len(p.Results) == 0 {
			continue
		}
		if !exprIsNil(p.Results[len(p.Results)-1]) {
			continue
		}
		out = append(out, p)
	}
	return out
}

// A piece of a documented value set.
type piece struct {
	classes string // comma separated trigger classes
	domLo   *big.Rat
	domHi   *big.Rat
	reject  bool
	exact   func(max *an.NF) *an.NF
	ranges  [][2]func(max *an.NF) *an.NF // allowed inclusive ranges for a user value
	doc     string
}

func (pc piece) hasClass(c string) bool {
	for _, x := range strings.Split(pc.classes, ",") {
		if x == c {
			return true
		}
	}
	return false
}

func kf(r *big.Rat) func(*an.NF) *an.NF { return func(*an.NF) *an.NF { return constNF(r) } }

func scaleMax(q *big.Rat, trunc bool) func(*an.NF) *an.NF {
	return func(max *an.NF) *an.NF {
		if max == nil {
			return nil
		}
		if cv, ok := max.IsConst(); ok {
			n := &an.NF{Lin: an.NewLin(new(big.Rat).Mul(cv, q))}
			if trunc {
				n.Mode, n.Unit = an.ModeTrunc, ratS(1)
			}
			return n
		}
		n := &an.NF{Lin: max.Lin.Scale(q)}
		if trunc {
			n.Mode, n.Unit = an.ModeTrunc, ratS(1)
		}
		return n
	}
}

// checkAgainst compares observations of one sink with its documented pieces.
func checkAgainst(c *Ctx, rule, sink, fn string, at string, obs []*sinkObs, pieces []piece) {
	matched := map[int]map[string]bool{} // piece index → classes witnessed
	covLo := map[int]*big.Rat{}
	covHi := map[int]*big.Rat{}
	rangeHit := map[int]map[int]bool{}
	parts := map[int]map[int][][2]*an.NF{} // piece → range → sub-intervals accepted on different paths
	var partEnv an.Env
	reported := map[string]bool{}
	for _, o := range obs {
		if o == nil {
			continue
		}
		if dbg := os.Getenv("DEBUG_SINK"); dbg != "" && strings.Contains(sink, dbg) {
			fmt.Fprintf(os.Stderr, "OBS %s: %s lo=%v hi=%v point=%v free=%v\n", sink, o, o.lo, o.hi, o.point, o.free)
		}
		if o.undecid != "" {
			c.R.Undecided(rule, sink+":value@"+o.class, fn, at, o.undecid)
			continue
		}
		found := false
		for pi, pc := range pieces {
			if !pc.hasClass(o.class) {
				continue
			}
			// domain intersection on MAX
			if pc.domLo != nil || pc.domHi != nil {
				r := o.maxRng
				if r.Hi != nil && pc.domLo != nil && r.Hi.Cmp(pc.domLo) < 0 {
					continue
				}
				if r.Lo != nil && pc.domHi != nil && r.Lo.Cmp(pc.domHi) > 0 {
					continue
				}
			}
			found = true
			key := fmt.Sprintf("%s:%s@%s", sink, pc.doc, o.class)
			ok := true
			why := ""
			switch {
			case pc.reject:
				ok, why = false, "a value of a rejected class is accepted"
			case pc.exact != nil:
				want := pc.exact(o.maxNF)
				if o.free {
					ok, why = false, "expected the documented default "+nfStr(want)+", got a user-controlled value"
				} else if !nfSame(o.nf, want) {
					ok, why = false, "expected "+nfStr(want)
				}
			default:
				if !o.free {
					ok, why = false, "expected a range-checked user value"
					break
				}
				hit := -1
				for ri, rg := range pc.ranges {
					lo, hi := rg[0](o.maxNF), rg[1](o.maxNF)
					if o.point != nil {
						if nfSame(lo, hi) && nfSame(o.point, lo) {
							hit = ri
						}
						continue
					}
					if nfSame(o.lo, lo) && nfSame(o.hi, hi) {
						hit = ri
					}
				}
				{
					// part of a documented range? (a range split over several paths, e.g. "== Infinity" on one
					// path and "!= Infinity" on another): sound as long as the part lies inside the range;
					// completeness is decided on the union of the parts below
					exact := hit
					for ri, rg := range pc.ranges {
						if ri == exact {
							continue
						}
						lo, hi := rg[0](o.maxNF), rg[1](o.maxNF)
						plo, phi := o.lo, o.hi
						if o.point != nil {
							plo, phi = o.point, o.point
						}
						if plo == nil || phi == nil || lo == nil || hi == nil {
							continue
						}
						if o.env.Compare(plo, token.GEQ, lo) == an.TriTrue && o.env.Compare(phi, token.LEQ, hi) == an.TriTrue {
							if hit < 0 {
								hit = ri
							}
							if parts[pi] == nil {
								parts[pi] = map[int][][2]*an.NF{}
							}
							parts[pi][ri] = append(parts[pi][ri], [2]*an.NF{plo, phi})
							partEnv = o.env
						}
					}
					if hit < 0 {
						ok, why = false, "accepted user range differs from the documented one"
					}
					if exact >= 0 {
						if rangeHit[pi] == nil {
							rangeHit[pi] = map[int]bool{}
						}
						rangeHit[pi][exact] = true
					}
				}
			}
			if ok {
				if matched[pi] == nil {
					matched[pi] = map[string]bool{}
				}
				matched[pi][o.class] = true
				if o.maxRng.Lo != nil && (covLo[pi] == nil || o.maxRng.Lo.Cmp(covLo[pi]) < 0) {
					covLo[pi] = o.maxRng.Lo
				}
				if o.maxRng.Hi != nil && (covHi[pi] == nil || o.maxRng.Hi.Cmp(covHi[pi]) > 0) {
					covHi[pi] = o.maxRng.Hi
				}
			}
			if reported[key] && ok {
				continue
			}
			reported[key] = true
			c.R.Check(ok, rule, key, fn, at, o.String()+maxNote(o), "documented: "+pc.doc, why+" (configuration acceptance set or default differs from reference.toml)")
		}
		if !found {
			key := fmt.Sprintf("%s:undocumented@%s", sink, o.class)
			if !reported[key] {
				reported[key] = true
				c.R.Fail(rule, key, fn, at, o.String()+maxNote(o), "every accepted case is documented", "an undocumented value/keyword is accepted for this key")
			}
		}
	}
	// completeness: every documented (non-reject) class is witnessed; ranges all hit; MAX domain covered
	for pi, pc := range pieces {
		if pc.reject {
			continue
		}
		for _, cl := range strings.Split(pc.classes, ",") {
			ok := matched[pi][cl]
			c.R.Check(ok, rule, fmt.Sprintf("%s:%s@%s:accepted", sink, pc.doc, cl), fn, at, fmt.Sprintf("witnessed by a success path: %v", ok), "documented: "+pc.doc, "a documented value/keyword is rejected (or its default differs)")
		}
		for ri, rg := range pc.ranges {
			if !rangeHit[pi][ri] && len(parts[pi][ri]) > 0 {
				// do the parts, taken together, cover the documented range? walk from the lower bound
				var maxNF *an.NF
				for _, o := range obs {
					if o != nil && o.maxNF != nil {
						maxNF = o.maxNF
					}
				}
				lo, hi := rg[0](maxNF), rg[1](maxNF)
				cur := lo
				for step := 0; step <= len(parts[pi][ri]) && cur != nil; step++ {
					if partEnv.Compare(cur, token.GTR, hi) == an.TriTrue {
						break
					}
					advanced := false
					for _, pt := range parts[pi][ri] {
						if partEnv.Compare(pt[0], token.LEQ, cur) == an.TriTrue && partEnv.Compare(pt[1], token.GEQ, cur) == an.TriTrue {
							cur = addConst(pt[1], 1)
							advanced = true
						}
					}
					if !advanced {
						break
					}
				}
				if cur != nil && partEnv.Compare(cur, token.GTR, hi) == an.TriTrue {
					if rangeHit[pi] == nil {
						rangeHit[pi] = map[int]bool{}
					}
					rangeHit[pi][ri] = true
				}
			}
			if !rangeHit[pi][ri] {
				c.R.Fail(rule, fmt.Sprintf("%s:%s:range#%d", sink, pc.doc, ri), fn, at, "no success path accepts this documented range", "documented: "+pc.doc, "documented values are rejected")
			}
		}
		if (pc.domLo != nil || pc.domHi != nil) && len(matched[pi]) > 0 {
			ok := covLo[pi] != nil && covHi[pi] != nil && (pc.domLo == nil || covLo[pi].Cmp(pc.domLo) <= 0) && (pc.domHi == nil || covHi[pi].Cmp(pc.domHi) >= 0)
			c.R.Check(ok, rule, fmt.Sprintf("%s:%s:max-domain", sink, pc.doc), fn, at, fmt.Sprintf("success paths cover max ∈ [%v,%v]", covLo[pi], covHi[pi]), "documented: "+pc.doc, "the documented rule is not applied over its whole max_interval domain")
		}
	}
}

func nfStr(n *an.NF) string {
	if n == nil {
		return "∅"
	}
	return n.String()
}

func maxNote(o *sinkObs) string {
	if o.maxNF == nil {
		return ""
	}
	return fmt.Sprintf("  (max = %s ∈ %s)", o.maxNF, o.maxRng)
}
