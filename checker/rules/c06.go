package rules

import (
	"fmt"
	"go/token"
	"strings"

	"crverif/internal/an"

	"golang.org/x/tools/go/ssa"
)

func init() {
	register(&RuleSet{
		Property: "C06",
		Explanation: "Narrow structural necessary conditions of the multicast rate limiter in Advertiser.schedule (the real spacing of transmissions over arrival histories is a timing property and is NOT decided): " +
			"R-C06-1 minDelayBetweenRAs == 3s and only NewAdvertiser writes the field, with that constant; R-C06-2 the delay handed to the scheduler for a multicast request is minDelayBetweenRAs when time.Since(lastMulticast) < minDelayBetweenRAs and 0 otherwise, and unicast requests neither read nor write lastMulticast; " +
			"R-C06-3 lastMulticast is updated on every multicast iteration to the instant the RA is to be sent (now + chosen delay); R-C06-4 a solicitation from :: becomes an all-nodes request; R-C06-5 only Run (initial), sendWorker (scheduled) and shutdown (final) call send, and sendWorker transmits at most once per scheduling decision, to its own destination parameter; R-C06-4 is universal: every path on which the solicitation's source is :: returns the all-nodes address. R-C06-2 also (shared with C07): no function value made in schedule() captures by reference a variable that schedule assigns on every iteration (a pending task would read the destination dequeued last). R-C06-7 / R-C07-7 (decided on the scheduler library's own SSA): Schedule's notification of the monitor goroutine cannot be lost (known finding F26: it is a non-blocking send on an unbuffered channel).",
		Assumptions: []string{
			"Go type checker and go/ssa construction are correct",
			"schedgroup.Group.Delay(d, f) runs f once about d after the call — except for the lost wake-up recorded as known finding F26 (R-C06-7), the one part of this assumption decided on the library's own code",
		},
		NotCovered: []string{"the actual gap between transmissions (timing)", "the liveness clause: every trigger satisfied within 3s", "scheduler latency and goroutine interleavings"},
		Run:        runC06,
	})
}

func runC06(c *Ctx) {
	schedulerWakeupLatched(c, "R-C06-7") // a delayed multicast RA is sent when it is due (shared library rule; known finding F26)
	taskOwnsItsVariables(c, "R-C06-2") // a multicast task must still be a multicast task when it fires (shared rule)
	// a solicitation from :: is only recognised (and answered by a rate-limited multicast RA) when the listener
	// hands the source over without its zone: netip.Addr.IsUnspecified is false for "::%eth0"
	if l := c.P.Method("internal/corerad", "listener", "Listen"); l != nil {
		checkListenDelivery(c, "R-C06-6", l, c.pathsO("R-C06-6", l, an.PathOpts{EmitCut: true}))
	}
	scope := c.P.TypesPkg("internal/corerad").Types.Scope()
	if k := scope.Lookup("minDelayBetweenRAs"); k != nil {
		c.R.Check(constVal(k) == 3000000000, "R-C06-1", "corerad.minDelayBetweenRAs", "", c.pos(k.Pos()), fmt.Sprintf("minDelayBetweenRAs = %dns", constVal(k)), "3s (RFC 4861 MIN_DELAY_BETWEEN_RAS)", "rate-limit constant differs from the RFC")
	} else {
		c.R.Fail("R-C06-1", "corerad.minDelayBetweenRAs", "", "", "constant missing", "", "anchor-missing")
	}
	nW := 0
	for _, fs := range an.FindFieldStores(c.srcFuncs(), PkgCorerad, "Advertiser", "minDelayBetweenRAs") {
		nW++
		e := c.XO.Of(fs.Store.Val)
		k, isC := e.ConstInt()
		c.R.Check(c.fname(fs.Fn) == "corerad.NewAdvertiser" && isC && k == 3000000000, "R-C06-1", c.fname(fs.Fn)+":writes-minDelayBetweenRAs", c.fname(fs.Fn), c.pos(fs.Store.Pos()),
			fmt.Sprintf("%s stores %s", c.fname(fs.Fn), e), "only NewAdvertiser, with the constant 3s", "rate limit overridden outside tests")
	}
	c.R.Check(nW == 1, "R-C06-1", "corerad.Advertiser:minDelayBetweenRAs-writers", "", "", fmt.Sprintf("%d writer(s)", nW), "exactly 1", "unexpected writers")

	sch := c.needMethod("R-C06-2", "internal/corerad", "Advertiser", "schedule")
	if sch == nil {
		return
	}
	fn := c.fname(sch)
	ps := c.pathsO("R-C06-2", sch, an.PathOpts{EmitCut: true})
	// lastMulticast: the loop phi used in the time.Since comparison
	var last *ssa.Phi
	for _, p := range ps {
		for _, a := range p.Atoms {
			a.Cond.Walk(func(e *an.Expr) bool {
				if e.Op == an.OpCall && e.Fn != nil && e.Fn.String() == "time.Since" && len(e.Args) == 1 && e.Args[0].Op == an.OpLoop {
					if ph, ok := e.Args[0].V.(*ssa.Phi); ok {
						last = ph
					}
				}
				return true
			})
		}
	}
	if last == nil {
		c.R.Fail("R-C06-2", fn+":lastMulticast", fn, c.pos(sch.Pos()), "no loop-carried time compared via time.Since", "a last-multicast timestamp is kept across iterations", "anchor-missing: rate limiter state not found")
		return
	}
	lastSym := an.LoopSym(last)
	// the rate limiter starts from the instant this incarnation of the scheduler starts (right after the
	// initial RA of a (re)initialised interface): its initial value is a clock read made in schedule
	// itself, not a value handed in from an earlier incarnation (a parameter, a field, a captured variable)
	for i, pred := range last.Block().Preds {
		if last.Block().Dominates(pred) {
			continue
		}
		e := c.XO.Of(last.Edges[i])
		fresh := e.Op == an.OpCall && e.Fn != nil && e.Fn.String() == "time.Now"
		if fresh {
			if call, ok := e.V.(*ssa.Call); !ok || call.Parent() != sch {
				fresh = false
			}
		}
		c.R.Check(fresh, "R-C06-2", fn+":lastMulticast-initial-value", fn, c.pos(sch.Pos()), "initial value "+e.String(),
			"time.Now() read when schedule() starts", "after a re-initialisation the first periodic RA is sent back to back with the new initial RA (the limiter still holds a time from before the re-dial)")
	}
	nM := 0
	for _, p := range ps {
		if !p.Cut {
			continue
		}
		isReq := false
		for _, a := range selectArmsOf(p) {
			if strings.Contains(a.chanExpr, "ipC") {
				isReq = true
			}
		}
		if !isReq {
			continue
		}
		multicast, mcTested := false, false
		within, wTested := false, false
		for _, a := range p.Atoms {
			if a.Cond.Op == an.OpCall && a.Cond.Fn != nil && a.Cond.Fn.String() == "(net/netip.Addr).IsMulticast" {
				multicast, mcTested = a.Pos, true
			}
			x, y, op, ok := effCmp(a)
			if ok && y.Op == an.OpCall && y.Fn != nil && y.Fn.String() == "time.Since" {
				x, y, op = y, x, flip(op) // minDelay > time.Since(last)
			}
			if ok && x.Op == an.OpCall && x.Fn != nil && x.Fn.String() == "time.Since" {
				wTested = true
				if y.IsField("minDelayBetweenRAs") && (op == token.LSS || op == token.GEQ) {
					within = op == token.LSS
				} else {
					wTested = false
				}
			}
		}
		back := p.BackEdgeValue(last)
		delays := callsOnPath(p, func(cc *ssa.CallCommon) bool {
			f := an.CalleeObj(cc)
			return f != nil && f.Name() == "Delay" && f.Pkg() != nil && f.Pkg().Path() == "github.com/mdlayher/schedgroup"
		})
		if !mcTested || len(delays) != 1 {
			c.R.Fail("R-C06-2", fn+":request-shape@"+pathShape(p), fn, c.pos(sch.Pos()), fmt.Sprintf("multicast tested=%v, %d Delay call(s)", mcTested, len(delays)), "requests are classified by ip.IsMulticast() and scheduled once", "scheduler shape changed")
			continue
		}
		delay := p.Of(delays[0].Common().Args[1])
		if !multicast {
			ok := back != nil && back.String() == lastSym && !wTested
			c.R.Check(ok, "R-C06-2", fn+":unicast-leaves-lastMulticast", fn, c.pos(delays[0].Pos()),
				fmt.Sprintf("lastMulticast flows back as %v; rate-limit test on path=%v", back, wTested),
				"unicast requests neither read nor update lastMulticast", "unicast answers perturb the multicast rate limiter")
			continue
		}
		nM++
		key := fmt.Sprintf("%s:multicast-delay@within-window=%s", fn, tri(within, wTested))
		var okDelay bool
		if within {
			okDelay = delay.IsField("minDelayBetweenRAs")
		} else {
			k, isC := delay.ConstInt()
			okDelay = isC && k == 0
		}
		c.R.Check(wTested && okDelay, "R-C06-2", key, fn, c.pos(delays[0].Pos()),
			fmt.Sprintf("delay = %s under time.Since(lastMulticast) < a.minDelayBetweenRAs = %s", delay, tri(within, wTested)),
			"delay is a.minDelayBetweenRAs when the previous multicast is less than minDelayBetweenRAs ago, else 0",
			"multicast requests inside the window are not delayed (or those outside are)")
		// R-C06-3: the stored instant accounts for the chosen delay
		okState := false
		fact := "lastMulticast not updated"
		if back != nil && back.String() != lastSym {
			fact = "lastMulticast = " + back.String()
			mentionsNow := back.Contains(func(e *an.Expr) bool { return e.Op == an.OpCall && e.Fn != nil && e.Fn.String() == "time.Now" })
			mentionsDelay := !within // with delay 0, now + 0 == now
			if within {
				mentionsDelay = back.Contains(func(e *an.Expr) bool { return e.IsField("minDelayBetweenRAs") || sameValue(e, delay) })
			}
			okState = mentionsNow && mentionsDelay
		}
		c.R.Check(okState, "R-C06-3", fmt.Sprintf("%s:lastMulticast-update@within-window=%s", fn, tri(within, wTested)), fn, c.pos(delays[0].Pos()), fact,
			"lastMulticast := the instant the RA is to be sent (time.Now() + chosen delay)",
			"lastMulticast ignores the chosen delay: two triggers inside the window are both sent 3s later only their arrival gap apart, and a later trigger can follow a delayed RA by less than 3s")
	}
	c.R.Check(nM == 2, "R-C06-2", fn+":multicast-paths", fn, c.pos(sch.Pos()), fmt.Sprintf("%d multicast path(s)", nM), "2 (inside / outside the window)", "rate-limit decision has an unexpected shape")

	// R-C06-4 is decided by R-C07-1 (rs-destination@unspecified=true); re-check the essential here.
	if h := c.needMethod("R-C06-4", "internal/corerad", "Advertiser", "handle"); h != nil {
		ok := false
		nUnspec, nOther := 0, 0
		for _, p := range c.pathsO("R-C06-4", h, an.PathOpts{}) {
			if p.Ret == nil {
				continue
			}
			for _, a := range p.Atoms {
				if a.Pos && a.Cond.Op == an.OpCall && a.Cond.Fn != nil && a.Cond.Fn.String() == "(net/netip.Addr).IsUnspecified" {
					// every solicitation from :: becomes a multicast trigger: none is dropped or coalesced away
					nUnspec++
					if isAllNodesCall(p.Results[0]) && (len(p.Results) < 2 || exprIsNil(p.Results[1])) {
						ok = true
					} else {
						nOther++
					}
				}
			}
		}
		ok = ok && nOther == 0
		c.R.Check(ok, "R-C06-4", c.fname(h)+":unspecified-to-all-nodes", c.fname(h), c.pos(h.Pos()), fmt.Sprintf("RS from :: → all-nodes=%v (%d of %d such path(s) answer otherwise)", ok, nOther, nUnspec), "every solicitation from :: is a multicast trigger", "solicitations from :: bypass the rate limiter or are dropped")
	}

	// R-C06-5 who may call send / sendWorker
	for _, s := range an.FindCalls(c.srcFuncs(), func(cc *ssa.CallCommon) bool { return an.CallIs(cc, PkgCorerad, "Advertiser", "send") }) {
		ok, who := c.reachedOnlyFrom(s.Fn, func(root *ssa.Function) bool {
			name := c.fname(root)
			return name == "(*corerad.Advertiser).Run" || name == "(*corerad.Advertiser).sendWorker" || name == "(*corerad.Advertiser).shutdown"
		})
		c.R.Check(ok, "R-C06-5", c.fname(s.Fn)+":calls-send", c.fname(s.Fn), c.pos(s.Pos()), "caller "+c.fname(s.Fn)+" reached from "+who, "send is called only by Run (initial), sendWorker (scheduled) and shutdown (final)", "a transmission bypasses the scheduler's spacing")
	}
	for _, s := range an.FindCalls(c.srcFuncs(), func(cc *ssa.CallCommon) bool { return an.CallIs(cc, PkgCorerad, "Advertiser", "sendWorker") }) {
		ok, _ := c.reachedOnlyFrom(s.Fn, func(root *ssa.Function) bool { return root == sch })
		c.R.Check(ok && s.Fn.Parent() != nil, "R-C06-5", c.fname(s.Fn)+":calls-sendWorker", c.fname(s.Fn), c.pos(s.Pos()), "caller "+c.fname(s.Fn), "sendWorker runs only inside closures scheduled by schedule()", "a transmission bypasses the scheduler's spacing")
	}
	c.R.Floor("R-C06-5", 3)
	// one scheduling decision, at most one transmission, to the scheduled destination: on every path
	// of sendWorker send is called at most once, with sendWorker's own ip parameter
	if sw := c.needMethod("R-C06-5", "internal/corerad", "Advertiser", "sendWorker"); sw != nil {
		worst, badDst := 0, ""
		for _, p := range c.pathsO("R-C06-5", sw, an.PathOpts{EmitCut: true}) {
			calls := callsOnPath(p, func(cc *ssa.CallCommon) bool { return an.CallIs(cc, PkgCorerad, "Advertiser", "send") })
			if len(calls) > worst {
				worst = len(calls)
			}
			for _, ci := range calls {
				args := ci.Common().Args
				if len(args) < 3 {
					continue
				}
				if e := p.Of(args[2]); !(e.Op == an.OpParam && e.Fn == sw) {
					badDst = e.String()
				}
			}
		}
		fact := fmt.Sprintf("at most %d send call(s) on a path of sendWorker", worst)
		if badDst != "" {
			fact += "; destination " + badDst
		}
		c.R.Check(worst == 1 && badDst == "", "R-C06-5", c.fname(sw)+":one-transmission-per-decision", c.fname(sw), c.pos(sw.Pos()), fact,
			"a scheduled task transmits at most one RA, to the destination the scheduler decided on", "a second (multicast) RA goes out from a task after the limiter's decision: multicast RAs closer than MIN_DELAY_BETWEEN_RAS")
	}
}
