package rules

import (
	"os"
	"fmt"
	"go/constant"
	"go/token"
	"go/types"
	"sort"
	"strings"

	"crverif/internal/an"

	"golang.org/x/tools/go/ssa"
)

func init() {
	register(&RuleSet{
		Property: "C13",
		Explanation: "Pipeline obligations of the ::/64 expansion (the set semantics over all address lists is NOT decided): R-C13-1 an address is dropped under exactly Is4, IsLinkLocalUnicast, length mismatch with the stanza, Temporary, Tentative, or already-seen; " +
			"R-C13-2 the kept value is a.Address.Masked(), guarded by a failed membership test on a set keyed by that value, which is inserted on the same path; R-C13-3 every success return sorts the result with x.Addr().Compare(y.Addr()) (ascending); " +
			"R-C13-4 a failure to list addresses reaches the caller of Interface.RouterAdvertisement as a non-nil error through every hop; R-C13-5 apply builds one PrefixInformation per element with the stanza's flags/lifetimes; address flags come from the like-named IFA_F_* bits R-C13-6 listing failures are returned (error discipline incl. helpers and shadowed named results); R-C13-7 the parser's prefix-overlap rejection.",
		Assumptions: []string{"Go type checker and go/ssa construction are correct", "slices.SortStableFunc sorts ascending by the comparator; netip methods have their documented meaning"},
		NotCovered:  []string{"the set-semantics claim over all address lists (order/multiplicity independence) as a whole"},
		Run:         runC13,
	})
	register(&RuleSet{
		Property: "C14",
		Explanation: "Pipeline obligations of the :: RDNSS wildcard (that the pairwise relation is a total order is NOT decided): R-C14-1 an address is skipped under exactly Is4, Deprecated, Temporary, Tentative; " +
			"R-C14-2 best is folded with betterRDNSS(best, a) over every surviving element and an invalid final best is an error; R-C14-3 ranking table of betterRDNSS/isStable/isEUI64 (stability first; flags ValidForever, ManageTemporaryAddresses, StablePrivacy, EUI-64 bytes 11,12 = ff,fe; classes in order private, global unicast, link-local; only-current ⇒ current, only-best ⇒ best, ties ⇒ current.Less(best)); " +
			"R-C14-4 the option's servers are [current()] ++ r.Servers in auto mode and r.Servers otherwise; parseRDNSS sorts static servers, does not store ::, rejects duplicates R-C14-5 listing failures are returned; R-C14-7 (linux) the Deprecated/Temporary/Tentative/stability flags of a listed address are the like-named IFA_F_* bits.",
		Assumptions: []string{"Go type checker and go/ssa construction are correct", "netip.Addr predicates have their documented meaning"},
		NotCovered:  []string{"that the pairwise comparator induces a total order (permutation independence)"},
		Run:         runC14,
	})
	register(&RuleSet{
		Property: "C15",
		Explanation: "Pipeline obligations of the ::/0 route expansion (the maximal-antichain semantics over all route lists is NOT decided): R-C15-1 a route is dropped under exactly Is4, IsSingleIP, covered-by-another, or already-emitted; " +
			"R-C15-2 the covered test excludes the route itself, tests containment of the route in the other prefix, and requires the other prefix to be shorter, with no condition on any other field of the two routes; R-C15-3 each kept route is emitted once (membership test + insert, or compaction after sorting); " +
			"R-C15-4 sorted ascending before return, errors propagate, one RouteInformation per element with the stanza's preference/lifetime; LoopbackRoutes considers up loopback interfaces and the main table R-C15-5 listing failures are returned; R-C15-6 the parser rejects overlapping or repeated static routes and a repeated ::/0 wildcard; R-C15-7 (linux) routesByIndex turns every message of the kernel dump into exactly one Route with the dumped destination and length.",
		Assumptions: []string{"Go type checker and go/ssa construction are correct", "netip.Prefix.Contains/Bits/Overlaps have their documented meaning"},
		NotCovered:  []string{"the maximal non-overlapping set semantics over all route lists as a whole"},
		Run:         runC15,
	})
}

// filterKind classifies a branch atom inside a filtering loop body.
func filterKind(a an.PathAtom) string {
	e := a.Cond
	switch e.Op {
	case an.OpCall:
		if e.Fn != nil {
			switch e.Fn.String() {
			case "(net/netip.Addr).Is4":
				return "Is4"
			case "(net/netip.Addr).IsLinkLocalUnicast":
				return "IsLinkLocalUnicast"
			case "(net/netip.Prefix).IsSingleIP":
				return "IsSingleIP"
			case "(net/netip.Prefix).Contains":
				return "Contains"
			case "(net/netip.Prefix).Overlaps":
				return "Overlaps"
			}
			// slices.Contains(acc, v) where acc is the slice the loop is filling: "already emitted"
			if o := e.Fn.Origin(); (e.Fn.Name() == "Contains" || (o != nil && o.Name() == "Contains")) && len(e.Args) == 2 && e.Args[0].Op == an.OpLoop {
				if fo := an.FuncObj(e.Fn); fo != nil && fo.Pkg() != nil && fo.Pkg().Path() == "slices" {
					return "Seen"
				}
			}
			return "call:" + e.Fn.Name()
		}
		return "call:" + e.Name
	case an.OpField:
		return e.Name
	case an.OpExtract:
		if e.Idx == 1 && e.Args[0].Op == an.OpElem && e.Args[0].CommaOk {
			return "Seen"
		}
	case an.OpElem:
		// seen[k] on a map[K]bool used as a set (only `true` is ever stored: see seenKey's callers)
		if !e.CommaOk && len(e.Args) == 2 && e.Args[0].Typ != nil {
			if m, ok := e.Args[0].Typ.Underlying().(*types.Map); ok {
				if b, ok := m.Elem().Underlying().(*types.Basic); ok && b.Kind() == types.Bool {
					return "Seen"
				}
			}
		}
	case an.OpBin:
		x, y := e.Args[0], e.Args[1]
		isBits := func(z *an.Expr) bool {
			return z.Op == an.OpCall && z.Fn != nil && z.Fn.String() == "(net/netip.Prefix).Bits"
		}
		// p.Bits() == 128 is the definition of p.IsSingleIP() (polarity: see kindPol)
		if k, isC := y.ConstInt(); isC && k == 128 && isBits(x) && (e.Tok == token.EQL || e.Tok == token.NEQ) {
			return "IsSingleIP"
		}
		if isBits(x) && isBits(y) {
			switch e.Tok {
			case token.NEQ, token.EQL:
				return "BitsMismatch"
			default:
				return "BitsOrder"
			}
		}
		if (e.Tok == token.NEQ || e.Tok == token.EQL) && x.Op == an.OpField && y.Op == an.OpField && x.Name == y.Name {
			return "Self"
		}
		if x.Op == an.OpLoop || strings.Contains(x.String(), "loop:") && e.Tok == token.LSS {
			return "loop"
		}
	}
	return "other:" + e.String()
}

// marksMember reports whether a map update records membership: any value for a
// set of empty structs, the constant true for a map[K]bool (a stored false
// would make the `set[k]` test miss the element).
func marksMember(mu *ssa.MapUpdate) bool {
	if b, ok := mu.Value.Type().Underlying().(*types.Basic); ok && b.Kind() == types.Bool {
		k, isC := mu.Value.(*ssa.Const)
		return isC && k.Value != nil && k.Value.Kind() == constant.Bool && constant.BoolVal(k.Value)
	}
	return true
}

// rdnssEveryServerChecked: every iteration of parseRDNSS's server loop that
// goes on to the next element (the server, or the wildcard, was accepted) has
// established that the parsed address is IPv6, not IPv4-mapped and carries no
// zone. (An accepting iteration that skips these tests lets 0.0.0.0 through as
// the wildcard: netip.Addr.IsUnspecified is true for it.)
func rdnssEveryServerChecked(c *Ctx, rule string) {
	pr := c.P.Func("internal/config", "parseRDNSS")
	if pr == nil {
		return
	}
	n, bad := 0, ""
	for _, p := range c.pathsO(rule, pr, an.PathOpts{EmitCut: true}) {
		if !p.Cut {
			continue
		}
		parsed := false
		is6, not4in6, noZone := false, false, false
		for _, a := range p.Atoms {
			e := a.Cond
			if e.Op == an.OpCall && e.Fn != nil {
				switch e.Fn.String() {
				case "(net/netip.Addr).Is6":
					is6 = is6 || a.Pos
				case "(net/netip.Addr).Is4In6":
					not4in6 = not4in6 || !a.Pos
				}
			}
			x, y, op, ok := effCmp(a)
			if ok && x.Op == an.OpCall && x.Fn != nil && x.Fn.String() == "(net/netip.Addr).Zone" && y.IsConst(`""`) && op == token.EQL {
				noZone = true
			}
			if ok && exprIsNil(y) && op == token.EQL {
				if b, idx := stripExtract(x); idx == 1 && b != nil && b.Op == an.OpCall && b.Fn != nil && b.Fn.String() == "net/netip.ParseAddr" {
					parsed = true
				}
			}
		}
		if !parsed {
			continue // not an iteration of the server loop
		}
		n++
		if !(is6 && not4in6 && noZone) {
			bad = fmt.Sprintf("an accepting iteration established Is6=%v, !Is4In6=%v, no zone=%v (%s)", is6, not4in6, noZone, atomsString(p))
		}
	}
	c.R.Check(n >= 2 && bad == "", rule, c.fname(pr)+":every-accepted-server-is-plain-ipv6", c.fname(pr), c.pos(pr.Pos()), fmt.Sprintf("%d accepting iteration path(s); %s", n, bad),
		"every server string that is accepted (as a server or as the :: wildcard) parsed to an IPv6, non-mapped, zone-less address", "0.0.0.0 is accepted as the wildcard, or an IPv4/zoned server is advertised")
}

func instrPosOfAtom(a an.PathAtom) token.Pos {
	if a.If != nil {
		return instrPos(a.If)
	}
	return token.NoPos
}

// seenKey returns the key of a membership test classified "Seen": the
// `_, ok := set[k]` form, the `set[k]` form of a map[K]bool, and
// slices.Contains(acc, k).
func seenKey(a an.PathAtom) *an.Expr {
	e := a.Cond
	switch e.Op {
	case an.OpExtract:
		if len(e.Args) == 1 && len(e.Args[0].Args) == 2 {
			return e.Args[0].Args[1]
		}
	case an.OpElem, an.OpCall:
		if len(e.Args) == 2 {
			return e.Args[1]
		}
	}
	return nil
}

// kindPol is filterKind with the polarity of the named condition ("+" holds, "-" does not).
func kindPol(a an.PathAtom) (string, string) {
	k := filterKind(a)
	pos := a.Pos
	if k == "IsSingleIP" && a.Cond.Op == an.OpBin && a.Cond.Tok == token.NEQ {
		pos = !pos
	}
	if k == "BitsMismatch" && a.Cond.Op == an.OpBin && a.Cond.Tok == token.EQL {
		pos = !pos // written as a match test
	}
	if pos {
		return k, "+"
	}
	return k, "-"
}

// loopBodyPaths returns the cut paths that represent one iteration of the
// outermost filtering loop, split into dropping and keeping paths (a keeping
// path appends to a slice of netip.Prefix / stores the fold variable).
type iterPath struct {
	p       *an.Path
	kinds   []string // non-loop atom kinds with polarity, in order
	appends []*an.Expr
}

func iterationPaths(c *Ctx, rule string, fn *ssa.Function) (iters []iterPath, rets []*an.Path) {
	for _, p := range c.pathsO(rule, fn, an.PathOpts{EmitCut: true}) {
		if p.Ret != nil {
			rets = append(rets, p)
			continue
		}
		if !p.Cut {
			continue
		}
		it := iterPath{p: p}
		started := false
		for _, a := range p.Atoms {
			k, pol := kindPol(a)
			if k == "loop" {
				started = true
				continue
			}
			if !started {
				continue
			}
			it.kinds = append(it.kinds, pol+k)
		}
		p.Instrs(func(in ssa.Instruction) {
			if call, ok := in.(*ssa.Call); ok {
				if b, ok := call.Call.Value.(*ssa.Builtin); ok && b.Name() == "append" {
					e := p.Of(call)
					if e.Op == an.OpAppend && len(e.Args) == 2 && e.Args[1].Op == an.OpStruct && e.Args[1].Name == "list" {
						it.appends = append(it.appends, e.Args[1].Args...)
					}
				}
			}
		})
		iters = append(iters, it)
	}
	return
}

// summariseFilter: keeps lists, for every appending iteration, its atom
// kinds. A condition k (a positive kind such as "+Is4") counts as a drop
// condition when some iteration on which it holds drops the element and no
// iteration on which it holds keeps it; this does not depend on where in the
// path the decision is taken (early continue, or boolean variables combined
// later). Dropping iterations on which none of the wanted conditions holds are
// returned as unjustified.
func summariseFilter(iters []iterPath, want map[string]bool) (drops map[string]bool, keeps [][]string, unjustified [][]string) {
	drops = map[string]bool{}
	keptWith := map[string]bool{}
	for _, it := range iters {
		if len(it.appends) > 0 {
			keeps = append(keeps, it.kinds)
			for _, k := range it.kinds {
				keptWith[k] = true
			}
		}
	}
	for _, it := range iters {
		if len(it.appends) > 0 || len(it.kinds) == 0 {
			continue
		}
		just := false
		for _, k := range it.kinds {
			if strings.HasPrefix(k, "+") && !keptWith[k] {
				if want[k] {
					just = true
				}
			}
		}
		if just {
			for _, k := range it.kinds {
				if want[k] && !keptWith[k] {
					drops[k] = true
				}
			}
			continue
		}
		// not justified by a documented condition: the deciding atom names the extra filter
		drops[it.kinds[len(it.kinds)-1]] = true
		unjustified = append(unjustified, it.kinds)
	}
	return
}

func kindSetString(m map[string]bool) string {
	var ks []string
	for k := range m {
		ks = append(ks, k)
	}
	sort.Strings(ks)
	return strings.Join(ks, " ")
}

// existsConjunctions resolves the last slices.ContainsFunc(s, pred) atom of a
// path: pred (a closure; its captured variables are bound to their values on
// the path) is enumerated, and for every path on which it can return true the
// conditions established are returned (a result that is itself a condition
// counts as established).
func existsConjunctions(c *Ctx, rule string, p *an.Path) ([][]an.PathAtom, bool) {
	var call *an.Expr
	for _, a := range p.Atoms {
		if a.Pos && a.Cond.Op == an.OpCall && a.Cond.Fn != nil && len(a.Cond.Args) == 2 {
			if fo := an.FuncObj(a.Cond.Fn); fo != nil && fo.Name() == "ContainsFunc" && fo.Pkg() != nil && fo.Pkg().Path() == "slices" {
				call = a.Cond
			}
		}
	}
	if call == nil {
		return nil, false
	}
	pred := call.Args[1]
	if pred.Op != an.OpClosure || pred.Fn == nil {
		return nil, false
	}
	ps, err := c.XO.PathsBoundFV(pred.Fn, nil, pred.Args, an.PathOpts{InlinePaths: c.helperInline(pred.Fn)})
	if err != nil {
		c.R.Undecided(rule, "paths:"+c.fname(pred.Fn), c.fname(pred.Fn), c.pos(pred.Fn.Pos()), err.Error())
		return nil, false
	}
	var out [][]an.PathAtom
	for _, q := range ps {
		if q.Ret == nil || len(q.Results) != 1 {
			continue
		}
		res := q.Results[0]
		atoms := append([]an.PathAtom{}, q.Atoms...)
		if v, isConst := an.FoldBool(res); isConst {
			if !v {
				continue
			}
		} else if res.Op == an.OpConst {
			if res.IsConst("false") {
				continue
			}
		} else {
			atoms = append(atoms, an.PathAtom{Cond: res, Pos: true})
		}
		out = append(out, atoms)
	}
	return out, len(out) > 0
}

// sortedBeforeReturn checks that on the success return path a stable sort of
// the returned slice with comparator cmp(a,b)=a.Addr().Compare(b.Addr()) runs.
func sortedBeforeReturn(c *Ctx, rule string, fn *ssa.Function, rets []*an.Path) {
	name := c.fname(fn)
	n := 0
	for _, p := range rets {
		if len(p.Results) != 2 || !exprIsNil(p.Results[1]) {
			continue
		}
		n++
		var sorts []ssa.CallInstruction
		p.Instrs(func(in ssa.Instruction) {
			if ci, ok := in.(ssa.CallInstruction); ok {
				if f := an.CalleeObj(ci.Common()); f != nil && f.Pkg() != nil && (f.Pkg().Path() == "slices" || f.Pkg().Path() == "sort") && strings.HasPrefix(f.Name(), "Sort") {
					sorts = append(sorts, ci)
				}
			}
		})
		ok := len(sorts) == 1
		fact := fmt.Sprintf("%d sort call(s)", len(sorts))
		if ok {
			args := sorts[0].Common().Args
			sl := p.Of(args[0])
			okSlice := sameValue(sl, p.Results[0])
			var cmpFn *ssa.Function
			switch v := args[len(args)-1].(type) {
			case *ssa.Function:
				cmpFn = v
			case *ssa.MakeClosure:
				cmpFn = v.Fn.(*ssa.Function)
			}
			okCmp := false
			cmpStr := "?"
			if cmpFn != nil && len(cmpFn.Params) == 2 {
				rs := an.Returns(cmpFn)
				if len(rs) == 1 {
					e := c.XO.Of(rs[0].Results[0])
					cmpStr = e.String()
					if e.Op == an.OpCall && e.Fn != nil && e.Fn.String() == "(net/netip.Addr).Compare" && len(e.Args) == 2 {
						x, y := e.Args[0], e.Args[1]
						isAddrOfParam := func(z *an.Expr, idx int) bool {
							if z.Op == an.OpParam && z.Idx == idx {
								return true
							}
							return z.Op == an.OpCall && z.Fn != nil && z.Fn.String() == "(net/netip.Prefix).Addr" && z.Args[0].Op == an.OpParam && z.Args[0].Idx == idx
						}
						okCmp = isAddrOfParam(x, 0) && isAddrOfParam(y, 1)
					}
				}
			}
			ok = okSlice && okCmp
			fact = fmt.Sprintf("sorts the returned slice=%v; comparator = %s", okSlice, cmpStr)
		}
		c.R.Check(ok, rule, name+":sorted-ascending", name, c.pos(p.Ret.Pos()), fact,
			"the returned slice is sorted with cmp(a,b) = a.Addr().Compare(b.Addr()) before the success return", "result order depends on the operating system's listing (or is descending)")
	}
	c.R.Check(n >= 1, rule, name+":success-return", name, c.pos(fn.Pos()), fmt.Sprintf("%d success return(s)", n), ">= 1", "anchor-missing")
}

// errorPropagates checks: on every return path of fn on which `callee`'s
// error result is non-nil, fn returns a non-nil error.
func errorPropagates(c *Ctx, rule string, fn *ssa.Function, isCallee func(*an.Expr) bool, what string) {
	name := c.fname(fn)
	n := 0
	for _, p := range c.pathsO(rule, fn, an.PathOpts{EmitCut: true}) {
		failed := false
		for _, a := range p.Atoms {
			x, y, op, ok := effCmp(a)
			if ok && exprIsNil(y) && op == token.NEQ {
				b, _ := stripExtract(x)
				if isCallee(b) {
					failed = true
				}
			}
		}
		if !failed {
			continue
		}
		n++
		ok := p.Ret != nil && len(p.Results) >= 1 && !exprIsNil(p.Results[len(p.Results)-1]) && !exprIsZero(p.Results[len(p.Results)-1])
		c.R.Check(ok, rule, fmt.Sprintf("%s:propagates-%s-error", name, what), name, c.pos(fn.Pos()), fmt.Sprintf("on %s failure: ends in %s, returns %v", what, pathKind(p), exprStrings(p.Results)),
			"a non-nil error is returned", "a failure to read system state is swallowed: an RA silently advertising nothing is sent")
	}
	c.R.Check(n >= 1, rule, fmt.Sprintf("%s:checks-%s-error", name, what), name, c.pos(fn.Pos()), fmt.Sprintf("%d failure path(s)", n), ">= 1 (the error is tested)", "error result ignored")
}

func isDynField(field string) func(*an.Expr) bool {
	return func(e *an.Expr) bool {
		return e.Op == an.OpCall && strings.HasPrefix(e.Name, "dyn:") && len(e.Args) >= 1 && e.Args[0].IsField(field)
	}
}

func isCallTo(pkg, recv, name string) func(*an.Expr) bool {
	return func(e *an.Expr) bool { return exprCallIs(e, pkg, recv, name) }
}

func isInvoke(name string) func(*an.Expr) bool {
	return func(e *an.Expr) bool { return e.Op == an.OpCall && e.Fn == nil && e.Name == name }
}

func runC13(c *Ctx) {
	c01PerInterface(c) // the wildcard expands from the interface's own addresses: own plugin instances per interface (shared R-C01-6)
	sharedRejections(c, "R-C13-7", "prefixes-overlap")
	listingErrors(c, "R-C13-6", [][3]string{{"internal/plugin", "Prefix", "current"}, {"internal/plugin", "Prefix", "Apply"}, {"internal/system", "addresser", "AddressesByIndex"}})
	cur := c.needMethod("R-C13-1", "internal/plugin", "Prefix", "current")
	if cur == nil {
		return
	}
	name := c.fname(cur)
	iters, rets := iterationPaths(c, "R-C13-1", cur)
	if os.Getenv("DEBUG_ITERS") != "" {
		for _, it := range iters {
			fmt.Fprintf(os.Stderr, "ITER appends=%d kinds=%v\n", len(it.appends), it.kinds)
		}
	}
	want := map[string]bool{"+Is4": true, "+IsLinkLocalUnicast": true, "+BitsMismatch": true, "+Temporary": true, "+Tentative": true, "+Seen": true}
	drops, keeps, _ := summariseFilter(iters, want)
	for k := range want {
		c.R.Check(drops[k], "R-C13-1", name+":drops"+k, name, c.pos(cur.Pos()), "drop conditions found: "+kindSetString(drops), "an address is dropped when "+k[1:],
			"an ineligible address (IPv4, link-local, other prefix length, temporary, tentative, duplicate network) is advertised as a prefix")
	}
	for k := range drops {
		c.R.Check(want[k], "R-C13-1", name+":extra-drop"+k, name, c.pos(cur.Pos()), "drop conditions found: "+kindSetString(drops), "no filter beyond the documented six",
			"an eligible /64 network is silently not advertised")
	}
	wantKeep := []string{"-Is4", "-IsLinkLocalUnicast", "-BitsMismatch", "-Temporary", "-Tentative", "-Seen"}
	c.R.Check(len(keeps) == 1 && sameSet(keeps[0], wantKeep), "R-C13-1", name+":keep-condition", name, c.pos(cur.Pos()), fmt.Sprintf("kept under %v", keeps),
		"kept exactly when none of the six drop conditions holds", "filter set differs from the documented one")
	// BitsMismatch compares the address's own length with the stanza's
	for _, it := range iters {
		for _, a := range it.p.Atoms {
			if filterKind(a) == "BitsMismatch" {
				x, y := a.Cond.Args[0].Args[0], a.Cond.Args[1].Args[0]
				ok := (x.IsField("Address") && y.IsField("Prefix") && y.Args[0].Op == an.OpParam) || (y.IsField("Address") && x.IsField("Prefix") && x.Args[0].Op == an.OpParam)
				c.R.Check(ok, "R-C13-1", name+":length-compare-operands", name, c.pos(cur.Pos()), a.String(), "a.Address.Bits() != p.Prefix.Bits()", "length filter compares the wrong values")
			}
		}
	}
	// R-C13-2
	for _, it := range iters {
		if len(it.appends) == 0 {
			continue
		}
		ok := len(it.appends) == 1
		fact := fmt.Sprintf("%d append(s)", len(it.appends))
		if ok {
			v := it.appends[0]
			okMask := v.Op == an.OpCall && v.Fn != nil && v.Fn.String() == "(net/netip.Prefix).Masked" && v.Args[0].IsField("Address")
			// membership test key and insert key
			okKey, okIns := false, false
			for _, a := range it.p.Atoms {
				if filterKind(a) == "Seen" {
					if a.Cond.Op == an.OpCall {
						// slices.Contains(accumulator, key): the accumulator is the set, the append inserts
						key := a.Cond.Args[1]
						okKey = sameValue(key, v) || key.String() == v.String()
						acc := a.Cond.Args[0]
						it.p.Instrs(func(in ssa.Instruction) {
							if call, ok := in.(*ssa.Call); ok {
								if b, ok := call.Call.Value.(*ssa.Builtin); ok && b.Name() == "append" {
									if e := it.p.Of(call); e.Op == an.OpAppend && len(e.Args) == 2 && e.Args[0].Op == an.OpLoop && e.Args[0].V == acc.V {
										okIns = true
									}
								}
							}
						})
						continue
					}
					key := seenKey(a)
					okKey = key != nil && (sameValue(key, v) || key.String() == v.String())
				}
			}
			it.p.Instrs(func(in ssa.Instruction) {
				if mu, ok := in.(*ssa.MapUpdate); ok && marksMember(mu) {
					k := it.p.Of(mu.Key)
					if k.String() == v.String() {
						okIns = true
					}
				}
			})
			ok = okMask && okKey && okIns
			fact = fmt.Sprintf("appends %s; membership keyed by the same value=%v; inserted on the same path=%v", v, okKey, okIns)
		}
		c.R.Check(ok, "R-C13-2", name+":mask-and-dedupe", name, c.pos(cur.Pos()), fact,
			"append(a.Address.Masked()) guarded by a failed lookup of that value in the seen-set, with the value inserted on the same path", "a network is advertised twice, or unmasked addresses are advertised as prefixes")
	}
	sortedBeforeReturn(c, "R-C13-3", cur, rets)

	// R-C13-4 error propagation chain
	errorPropagates(c, "R-C13-4", cur, isDynField("Addrs"), "Addrs")
	if f := c.needMethod("R-C13-4", "internal/plugin", "Prefix", "Apply"); f != nil {
		errorPropagates(c, "R-C13-4", f, isCallTo(PkgPlugin, "Prefix", "current"), "current")
	}
	chainCommon(c, "R-C13-4")

	// R-C13-5 apply
	if ap := c.needMethod("R-C13-5", "internal/plugin", "Prefix", "apply"); ap != nil {
		checkOptionLiteral(c, "R-C13-5", ap, "PrefixInformation", map[string]func(*an.Expr) bool{
			"PrefixLength": func(e *an.Expr) bool {
				return e.Op == an.OpConv && e.Args[0].Op == an.OpCall && e.Args[0].Fn != nil && e.Args[0].Fn.String() == "(net/netip.Prefix).Bits" && e.Args[0].Args[0].Op == an.OpElem
			},
			"OnLink":                         func(e *an.Expr) bool { return isRecvField(e, "OnLink") },
			"AutonomousAddressConfiguration": func(e *an.Expr) bool { return isRecvField(e, "Autonomous") },
			"ValidLifetime": func(e *an.Expr) bool {
				b, i := stripExtract(e)
				return i == 0 && exprCallIs(b, PkgPlugin, "Prefix", "lifetimes")
			},
			"PreferredLifetime": func(e *an.Expr) bool {
				b, i := stripExtract(e)
				return i == 1 && exprCallIs(b, PkgPlugin, "Prefix", "lifetimes")
			},
			"Prefix": func(e *an.Expr) bool {
				return e.Op == an.OpCall && e.Fn != nil && e.Fn.String() == "(net/netip.Prefix).Addr" && e.Args[0].Op == an.OpElem
			},
		})
		n := 0
		for _, ci := range an.CallsIn(ap) {
			if an.CallIs(ci.Common(), PkgPlugin, "Prefix", "lifetimes") {
				n++
				fi := an.Info(ap)
				c.R.Check(!fi.Reaches(ci.Block(), ci.Block()), "R-C13-5", c.fname(ap)+":lifetimes-once", c.fname(ap), c.pos(ci.Pos()), "lifetimes() call outside the loop", "lifetimes evaluated once per Apply: all expanded prefixes share them", "prefixes of one stanza get different lifetimes")
			}
		}
	}
	c13Flags(c)
}

func sameSet(a, b []string) bool {
	if len(a) != len(b) {
		return false
	}
	m := map[string]int{}
	for _, x := range a {
		m[x]++
	}
	for _, x := range b {
		m[x]--
	}
	for _, v := range m {
		if v != 0 {
			return false
		}
	}
	return true
}

// chainCommon: Interface.RouterAdvertisement → buildRA → send propagate errors.
func chainCommon(c *Ctx, rule string) {
	if f := c.needMethod(rule, "internal/config", "Interface", "RouterAdvertisement"); f != nil {
		errorPropagates(c, rule, f, isInvoke("Apply"), "Apply")
	}
	if f := c.needMethod(rule, "internal/corerad", "Advertiser", "buildRA"); f != nil {
		errorPropagates(c, rule, f, isCallTo(PkgConfig, "Interface", "RouterAdvertisement"), "RouterAdvertisement")
	}
	if f := c.needMethod(rule, "internal/corerad", "Advertiser", "send"); f != nil {
		errorPropagates(c, rule, f, isCallTo(PkgCorerad, "Advertiser", "buildRA"), "buildRA")
	}
}

// checkOptionLiteral finds, in fn, the composite literal of ndp.<typ> that is
// appended to the option list and checks each field's source.
func checkOptionLiteral(c *Ctx, rule string, fn *ssa.Function, typ string, want map[string]func(*an.Expr) bool) {
	name := c.fname(fn)
	found := false
	for _, p := range c.pathsO(rule, fn, an.PathOpts{EmitCut: true}) {
		p.Instrs(func(in ssa.Instruction) {
			mi, ok := in.(*ssa.MakeInterface)
			if !ok || found {
				return
			}
			if !strings.HasSuffix(typeStr(mi.X.Type()), "ndp."+typ) {
				return
			}
			e := p.Of(mi.X)
			flds := raHeader(e)
			if flds == nil {
				return
			}
			found = true
			var keys []string
			for k := range want {
				keys = append(keys, k)
			}
			sort.Strings(keys)
			for _, k := range keys {
				v := flds[k]
				c.R.Check(v != nil && want[k](v), rule, fmt.Sprintf("%s:%s.%s", name, typ, k), name, c.pos(mi.Pos()), fmt.Sprintf("%s ⇐ %v", k, v), "the like-named stanza value", "option field sourced from the wrong configuration value")
			}
			for k := range flds {
				if _, ok := want[k]; !ok {
					c.R.Fail(rule, fmt.Sprintf("%s:%s.%s", name, typ, k), name, c.pos(mi.Pos()), fmt.Sprintf("%s ⇐ %v", k, flds[k]), "no other field is set", "option carries an unconfigured field")
				}
			}
		})
	}
	c.R.Check(found, rule, name+":builds-"+typ, name, c.pos(fn.Pos()), fmt.Sprintf("literal found=%v", found), "one ndp."+typ+" per element", "anchor-missing")
}

func c13Flags(c *Ctx) { addrFlags(c, "R-C13-5") }

// addrFlags: the flags of system.IP are the like-named IFA_F_* bits of the netlink message (shared by C13
// and C14: both wildcards decide eligibility on them).
func addrFlags(c *Ctx, rule string) {
	ab := c.P.Method("internal/system", "addresser", "AddressesByIndex")
	if ab == nil {
		if c.P.Cfg.GOOS == "linux" {
			c.R.Fail(rule, "system.addresser.AddressesByIndex", "", "", "missing", "", "anchor-missing")
		}
		return
	}
	var ux *types.Package
	for _, pk := range c.P.All {
		if pk.PkgPath == "golang.org/x/sys/unix" {
			ux = pk.Types
		}
	}
	if ux == nil {
		return
	}
	bit := func(n string) int64 {
		if k, ok := ux.Scope().Lookup(n).(*types.Const); ok {
			v, _ := constant.Int64Val(k.Val())
			return v
		}
		return -1
	}
	want := map[string]int64{
		"Deprecated": bit("IFA_F_DEPRECATED"), "ManageTemporaryAddresses": bit("IFA_F_MANAGETEMPADDR"), "StablePrivacy": bit("IFA_F_STABLE_PRIVACY"),
		"Temporary": bit("IFA_F_TEMPORARY"), "Tentative": bit("IFA_F_TENTATIVE"),
	}
	name := c.fname(ab)
	done := false
	for _, p := range c.pathsO(rule, ab, an.PathOpts{EmitCut: true}) {
		if done {
			break
		}
		p.Instrs(func(in ssa.Instruction) {
			if done {
				return
			}
			// the IP handed to the result: appended, or stored into an element of a pre-sized slice
			var ipExpr *an.Expr
			var at ssa.Instruction = in
			switch x := in.(type) {
			case *ssa.Call:
				b, ok := x.Call.Value.(*ssa.Builtin)
				if !ok || b.Name() != "append" {
					return
				}
				e := p.Of(x)
				if e.Op != an.OpAppend || len(e.Args) != 2 || e.Args[1].Op != an.OpStruct || len(e.Args[1].Args) != 1 {
					return
				}
				ipExpr = e.Args[1].Args[0]
			case *ssa.Store:
				if _, isElem := x.Addr.(*ssa.IndexAddr); !isElem || !strings.HasSuffix(typeStr(x.Val.Type()), "system.IP") {
					return
				}
				ipExpr = p.Of(x.Val)
			default:
				return
			}
			call := at
			flds := raHeader(ipExpr)
			if flds == nil || flds["Address"] == nil {
				return
			}
			done = true
			var keys []string
			for k := range want {
				keys = append(keys, k)
			}
			sort.Strings(keys)
			for _, k := range keys {
				v := flds[k]
				ok := false
				if v != nil && v.Op == an.OpBin && v.Tok == token.NEQ {
					and := v.Args[0]
					if z, isC := v.Args[1].ConstInt(); isC && z == 0 && and.Op == an.OpBin && and.Tok == token.AND {
						if m, isC := and.Args[1].ConstInt(); isC && m == want[k] && and.Args[0].IsField("Flags") {
							ok = true
						}
					}
				}
				c.R.Check(ok, rule, name+":flag:"+k, name, c.pos(call.Pos()), fmt.Sprintf("%s ⇐ %v", k, v), fmt.Sprintf("Flags & %#x != 0 (the like-named IFA_F_* bit)", want[k]), "address flag read from the wrong kernel bit: eligibility and ranking use wrong facts")
			}
		})
	}
	c.R.Check(done, rule, name+":builds-IP", name, c.pos(ab.Pos()), fmt.Sprintf("IP literal found=%v", done), "system.IP built from rtnetlink attributes", "anchor-missing")
}

// ---- C14 ------------------------------------------------------------------

func runC14(c *Ctx) {
	c01PerInterface(c) // shared R-C01-6
	// the wildcard and the duplicate test work on the address: a zoned spelling must not slip past them
	sharedRejections(c, "R-C14-6", "rdnss-zoned", "rdnss-wildcard-twice", "rdnss-duplicate")
	addrFlags(c, "R-C14-7")
	listingErrors(c, "R-C14-5", [][3]string{{"internal/plugin", "RDNSS", "current"}, {"internal/plugin", "RDNSS", "Apply"}, {"internal/system", "addresser", "AddressesByIndex"}})
	cur := c.needMethod("R-C14-1", "internal/plugin", "RDNSS", "current")
	if cur == nil {
		return
	}
	name := c.fname(cur)
	better := c.P.Func("internal/plugin", "betterRDNSS")
	ps := c.pathsO("R-C14-1", cur, an.PathOpts{EmitCut: true})
	drops := map[string]bool{}
	var keep [][]string
	for _, p := range ps {
		if !p.Cut {
			continue
		}
		var kinds []string
		started := false
		for _, a := range p.Atoms {
			k, pol := kindPol(a)
			if k == "loop" {
				started = true
				continue
			}
			if !started {
				continue
			}
			kinds = append(kinds, pol+k)
		}
		calls := callsOnPath(p, func(cc *ssa.CallCommon) bool { return better != nil && an.StaticCallee(cc) == better })
		if len(calls) == 0 {
			if len(kinds) > 0 {
				drops[kinds[len(kinds)-1]] = true
			}
			continue
		}
		keep = append(keep, kinds)
		// R-C14-2 fold shape
		args := calls[0].Common().Args
		b, a := p.Of(args[0]), p.Of(args[1])
		okFold := len(calls) == 1 && a.Op == an.OpElem && strings.Contains(b.String(), "betterRDNSS") || (len(calls) == 1 && a.Op == an.OpElem && (b.Op == an.OpZero || b.Op == an.OpPhi))
		// the result is stored back into best: back-edge value of best alloc is the call
		c.R.Check(okFold, "R-C14-2", name+":fold", name, c.pos(calls[0].Pos()), fmt.Sprintf("best = betterRDNSS(%s, %s)", b, a),
			"best = betterRDNSS(best, a) for the surviving element a, best carried across iterations", "the best address is not a fold over all eligible addresses")
	}
	want := map[string]bool{"+Is4": true, "+Deprecated": true, "+Temporary": true, "+Tentative": true}
	for k := range want {
		c.R.Check(drops[k], "R-C14-1", name+":skips"+k, name, c.pos(cur.Pos()), "skip conditions found: "+kindSetString(drops), "an address is skipped when "+k[1:], "an unusable (IPv4, deprecated, temporary or tentative) address can be advertised as DNS server")
	}
	for k := range drops {
		c.R.Check(want[k], "R-C14-1", name+":extra-skip"+k, name, c.pos(cur.Pos()), "skip conditions found: "+kindSetString(drops), "no filter beyond the documented four", "an eligible address is never considered")
	}
	c.R.Check(len(keep) == 1 && sameSet(keep[0], []string{"-Is4", "-Deprecated", "-Temporary", "-Tentative"}), "R-C14-1", name+":eligible-condition", name, c.pos(cur.Pos()), fmt.Sprintf("considered under %v", keep), "exactly when none of the four skip conditions holds", "eligibility differs")
	// final validity
	okInvalid, okValid := false, false
	for _, p := range ps {
		if p.Ret == nil || len(p.Results) != 2 {
			continue
		}
		for _, a := range p.Atoms {
			if a.Cond.Op == an.OpCall && a.Cond.Fn != nil && a.Cond.Fn.String() == "(net/netip.Addr).IsValid" {
				if !a.Pos && !exprIsNil(p.Results[1]) && exprIsZero(p.Results[0]) {
					okInvalid = true
				}
				if a.Pos && exprIsNil(p.Results[1]) && sameValue(p.Results[0], a.Cond.Args[0]) && strings.Contains(p.Results[0].String(), "betterRDNSS") {
					okValid = true
				}
			}
		}
	}
	c.R.Check(okInvalid && okValid, "R-C14-2", name+":result", name, c.pos(cur.Pos()), fmt.Sprintf("no eligible address ⇒ error: %v; otherwise returns best.Address.Addr(): %v", okInvalid, okValid),
		"an invalid final best fails RA generation; otherwise the folded best address is returned", "an unusable (zero) server is advertised, or the chosen address is not the folded best")
	errorPropagates(c, "R-C14-2", cur, isDynField("Addrs"), "Addrs")
	if f := c.needMethod("R-C14-2", "internal/plugin", "RDNSS", "Apply"); f != nil {
		errorPropagates(c, "R-C14-2", f, isCallTo(PkgPlugin, "RDNSS", "current"), "current")
	}
	c14Ranking(c)
	c14Compose(c)
}

func c14Ranking(c *Ctx) {
	// isStable
	if f := c.needFunc("R-C14-3", "internal/plugin", "isStable"); f != nil {
		reasons := map[string]bool{}
		for _, p := range c.pathsO("R-C14-3", f, an.PathOpts{}) {
			if p.Ret == nil {
				continue
			}
			r := p.Results[0]
			switch {
			case r.IsConst("true") && len(p.Atoms) > 0 && p.Atoms[len(p.Atoms)-1].Pos:
				reasons[filterKind(p.Atoms[len(p.Atoms)-1])] = true
			case exprCallIs(r, PkgPlugin, "", "isEUI64"):
				reasons["isEUI64"] = true
			case r.IsConst("false"):
			default:
				reasons["other:"+r.String()] = true
			}
		}
		want := map[string]bool{"ValidForever": true, "ManageTemporaryAddresses": true, "StablePrivacy": true, "isEUI64": true}
		c.R.Check(sameSet(keysOf(reasons), keysOf(want)), "R-C14-3", c.fname(f)+":flags", c.fname(f), c.pos(f.Pos()), "stable iff one of: "+kindSetString(reasons),
			"ValidForever ∨ ManageTemporaryAddresses ∨ StablePrivacy ∨ isEUI64(addr)", "stability ranking uses a different set of flags")
	}
	if f := c.needFunc("R-C14-3", "internal/plugin", "isEUI64"); f != nil {
		ok := false
		for _, p := range c.pathsO("R-C14-3", f, an.PathOpts{}) {
			if p.Ret == nil || len(p.Atoms) != 1 || !p.Atoms[0].Pos {
				continue
			}
			m1 := byteTest(p.Atoms[0].Cond)
			m2 := byteTest(p.Results[0])
			if (m1 == "11=255" && m2 == "12=254") || (m1 == "12=254" && m2 == "11=255") {
				ok = true
			}
		}
		c.R.Check(ok, "R-C14-3", c.fname(f)+":bytes", c.fname(f), c.pos(f.Pos()), fmt.Sprintf("tests b[11]==0xff ∧ b[12]==0xfe: %v", ok), "EUI-64 pattern ff:fe at bytes 11,12 of the 16-byte address", "EUI-64 detection looks at the wrong bytes")
	}
	bt := c.needFunc("R-C14-3", "internal/plugin", "betterRDNSS")
	if bt == nil {
		return
	}
	name := c.fname(bt)
	ps := c.pathsO("R-C14-3", bt, an.PathOpts{EmitCut: true})
	classOrder := ""
	bad := 0
	nRet := 0
	seen := map[string]bool{}
	for _, p := range ps {
		if p.Ret == nil {
			continue
		}
		nRet++
		res := p.Results[0]
		who := ""
		if res.Op == an.OpParam {
			who = res.Name
		}
		// gather facts
		var sc, sb, cc, cb, less, stableDiffer *bool
		invalidBest := false
		exhausted := false
		for _, a := range p.Atoms {
			e := a.Cond
			v := a.Pos
			if e.Op == an.OpUn && e.Tok == token.NOT {
				e = e.Args[0]
				v = !v
			}
			// relational form: stable(current) != stable(best) (or ==): the second follows from the first
			if e.Op == an.OpBin && (e.Tok == token.NEQ || e.Tok == token.EQL) && len(e.Args) == 2 &&
				exprCallIs(e.Args[0], PkgPlugin, "", "isStable") && exprCallIs(e.Args[1], PkgPlugin, "", "isStable") {
				a0, a1 := e.Args[0].Args[0], e.Args[1].Args[0]
				if a0.Op == an.OpParam && a1.Op == an.OpParam && ((a0.Name == "current" && a1.Name == "best") || (a0.Name == "best" && a1.Name == "current")) {
					d := (e.Tok == token.NEQ) == v
					stableDiffer = &d
				}
				continue
			}
			switch {
			case exprCallIs(e, PkgPlugin, "", "isStable"):
				vv := v
				if e.Args[0].Op == an.OpParam && e.Args[0].Name == "current" {
					sc = &vv
				} else if e.Args[0].Op == an.OpParam && e.Args[0].Name == "best" {
					sb = &vv
				}
			case e.Op == an.OpCall && e.Fn != nil && e.Fn.String() == "(net/netip.Prefix).IsValid" && e.Args[0].IsField("Address"):
				if !v {
					invalidBest = true
				}
			case e.Op == an.OpCall && strings.HasPrefix(e.Name, "dyn:") && len(e.Args) == 2:
				vv := v
				arg := e.Args[1]
				if lst := e.Args[0]; lst.Op == an.OpElem {
					// a package-level table of class predicates, read from the package initialiser
					if names, ok := c.globalFuncTable(lst); ok {
						classOrder = strings.Join(names, ",")
					}
				}
				if lst := e.Args[0]; lst.Op == an.OpElem && lst.Args[0].Op == an.OpStruct {
					var names []string
					for _, f := range lst.Args[0].Args {
						if f != nil {
							n := f.Name
							n = strings.TrimSuffix(n[strings.LastIndex(n, ".")+1:], "$thunk")
							names = append(names, n)
						}
					}
					classOrder = strings.Join(names, ",")
				}
				if strings.Contains(arg.String(), "$current") {
					cc = &vv
				} else if strings.Contains(arg.String(), "$best") {
					cb = &vv
				}
			case e.Op == an.OpCall && e.Fn != nil && e.Fn.String() == "(net/netip.Addr).Less" && len(e.Args) == 2:
				vv := v
				if strings.Contains(e.Args[0].String(), "$current") && strings.Contains(e.Args[1].String(), "$best") {
					less = &vv
				} else {
					vv = !vv // reversed operands: best.Less(current) — not equivalent on equality, reject below
					less = nil
					bad++
				}
			case e.Op == an.OpBin && strings.Contains(e.String(), "loop:") && e.Tok == token.LSS:
				if !v {
					exhausted = true
				}
			}
		}
		if stableDiffer != nil {
			switch {
			case sc != nil && sb == nil:
				vb := *sc != *stableDiffer
				sb = &vb
			case sb != nil && sc == nil:
				vc := *sb != *stableDiffer
				sc = &vc
			}
		}
		want := ""
		why := ""
		switch {
		case invalidBest:
			want, why = "current", "best is zero"
		case sc != nil && sb != nil && *sc != *sb:
			why = fmt.Sprintf("stable(current)=%v stable(best)=%v", *sc, *sb)
			if *sc {
				want = "current"
			} else {
				want = "best"
			}
		case cc != nil && cb != nil && *cc != *cb && !exhausted:
			why = fmt.Sprintf("class(current)=%v class(best)=%v", *cc, *cb)
			if *cc {
				want = "current"
			} else {
				want = "best"
			}
		case less != nil:
			why = fmt.Sprintf("tie, current.Less(best)=%v", *less)
			if *less {
				want = "current"
			} else {
				want = "best"
			}
		default:
			why = "undetermined"
		}
		key := name + ":decision@" + why
		if seen[key] && who == want {
			continue
		}
		seen[key] = true
		c.R.Check(who == want && want != "", "R-C14-3", key, name, c.pos(p.Ret.Pos()), fmt.Sprintf("returns %s under %s", res, why),
			"only-current-has-it ⇒ current; only-best-has-it ⇒ best; ties ⇒ current iff current.Less(best); zero best ⇒ current", "ranking returns the wrong address for this case")
	}
	c.R.Check(classOrder == "IsPrivate,IsGlobalUnicast,IsLinkLocalUnicast", "R-C14-3", name+":class-order", name, c.pos(bt.Pos()), "classes tried in order ["+classOrder+"]",
		"unique-local (IsPrivate), then global unicast, then link-local", "address classes ranked in the wrong order")
	c.R.Check(bad == 0 && nRet >= 6, "R-C14-3", name+":shape", name, c.pos(bt.Pos()), fmt.Sprintf("%d return path(s), %d reversed tie-break(s)", nRet, bad), "tie-break is current.Less(best)", "tie-break reversed")
}

func keysOf(m map[string]bool) []string {
	var out []string
	for k := range m {
		out = append(out, k)
	}
	sort.Strings(out)
	return out
}

// byteTest matches As16(ip)[i] == k and renders "i=k".
func byteTest(e *an.Expr) string {
	if e.Op != an.OpBin || e.Tok != token.EQL {
		return ""
	}
	x, y := e.Args[0], e.Args[1]
	k, isC := y.ConstInt()
	if !isC || x.Op != an.OpElem || len(x.Args) != 2 {
		return ""
	}
	if !(x.Args[0].Op == an.OpCall && x.Args[0].Fn != nil && x.Args[0].Fn.String() == "(net/netip.Addr).As16") {
		return ""
	}
	i, isI := x.Args[1].ConstInt()
	if !isI {
		return ""
	}
	return fmt.Sprintf("%d=%d", i, k)
}

func c14Compose(c *Ctx) {
	ap := c.needMethod("R-C14-4", "internal/plugin", "RDNSS", "Apply")
	if ap == nil {
		return
	}
	name := c.fname(ap)
	for _, p := range c.pathsO("R-C14-4", ap, an.PathOpts{}) {
		if p.Ret == nil || !exprIsNil(p.Results[0]) {
			continue
		}
		auto := false
		for _, a := range p.Atoms {
			if a.Cond.IsField("Auto") {
				auto = a.Pos
			}
		}
		calls := callsOnPath(p, func(cc *ssa.CallCommon) bool { return an.CallIs(cc, PkgPlugin, "RDNSS", "apply") })
		ok := len(calls) == 1
		fact := fmt.Sprintf("%d apply call(s)", len(calls))
		if ok {
			sv := p.Of(calls[0].Common().Args[1])
			fact = "servers = " + sv.String()
			if auto {
				// a fresh slice holding [current()#0] followed by r.Servers...: append([]netip.Addr{server}, r.Servers...),
				// or the same built step by step on make([]netip.Addr, 0, n)
				items, fresh := flattenAppend(sv)
				ok = fresh && len(items) == 2 && !items[0].spread && items[1].spread && items[1].e.IsField("Servers") && items[1].e.Args[0].Op == an.OpParam
				if ok {
					b, i := stripExtract(items[0].e)
					ok = i == 0 && exprCallIs(b, PkgPlugin, "RDNSS", "current")
				}
			} else {
				ok = sv.IsField("Servers") && sv.Args[0].Op == an.OpParam
			}
		}
		c.R.Check(ok, "R-C14-4", fmt.Sprintf("%s:servers@auto=%v", name, auto), name, c.pos(p.Ret.Pos()), fact,
			"auto: [current()] followed by r.Servers; otherwise r.Servers", "wildcard server not first, missing, or static servers lost")
	}
	c.R.Floor("R-C14-4", 2)
	if f := c.needMethod("R-C14-4", "internal/plugin", "RDNSS", "apply"); f != nil {
		checkOptionLiteral(c, "R-C14-4", f, "RecursiveDNSServer", map[string]func(*an.Expr) bool{
			"Lifetime": func(e *an.Expr) bool { return isRecvField(e, "Lifetime") },
			"Servers":  func(e *an.Expr) bool { return e.Op == an.OpParam && e.Name == "servers" },
		})
	}
	// parseRDNSS: sorted static servers; :: not stored; duplicate rejected
	pr := c.needFunc("R-C14-4", "internal/config", "parseRDNSS")
	if pr == nil {
		return
	}
	pname := c.fname(pr)
	ps := c.pathsO("R-C14-4", pr, an.PathOpts{EmitCut: true})
	okWild, okDup, okWild2 := false, false, false
	wild4 := ""
	for _, p := range ps {
		unspec := false
		is6 := false
		var seenAtom, autoAtom *an.PathAtom
		for i := range p.Atoms {
			a := p.Atoms[i]
			if a.Cond.Op == an.OpCall && a.Cond.Fn != nil && a.Cond.Fn.String() == "(net/netip.Addr).Is6" && a.Pos {
				is6 = true
			}
			if a.Cond.Op == an.OpCall && a.Cond.Fn != nil && a.Cond.Fn.String() == "(net/netip.Addr).IsUnspecified" {
				unspec = a.Pos
				// netip.Addr.IsUnspecified is also true for 0.0.0.0: the wildcard is recognised only among
				// addresses already established to be IPv6
				if a.Pos && !is6 {
					wild4 = "IsUnspecified() decides the wildcard at " + c.pos(instrPosOfAtom(a)) + " before the address is known to be IPv6"
				}
			}
			if filterKind(a) == "Seen" {
				seenAtom = &p.Atoms[i]
			}
			if isLoopFlagAtom(a, "auto") {
				autoAtom = &p.Atoms[i]
			}
		}
		nUpd := 0
		p.Instrs(func(in ssa.Instruction) {
			if _, ok := in.(*ssa.MapUpdate); ok {
				nUpd++
			}
		})
		if unspec && p.Cut && nUpd == 0 {
			okWild = true
		}
		if unspec && autoAtom != nil && autoAtom.Pos && p.Ret != nil && !exprIsNil(p.Results[1]) {
			okWild2 = true
		}
		if seenAtom != nil && seenAtom.Pos && p.Ret != nil && !exprIsNil(p.Results[1]) {
			okDup = true
		}
	}
	rdnssEveryServerChecked(c, "R-C14-4")
	c.R.Check(wild4 == "", "R-C14-4", pname+":wildcard-is-ipv6", pname, c.pos(pr.Pos()), wild4, "the :: wildcard is recognised only after Is6() held for the parsed address", "0.0.0.0 is accepted as the RDNSS wildcard")
	c.R.Check(okWild, "R-C14-4", pname+":wildcard-not-stored", pname, c.pos(pr.Pos()), fmt.Sprintf(":: sets auto and is not inserted: %v", okWild), ":: only sets Auto", ":: advertised as a literal DNS server")
	c.R.Check(okWild2, "R-C14-4", pname+":wildcard-once", pname, c.pos(pr.Pos()), fmt.Sprintf("second :: rejected: %v", okWild2), "at most one ::", "repeated :: accepted")
	c.R.Check(okDup, "R-C14-4", pname+":duplicates-rejected", pname, c.pos(pr.Pos()), fmt.Sprintf("duplicate server rejected: %v", okDup), "servers are unique", "duplicate servers accepted")
	// sort before store
	nLit := 0
	for _, p := range ps {
		if p.Ret == nil || !exprIsNil(p.Results[1]) {
			continue
		}
		flds := raHeader(p.Results[0])
		if flds == nil || flds["Servers"] == nil || exprIsZero(flds["Servers"]) || exprIsNil(flds["Servers"]) {
			continue
		}
		sorts := callsOnPath(p, func(cc *ssa.CallCommon) bool {
			f := an.CalleeObj(cc)
			return f != nil && f.Pkg() != nil && (f.Pkg().Path() == "slices" || f.Pkg().Path() == "sort") && strings.HasPrefix(f.Name(), "Sort")
		})
		nLit++
		ok := len(sorts) == 1 && sameValue(p.Of(sorts[0].Common().Args[0]), flds["Servers"])
		c.R.Check(ok, "R-C14-4", pname+":static-servers-sorted", pname, c.pos(p.Ret.Pos()), fmt.Sprintf("%d sort call(s) on the stored slice", len(sorts)), "the slice built from the set is sorted before it is stored", "static server order depends on map iteration: RA differs from build to build")
	}
	_ = nLit
}

// ---- C15 ------------------------------------------------------------------

func runC15(c *Ctx) {
	c15RouteDump(c, "R-C15-7")
	// "the same rule the configuration enforces for static routes": overlapping or repeated static routes are rejected
	sharedRejections(c, "R-C15-6", "routes-overlap", "routes-wildcard-once")
	listingErrors(c, "R-C15-5", [][3]string{{"internal/plugin", "Route", "current"}, {"internal/plugin", "Route", "Apply"}, {"internal/system", "addresser", "LoopbackRoutes"}, {"internal/system", "addresser", "routesByIndex"}})
	cur := c.needMethod("R-C15-1", "internal/plugin", "Route", "current")
	if cur == nil {
		return
	}
	name := c.fname(cur)
	iters, rets := iterationPaths(c, "R-C15-1", cur)
	// Drop/keep analysis on the outer iteration: paths cut back to the OUTER header.
	var outer *ssa.BasicBlock
	for _, it := range iters {
		if outer == nil || it.p.CutTo.Dominates(outer) {
			outer = it.p.CutTo
		}
	}
	drops := map[string]bool{}
	var keeps [][]string
	var coverConj [][]string
	var coverDecisions [][]an.PathAtom // the atoms of each "covered" decision (loop form: the iteration's; slices.ContainsFunc: the predicate's)
	for _, it := range iters {
		if it.p.CutTo != outer {
			continue // inner-loop continuation
		}
		var ks []string
		for _, k := range it.kinds {
			if k == "+loop" || k == "-loop" {
				continue
			}
			ks = append(ks, k)
		}
		if len(it.appends) > 0 {
			keeps = append(keeps, ks)
			continue
		}
		if len(ks) == 0 {
			continue
		}
		last := ks[len(ks)-1]
		if strings.HasPrefix(last, "+call:ContainsFunc") {
			// covered := slices.ContainsFunc(routes, func(other) bool { … }): the element is dropped when the
			// predicate holds for some other element; the predicate's true-paths are the covered decision
			if conjs, ok := existsConjunctions(c, "R-C15-2", it.p); ok {
				for _, atoms := range conjs {
					var conj []string
					for _, a := range atoms {
						k, pol := kindPol(a)
						conj = append(conj, pol+k)
					}
					coverConj = append(coverConj, conj)
					coverDecisions = append(coverDecisions, atoms)
				}
				drops["+Covered"] = true
				continue
			}
		}
		if last == "+Contains" || last == "+BitsOrder" || last == "+Self" || last == "-Self" || last == "+Overlaps" {
			// the covered decision: collect the positive conjunction after the basic filters
			var conj []string
			for _, k := range ks {
				if k == "-Is4" || k == "-IsSingleIP" {
					continue
				}
				conj = append(conj, k)
			}
			coverConj = append(coverConj, conj)
			coverDecisions = append(coverDecisions, it.p.Atoms)
			drops["+Covered"] = true
			continue
		}
		drops[last] = true
	}
	want := map[string]bool{"+Is4": true, "+IsSingleIP": true, "+Covered": true, "+Seen": true}
	for k := range want {
		if k == "+Seen" {
			continue
		}
		c.R.Check(drops[k], "R-C15-1", name+":drops"+k, name, c.pos(cur.Pos()), "drop conditions found: "+kindSetString(drops), "a route is dropped when "+k[1:], "an IPv4, host or covered loopback route is advertised")
	}
	for k := range drops {
		c.R.Check(want[k], "R-C15-1", name+":extra-drop"+k, name, c.pos(cur.Pos()), "drop conditions found: "+kindSetString(drops), "no filter beyond the documented ones", "an eligible loopback route is silently not advertised")
	}
	// R-C15-2 shape of the covered test
	okCover := len(coverConj) > 0
	for _, conj := range coverConj {
		hasSelf, hasContain, hasOrder := false, false, false
		for _, k := range conj {
			switch k {
			case "+Self", "-Self":
				hasSelf = true
			case "+Contains", "+Overlaps":
				hasContain = true
			case "+BitsOrder":
				hasOrder = true
			}
		}
		if !(hasSelf && hasContain && hasOrder) {
			okCover = false
		}
	}
	// operand roles of the covered test: "this" is the route the iteration may append
	thisStr := ""
	for _, it := range iters {
		if len(it.appends) == 1 {
			thisStr = it.appends[0].String()
		}
	}
	roles := ""
	isThis := func(e *an.Expr) bool { return thisStr != "" && e.String() == thisStr }
	isOther := func(e *an.Expr) bool { return e.IsField("Prefix") && !isThis(e) }
	bitsArg := func(e *an.Expr) *an.Expr {
		if e.Op == an.OpCall && e.Fn != nil && e.Fn.String() == "(net/netip.Prefix).Bits" {
			return e.Args[0]
		}
		return nil
	}
	for _, atoms := range coverDecisions {
		okDiffer, okContain, okShorter, extraCond := false, false, false, false
		for _, a := range atoms {
			switch filterKind(a) {
			case "Self":
				x, y := a.Cond.Args[0], a.Cond.Args[1]
				differ := (a.Cond.Tok == token.NEQ) == a.Pos
				if differ && ((isThis(x) && isOther(y)) || (isOther(x) && isThis(y))) {
					okDiffer = true
				} else if !(isThis(x) || isThis(y)) || !(isOther(x) || isOther(y)) {
					// a comparison of some other field of the two routes (interface index, preference, …) inside the
					// covered decision narrows it: "covered" is a relation between the two prefixes and nothing else
					extraCond = true
					roles += fmt.Sprintf("extra(%s %s %s);", shortElem(x), a.Cond.Tok, shortElem(y))
				}
			case "Contains":
				// other.Contains(this.Addr())
				recv, arg := a.Cond.Args[0], a.Cond.Args[1]
				if a.Pos && isOther(recv) && arg.Op == an.OpCall && arg.Fn != nil && arg.Fn.String() == "(net/netip.Prefix).Addr" && isThis(arg.Args[0]) {
					okContain = true
					roles += "contains(other, this);"
				} else {
					roles += fmt.Sprintf("contains(%s, %s);", shortElem(recv), shortElem(arg))
				}
			case "Overlaps":
				if a.Pos {
					okContain = true // symmetric; together with "other is shorter" it is containment
					roles += "overlaps;"
				}
			case "BitsOrder":
				x, y, op, ok := effCmp(a)
				if !ok {
					continue
				}
				bx, by := bitsArg(x), bitsArg(y)
				if bx == nil || by == nil {
					continue
				}
				if isThis(bx) && isOther(by) {
					bx, by, op = by, bx, flip(op)
				}
				if isOther(bx) && isThis(by) && (op == token.LSS || op == token.LEQ) {
					okShorter = true
					roles += "bits(other " + op.String() + " this);"
				} else {
					roles += fmt.Sprintf("bits(%s %s %s);", shortElem(bx), op, shortElem(by))
				}
			}
		}
		if !(okDiffer && okContain && okShorter) {
			okCover = false
			roles += fmt.Sprintf("[decision lacks: differ=%v contains(other,this)=%v other-shorter=%v]", okDiffer, okContain, okShorter)
		}
		if extraCond {
			okCover = false
			roles += "[decision has a condition on another field of the routes]"
		}
	}
	c.R.Check(okCover, "R-C15-2", name+":covered-test", name, c.pos(cur.Pos()), fmt.Sprintf("covered decision conjunctions: %v; %s", coverConj, roles),
		"dropped only when another route (≠ itself) contains it AND is shorter (a length comparison is part of the test)",
		"two routes with the same base address but different lengths eliminate each other (neither is advertised)")
	// R-C15-3 each once: either a seen-set keyed by the appended value (membership test + insert on the keep path),
	// or a compaction of the *sorted* result (slices.Compact only removes adjacent duplicates).
	compactAfterSort := func() bool {
		ok := false
		for _, p := range rets {
			if len(p.Results) != 2 || !exprIsNil(p.Results[1]) {
				continue
			}
			var seq []string
			var compactRes *an.Expr
			p.Instrs(func(in ssa.Instruction) {
				ci, isCall := in.(ssa.CallInstruction)
				if !isCall {
					return
				}
				f := an.CalleeObj(ci.Common())
				if f == nil || f.Pkg() == nil {
					return
				}
				if (f.Pkg().Path() == "slices" || f.Pkg().Path() == "sort") && strings.HasPrefix(f.Name(), "Sort") {
					seq = append(seq, "sort")
				}
				if f.Pkg().Path() == "slices" && strings.HasPrefix(f.Name(), "Compact") {
					seq = append(seq, "compact")
					if v, isV := in.(ssa.Value); isV {
						compactRes = p.Of(v)
					}
				}
			})
			good := strings.Join(seq, ",") == "sort,compact" && compactRes != nil && sameValue(compactRes, p.Results[0])
			if !good {
				return false
			}
			ok = true
		}
		return ok
	}
	seenSet := len(keeps) > 0
	for _, ks := range keeps {
		has := false
		for _, k := range ks {
			if k == "-Seen" {
				has = true
			}
		}
		if !has {
			seenSet = false
		}
	}
	if seenSet {
		for _, it := range iters {
			if len(it.appends) == 0 {
				continue
			}
			okIns, okKey := false, false
			it.p.Instrs(func(in ssa.Instruction) {
				if mu, ok := in.(*ssa.MapUpdate); ok && marksMember(mu) && len(it.appends) == 1 && it.p.Of(mu.Key).String() == it.appends[0].String() {
					okIns = true
				}
			})
			for _, a := range it.p.Atoms {
				if k := seenKey(a); filterKind(a) == "Seen" && len(it.appends) == 1 && k != nil && k.String() == it.appends[0].String() {
					okKey = true
					// membership asked of the output slice itself (slices.Contains(out, k)): the append is the insert
					if e := a.Cond; e.Op == an.OpCall && len(e.Args) == 2 {
						set := e.Args[0].String()
						it.p.Instrs(func(in ssa.Instruction) {
							if call, ok := in.(*ssa.Call); ok {
								if bi, isB := call.Call.Value.(*ssa.Builtin); isB && bi.Name() == "append" && len(call.Call.Args) == 2 && it.p.Of(call.Call.Args[0]).String() == set {
									okIns = true
								}
							}
						})
					}
				}
			}
			if !(okIns && okKey) {
				seenSet = false
			}
		}
	}
	dedupe := seenSet || compactAfterSort()
	c.R.Check(dedupe, "R-C15-3", name+":each-once", name, c.pos(cur.Pos()), fmt.Sprintf("kept routes are deduplicated (membership+insert on the appended value, or compaction): %v", dedupe),
		"each remaining route is emitted once", "a route present twice in the dump (e.g. on two loopback interfaces) is advertised twice")
	// kept value is the route's prefix
	for _, it := range iters {
		if len(it.appends) == 1 {
			c.R.Check(it.appends[0].IsField("Prefix") && it.appends[0].Args[0].Op == an.OpElem, "R-C15-1", name+":keeps-route-prefix", name, c.pos(cur.Pos()), "appends "+it.appends[0].String(), "rt.Prefix", "advertised route is not the loopback route itself")
		}
	}
	sortedBeforeReturn(c, "R-C15-4", cur, rets)
	errorPropagates(c, "R-C15-4", cur, isDynField("Routes"), "Routes")
	if f := c.needMethod("R-C15-4", "internal/plugin", "Route", "Apply"); f != nil {
		errorPropagates(c, "R-C15-4", f, isCallTo(PkgPlugin, "Route", "current"), "current")
	}
	chainCommon(c, "R-C15-4")
	if ap := c.needMethod("R-C15-4", "internal/plugin", "Route", "apply"); ap != nil {
		checkOptionLiteral(c, "R-C15-4", ap, "RouteInformation", map[string]func(*an.Expr) bool{
			"PrefixLength": func(e *an.Expr) bool {
				return e.Op == an.OpConv && e.Args[0].Op == an.OpCall && e.Args[0].Fn != nil && e.Args[0].Fn.String() == "(net/netip.Prefix).Bits" && e.Args[0].Args[0].Op == an.OpElem
			},
			"Preference":    func(e *an.Expr) bool { return isRecvField(e, "Preference") },
			"RouteLifetime": func(e *an.Expr) bool { return exprCallIs(e, PkgPlugin, "Route", "lifetime") },
			"Prefix": func(e *an.Expr) bool {
				return e.Op == an.OpCall && e.Fn != nil && e.Fn.String() == "(net/netip.Prefix).Addr" && e.Args[0].Op == an.OpElem
			},
		})
	}
	c15Loopback(c)
}

func shortElem(e *an.Expr) string {
	s := e.String()
	if i := strings.LastIndex(s, "["); i >= 0 {
		s = "route" + s[i:]
	}
	if len(s) > 60 {
		s = s[len(s)-60:]
	}
	return s
}

func c15Loopback(c *Ctx) {
	lr := c.P.Method("internal/system", "addresser", "LoopbackRoutes")
	if lr == nil {
		if c.P.Cfg.GOOS == "linux" {
			c.R.Fail("R-C15-4", "system.addresser.LoopbackRoutes", "", "", "missing", "", "anchor-missing")
		}
		return
	}
	name := c.fname(lr)
	// an interface is considered iff FlagLoopback and FlagUp are both set
	okFlags := false
	nFetch, nBad := 0, 0
	for _, p := range c.pathsO("R-C15-4", lr, an.PathOpts{EmitCut: true}) {
		calls := callsOnPath(p, func(cc *ssa.CallCommon) bool { return an.CallIs(cc, PkgSystem, "addresser", "routesByIndex") })
		if len(calls) == 0 {
			continue
		}
		nFetch++
		// flag bits known to be set on the path: (Flags&m) != 0 for a single bit m, or (Flags&M) == M
		var proven int64
		for _, a := range p.Atoms {
			x, y, op, ok := effCmp(a)
			if !ok || x.Op != an.OpBin || x.Tok != token.AND || !x.Args[0].IsField("Flags") {
				continue
			}
			m, isM := x.Args[1].ConstInt()
			z, isZ := y.ConstInt()
			if !isM || !isZ {
				continue
			}
			switch {
			case op == token.NEQ && z == 0 && m&(m-1) == 0:
				proven |= m
			case op == token.EQL && z == m:
				proven |= m
			}
		}
		// net.FlagUp = 1, net.FlagLoopback = 4
		if proven&5 == 5 {
			okFlags = true
			continue
		}
		// two-phase form: the interface index is taken from a slice that an earlier loop filled only
		// with the indices of up loopback interfaces (filter first, fetch second)
		viaFiltered := false
		p.Instrs(func(in ssa.Instruction) {
			if in != ssa.Instruction(calls[0]) {
				return
			}
			args := calls[0].Common().Args
			arg := p.Of(args[len(args)-1])
			if arg.Op == an.OpElem && len(arg.Args) >= 1 && arg.Args[0].Op == an.OpLoop {
				if ph, isPhi := arg.Args[0].V.(*ssa.Phi); isPhi && c.filteredUpLoopback(ph) {
					viaFiltered = true
				}
			}
		})
		if viaFiltered {
			okFlags = true
		} else {
			nBad++
		}
	}
	okFlags = okFlags && nBad == 0 && nFetch > 0
	c.R.Check(okFlags, "R-C15-4", name+":up-loopback-only", name, c.pos(lr.Pos()), fmt.Sprintf("routes fetched only for interfaces with FlagLoopback ∧ FlagUp: %v", okFlags), "all up loopback interfaces", "routes of non-loopback or down interfaces are advertised")
	if rb := c.P.Method("internal/system", "addresser", "routesByIndex"); rb != nil {
		okTable := false
		for _, ci := range an.CallsIn(rb) {
			if _, ok := fieldLoadCall(ci.Common(), PkgSystem, "addresser", "execute"); ok {
				e := c.XO.Of(ci.Common().Args[0])
				if e.Contains(func(x *an.Expr) bool {
					k, isC := x.ConstInt()
					return isC && k == 254 && x.Typ != nil && strings.Contains(typeStr(x.Typ), "uint32")
				}) {
					okTable = true
				}
				if strings.Contains(e.String(), "Table:254") {
					okTable = true
				}
			}
		}
		c.R.Check(okTable, "R-C15-4", c.fname(rb)+":main-table", c.fname(rb), c.pos(rb.Pos()), fmt.Sprintf("request filters Table = RT_TABLE_MAIN (254): %v", okTable), "only the main routing table is dumped", "routes from other tables are advertised")
	}
}

// listingErrors: a failure to list addresses or routes fails RA generation —
// it is never swallowed into "nothing to advertise". Every error-returning
// call in the listed functions is tested, and a non-nil error leads to a
// non-nil error return.
func listingErrors(c *Ctx, rule string, fns [][3]string) {
	n := 0
	for _, spec := range fns {
		f := c.P.Method(spec[0], spec[1], spec[2])
		if f == nil {
			continue // per-OS: the rtnetlink addresser exists on linux only
		}
		n += errorDiscipline(c, rule, f, c.fname(f), "a failure to list addresses/routes is returned to the caller (RA generation fails)",
			"a listing failure is swallowed: the RA silently carries no (or fewer) wildcard options")
	}
	c.R.Check(n >= 2, rule, "listing:error-sites", "", "", fmt.Sprintf("%d error-returning call site(s)", n), ">= 2", "anchor-missing")
}

type appendItem struct {
	e      *an.Expr
	spread bool // a whole slice appended with ...
}

// flattenAppend lists what a chain of append calls puts into a slice, in
// order, and reports whether the chain starts from a fresh empty slice (a
// literal list, make(T, 0, n) or nil) — never from existing state.
func flattenAppend(e *an.Expr) ([]appendItem, bool) {
	switch {
	case e == nil:
		return nil, false
	case e.Op == an.OpStruct && e.Name == "list":
		var out []appendItem
		for _, a := range e.Args {
			out = append(out, appendItem{a, false})
		}
		return out, true
	case e.Op == an.OpMake:
		if len(e.Args) >= 1 {
			if k, isC := e.Args[0].ConstInt(); isC && k == 0 {
				return nil, true
			}
		}
		return nil, false
	case exprIsNil(e) || exprIsZero(e):
		return nil, true
	case e.Op == an.OpAppend && len(e.Args) == 2:
		base, fresh := flattenAppend(e.Args[0])
		if !fresh {
			return nil, false
		}
		add := e.Args[1]
		if add.Op == an.OpStruct && add.Name == "list" {
			for _, a := range add.Args {
				base = append(base, appendItem{a, false})
			}
			return base, true
		}
		return append(base, appendItem{add, true}), true
	}
	return nil, false
}

// provenFlagBits returns the net.Flags bits a path has established as set:
// (Flags&m) != 0 for a single bit m, or (Flags&M) == M. base receives the
// expression whose Flags were tested.
func provenFlagBits(p *an.Path) (bits int64, base string) {
	for _, a := range p.Atoms {
		x, y, op, ok := effCmp(a)
		if !ok || x.Op != an.OpBin || x.Tok != token.AND || !x.Args[0].IsField("Flags") {
			continue
		}
		m, isM := x.Args[1].ConstInt()
		z, isZ := y.ConstInt()
		if !isM || !isZ {
			continue
		}
		switch {
		case op == token.NEQ && z == 0 && m&(m-1) == 0:
			bits |= m
			base = x.Args[0].Args[0].String()
		case op == token.EQL && z == m:
			bits |= m
			base = x.Args[0].Args[0].String()
		}
	}
	return bits, base
}

// filteredUpLoopback reports whether the slice accumulated in loop phi ph is
// extended, on every iteration that extends it, with the Index of an
// interface whose flags were proven to contain FlagUp and FlagLoopback on that
// iteration's path.
func (c *Ctx) filteredUpLoopback(ph *ssa.Phi) bool {
	fn := ph.Parent()
	nApp := 0
	for _, p := range c.pathsO("R-C15-4", fn, an.PathOpts{EmitCut: true}) {
		if !p.Cut || p.CutTo != ph.Block() {
			continue
		}
		v := p.BackEdgeValue(ph)
		if v == nil {
			return false
		}
		if v.Op == an.OpLoop && v.V == ssa.Value(ph) {
			continue // nothing appended on this iteration
		}
		if v.Op != an.OpAppend || len(v.Args) != 2 || !(v.Args[0].Op == an.OpLoop && v.Args[0].V == ssa.Value(ph)) || v.Args[1].Op != an.OpStruct || len(v.Args[1].Args) != 1 {
			return false
		}
		el := v.Args[1].Args[0]
		bits, base := provenFlagBits(p)
		if bits&5 != 5 || !el.IsField("Index") || el.Args[0].String() != base {
			return false
		}
		nApp++
	}
	return nApp >= 1
}


// c15RouteDump (R-C15-7, linux): routesByIndex hands every route of the kernel
// dump on: each iteration over the messages appends exactly one Route whose
// Prefix is PrefixFrom(AddrFromSlice(Dst), DstLength) (or panics on a message
// that violates the rtnetlink invariants). Dropping dump entries below the
// plugin (a "first route per destination" filter, say) removes covering routes
// before Route.current() can see them.
func c15RouteDump(c *Ctx, rule string) {
	if c.P.Cfg.GOOS != "linux" {
		return
	}
	f := c.P.Method("internal/system", "addresser", "routesByIndex")
	if f == nil {
		c.R.Fail(rule, "system.addresser.routesByIndex", "", "", "method missing", "", "anchor-missing")
		return
	}
	fn := c.fname(f)
	n, bad := 0, ""
	for _, p := range c.pathsO(rule, f, an.PathOpts{EmitCut: true}) {
		if !p.Cut {
			continue
		}
		n++
		var elems []*an.Expr
		p.Instrs(func(in ssa.Instruction) {
			if call, ok := in.(*ssa.Call); ok {
				if bi, ok := call.Call.Value.(*ssa.Builtin); ok && bi.Name() == "append" && strings.HasSuffix(typeStr(call.Type()), "system.Route") {
					if e := p.Of(call); e.Op == an.OpAppend && len(e.Args) == 2 && e.Args[1].Op == an.OpStruct && e.Args[1].Name == "list" {
						elems = append(elems, e.Args[1].Args...)
					}
				}
			}
		})
		// … or stores it at the message's index in a slice sized for the dump
		p.Instrs(func(in ssa.Instruction) {
			if st, ok := in.(*ssa.Store); ok {
				ia, isElem := st.Addr.(*ssa.IndexAddr)
				if !isElem {
					return
				}
				// (an element of a real slice, not of the one-element array go/ssa builds for append's variadic argument)
				if _, isSlice := ia.X.Type().Underlying().(*types.Slice); isSlice && strings.HasSuffix(typeStr(st.Val.Type()), "system.Route") {
					elems = append(elems, p.Of(st.Val))
				}
			}
		})
		if len(elems) != 1 {
			bad = fmt.Sprintf("an iteration over the dump appends %d routes (%s)", len(elems), atomsString(p))
			continue
		}
		flds := raHeader(elems[0])
		pfx := flds["Prefix"]
		okPfx := pfx != nil && pfx.Op == an.OpCall && pfx.Fn != nil && pfx.Fn.String() == "net/netip.PrefixFrom" && len(pfx.Args) == 2 &&
			pfx.Args[0].Contains(func(x *an.Expr) bool { return x.Op == an.OpCall && x.Fn != nil && x.Fn.String() == "net/netip.AddrFromSlice" && len(x.Args) == 1 && x.Args[0].IsField("Dst") }) &&
			pfx.Args[1].Contains(func(x *an.Expr) bool { return x.IsField("DstLength") })
		if !okPfx {
			bad = "the route's prefix is " + shortExpr(pfx)
		}
	}
	c.R.Check(n >= 1 && bad == "", rule, fn+":every-dumped-route-listed", fn, c.pos(f.Pos()), fmt.Sprintf("%d iteration path(s); %s", n, bad),
		"each message of the route dump yields exactly one Route with Prefix = PrefixFrom(AddrFromSlice(Dst), DstLength)", "a loopback route of the dump never reaches the ::/0 expansion (a covering route is lost, a covered one is advertised)")
}
