package rules

import (
	"fmt"
	"go/token"
	"go/types"
	"strings"

	"crverif/internal/an"
	"crverif/internal/load"

	"golang.org/x/tools/go/ssa"
)

func init() {
	register(&RuleSet{
		Property:   "C20",
		AllConfigs: true,
		Explanation: "GUARD/PATH/STRUCT rules on corerad.Server: R-C20-1 task table of BuildTasks (skip iff neither mode; Advertise⇒NewAdvertiser with a system.Advertise dialer and s.t.terminate; Monitor⇒NewMonitor with a system.Monitor dialer; one append per interface per path; httpTask iff Debug.Address != \"\"; watcherTask iff s.w != nil); " +
			"R-C20-2 Serve starts each task with eg.Go on an errgroup.WithContext group, Run gets a context derived from the group's, a Run error is returned to the group, every return of Serve follows eg.Wait and reports its error, the signal task is part of the waited set; " +
			"R-C20-3 signalTask.Run: terminator.set(sig) precedes cancel() on every path, sig is the value received from sigC, neither is called on the ctx.Done arm, terminator.term only accessed under mu; " +
			"R-C20-4 Ready is notified only after wg.Wait(), each per-task goroutine receives from t.Ready() before its deferred wg.Done(); " +
			"R-C20-5 serve(): 40 attempts, cancelable wait, ErrServerClosed⇒nil, *net.OpError⇒retry, other⇒error R-C20-3 also: Server.t is written by NewServer only; R-C20-4 is decided on the paths of the functions Serve actually starts (go / eg.Go), closures or method values; R-C20-6 the debug HTTP server is stopped with Close (or a deadline-bounded Shutdown) when the task context ends.",
		Assumptions: []string{
			"Go type checker and go/ssa construction are correct",
			"errgroup.WithContext cancels the derived context when a function passed to Go returns a non-nil error, and Wait returns the first such error after all functions returned",
		},
		NotCovered: []string{"racing outcomes of a task failure and a signal arriving at the same instant", "behaviour of errgroup/sdnotify themselves"},
		Run:        runC20,
	})
}

func runC20(c *Ctx) {
	c20BuildTasks(c)
	c20Serve(c)
	c20Signal(c)
	c20ServeRetry(c)
	c20ReadyChannels(c)
	c20HTTPStop(c)
	// "a shutdown signal cancels all tasks and serving returns success": also for a task that is in its dial back-off
	initCancelReturnsErr(c, "R-C20-7")
}

// newDialerMode returns the constant mode passed to the NewDialer call that
// produced expression e (or -1).
func newDialerMode(e *an.Expr) int64 {
	if !exprCallIs(e, PkgSystem, "", "NewDialer") || len(e.Args) < 3 {
		return -1
	}
	k, ok := e.Args[2].ConstInt()
	if !ok {
		return -1
	}
	return k
}

func c20BuildTasks(c *Ctx) {
	bt := c.needMethod("R-C20-1", "internal/corerad", "Server", "BuildTasks")
	if bt == nil {
		return
	}
	fn := c.fname(bt)
	ps := c.pathsO("R-C20-1", bt, an.PathOpts{EmitCut: true})
	seen := map[string]bool{}
	for _, p := range ps {
		if p.Panic != nil {
			continue
		}
		// appends to the task slice on this path, with the appended element
		var appended []*an.Expr
		p.Instrs(func(in ssa.Instruction) {
			call, ok := in.(*ssa.Call)
			if !ok {
				return
			}
			if b, ok := call.Call.Value.(*ssa.Builtin); ok && b.Name() == "append" {
				if s, ok := call.Type().Underlying().(*types.Slice); ok && strings.HasSuffix(typeStr(s.Elem()), "Task") {
					e := p.Of(call)
					if e.Op == an.OpAppend && len(e.Args) == 2 && e.Args[1].Op == an.OpStruct && e.Args[1].Name == "list" {
						appended = append(appended, e.Args[1].Args...)
					} else {
						appended = append(appended, e)
					}
				}
			}
		})
		if p.Cut {
			// one iteration over an interface
			adv, mon, advSet, monSet := false, false, false, false
			for _, a := range p.Atoms {
				if a.Cond.IsField("Advertise") {
					adv, advSet = a.Pos, true
				}
				if a.Cond.IsField("Monitor") {
					mon, monSet = a.Pos, true
				}
			}
			class := fmt.Sprintf("advertise=%v,monitor=%v", adv, mon)
			if !advSet {
				class = "advertise=?," + class
			}
			_ = monSet
			key := fn + ":interface@" + class
			if seen[key+atomsString(p)] {
				continue
			}
			seen[key+atomsString(p)] = true
			switch {
			case adv:
				ok := len(appended) == 1 && exprCallIs(appended[0], PkgCorerad, "", "NewAdvertiser")
				fact := fmt.Sprintf("%d task(s) appended", len(appended))
				if ok {
					a := appended[0]
					mode := newDialerMode(a.Args[2])
					term := a.Args[4]
					okTerm := term.Op == an.OpClosure && an.ObjIs(an.FuncObj(term.Fn), PkgCorerad, "terminator", "terminate")
					okCfg := a.Args[1].Op == an.OpElem || strings.Contains(a.Args[1].String(), "Interfaces")
					okName := len(a.Args[2].Args) > 0 && a.Args[2].Args[0].IsField("Name")
					ok = mode == 1 && okTerm && okCfg && okName
					fact = fmt.Sprintf("NewAdvertiser(cfg=%s, dialer mode=%d, terminate=%s)", a.Args[1], mode, term)
				}
				c.R.Check(ok, "R-C20-1", key, fn, c.pos(bt.Pos()), fact,
					"exactly one NewAdvertiser for this interface, with a dialer for the same interface name in mode system.Advertise (1) and s.t.terminate",
					"advertising interface gets no task, two tasks, or a wrongly configured one")
			case mon:
				ok := len(appended) == 1 && exprCallIs(appended[0], PkgCorerad, "", "NewMonitor")
				fact := fmt.Sprintf("%d task(s) appended", len(appended))
				if ok {
					a := appended[0]
					mode := newDialerMode(a.Args[2])
					okName := a.Args[1].IsField("Name") && len(a.Args[2].Args) > 0 && sameValue(a.Args[2].Args[0], a.Args[1])
					ok = mode == 2 && okName
					fact = fmt.Sprintf("NewMonitor(iface=%s, dialer mode=%d)", a.Args[1], mode)
				}
				c.R.Check(ok, "R-C20-1", key, fn, c.pos(bt.Pos()), fact,
					"exactly one NewMonitor for this interface with a dialer in mode system.Monitor (2)",
					"monitoring interface gets no task, two tasks, or an advertising dialer (which would disable autoconf)")
			default:
				c.R.Check(len(appended) == 0 && advSet && monSet, "R-C20-1", key, fn, c.pos(bt.Pos()), fmt.Sprintf("%d task(s) appended", len(appended)),
					"no task for an interface that neither advertises nor monitors", "a task is started for an inactive interface")
			}
			continue
		}
		if p.Ret == nil {
			continue
		}
		// tail: http task iff Debug.Address != "", watcher task iff s.w != nil
		wantHTTP, wantWatch := false, false
		for _, a := range p.Atoms {
			x, y, op, ok := effCmp(a)
			if !ok {
				continue
			}
			if x.IsField("Address") && y.IsConst(`""`) {
				wantHTTP = op == token.NEQ
			}
			if x.IsField("w") && exprIsNil(y) {
				wantWatch = op == token.NEQ
			}
		}
		gotHTTP, gotWatch, other := 0, 0, 0
		for _, e := range appended {
			switch {
			case strings.HasSuffix(typeStr(e.Typ), "corerad.httpTask"):
				gotHTTP++
			case strings.HasSuffix(typeStr(e.Typ), "corerad.watcherTask"):
				gotWatch++
			default:
				other++
			}
		}
		b2i := func(b bool) int {
			if b {
				return 1
			}
			return 0
		}
		c.R.Check(gotHTTP == b2i(wantHTTP) && gotWatch == b2i(wantWatch) && other == 0, "R-C20-1",
			fmt.Sprintf("%s:tail@debug=%v,watcher=%v", fn, wantHTTP, wantWatch), fn, c.pos(p.Ret.Pos()),
			fmt.Sprintf("http tasks=%d watcher tasks=%d other=%d", gotHTTP, gotWatch, other),
			"debug HTTP task iff Debug.Address != \"\"; link watcher task iff the server has a watcher",
			"debug server or link watcher started when not configured, or missing when configured")
	}
	c.R.Floor("R-C20-1", 6)
}

func c20Serve(c *Ctx) {
	sv := c.needMethod("R-C20-2", "internal/corerad", "Server", "Serve")
	if sv == nil {
		return
	}
	fn := c.fname(sv)
	// (a) every eg.Go in Serve: group from errgroup.WithContext; closure calls Run with derived ctx and returns its error.
	nGo := 0
	for _, ci := range an.CallsIn(sv) {
		cc := ci.Common()
		f := an.CalleeObj(cc)
		if f == nil || f.Name() != "Go" || f.Pkg() == nil || f.Pkg().Path() != "golang.org/x/sync/errgroup" {
			continue
		}
		nGo++
		grp := c.XO.Of(cc.Args[0])
		gb, gidx := stripExtract(grp)
		okGrp := gidx == 0 && gb.Op == an.OpCall && gb.Fn != nil && gb.Fn.String() == "golang.org/x/sync/errgroup.WithContext"
		// the task function: a closure, a method value, or the closure a factory returns (built with the
		// task and the context as parameters); it is enumerated with its captured variables bound
		ae := c.XO.Of(cc.Args[1])
		isClosure := ae.Op == an.OpClosure && ae.Fn != nil
		okRun := false
		fact := "not a closure: " + ae.String()
		if isClosure {
			cl := ae.Fn
			ps, err := c.XO.PathsBoundFV(cl, nil, ae.Args, an.PathOpts{InlinePaths: c.helperInline(cl)})
			if err != nil {
				c.R.Undecided("R-C20-2", "paths:"+c.fname(cl), c.fname(cl), c.pos(cl.Pos()), err.Error())
			}
			okRun = len(ps) > 0
			for _, p := range ps {
				runs := callsOnPath(p, func(cc *ssa.CallCommon) bool { return an.CallIs(cc, PkgCorerad, "Task", "Run") })
				if len(runs) != 1 || p.Ret == nil {
					okRun = false
					fact = "closure does not call Task.Run exactly once"
					continue
				}
				ctxArg := p.Of(runs[0].Common().Args[0])
				derived := true
				for _, alt := range ctxArg.Alts() {
					if !(alt.Contains(func(e *an.Expr) bool {
						return e.Op == an.OpCall && e.Fn != nil && e.Fn.String() == "golang.org/x/sync/errgroup.WithContext"
					}) || alt.Op == an.OpLoop || (alt.Op == an.OpExtract && alt.Args[0].Op == an.OpLoop)) {
						derived = false
					}
				}
				runErr := p.Of(runs[0].(ssa.Value))
				failed := false
				for _, a := range p.Atoms {
					x, y, op, ok := effCmp(a)
					if ok && exprIsNil(y) && sameValue(x, runErr) {
						failed = op == token.NEQ
					}
				}
				retNil := exprIsNil(p.Results[0])
				wraps := p.Results[0].Contains(func(e *an.Expr) bool { return sameValue(e, runErr) })
				if !derived || (failed && (retNil || !wraps)) || (!failed && !retNil) {
					okRun = false
				}
				fact = fmt.Sprintf("Run(ctx=%s) failed=%v returns %s", ctxArg, failed, p.Results[0])
			}
		}
		c.R.Check(okGrp && okRun, "R-C20-2", fn+":task-goroutine", fn, c.pos(ci.Pos()),
			fmt.Sprintf("group=%s; %s", grp, fact),
			"tasks run under eg.Go of an errgroup.WithContext group, with a context derived from the group's; a non-nil Run error is returned to the group",
			"a failing task does not cancel the others, or a task is deaf to cancellation")
	}
	c.R.Check(nGo == 1, "R-C20-2", fn+":eg.Go-sites", fn, c.pos(sv.Pos()), fmt.Sprintf("%d eg.Go site(s)", nGo), "exactly one (inside the per-task loop)", "tasks started outside the supervised group")
	// no bare `go` running Task.Run
	for _, f := range an.WithAnon(sv) {
		for _, ci := range an.CallsIn(f) {
			if g, ok := ci.(*ssa.Go); ok {
				if mc, ok := g.Call.Value.(*ssa.MakeClosure); ok {
					for _, cc := range an.CallsIn(mc.Fn.(*ssa.Function)) {
						if an.CallIs(cc.Common(), PkgCorerad, "Task", "Run") {
							c.R.Fail("R-C20-2", fn+":bare-go-runs-task", fn, c.pos(g.Pos()), "Task.Run started with a bare go statement", "tasks run only under eg.Go", "task outside supervision")
						}
					}
				}
			}
		}
	}

	// (b) every return of Serve follows eg.Wait and reports its error; loop ranges over tasks including the signal task.
	ps := c.pathsO("R-C20-2", sv, an.PathOpts{EmitCut: true})
	for _, p := range ps {
		if p.Ret == nil {
			continue
		}
		waits := callsOnPath(p, func(cc *ssa.CallCommon) bool {
			f := an.CalleeObj(cc)
			return f != nil && f.Name() == "Wait" && f.Pkg() != nil && f.Pkg().Path() == "golang.org/x/sync/errgroup"
		})
		ok := len(waits) == 1
		fact := fmt.Sprintf("%d eg.Wait call(s)", len(waits))
		if ok {
			w := p.Of(waits[0].(ssa.Value))
			failed := false
			for _, a := range p.Atoms {
				x, y, op, okc := effCmp(a)
				if okc && exprIsNil(y) && sameValue(x, w) {
					failed = op == token.NEQ
				}
			}
			retNil := exprIsNil(p.Results[0])
			wraps := p.Results[0].Contains(func(e *an.Expr) bool { return sameValue(e, w) })
			ok = (failed && !retNil && wraps) || (!failed && retNil)
			fact = fmt.Sprintf("eg.Wait failed=%v; Serve returns %s", failed, p.Results[0])
		}
		c.R.Check(ok, "R-C20-2", fn+":return-after-wait@"+lastAtomName(p), fn, c.pos(p.Ret.Pos()), fact,
			"Serve returns only after eg.Wait(); a non-nil group error is returned (wrapped), otherwise nil",
			"Serve returns before every task has returned, or swallows the fatal error")
	}
	// the set of tasks waited on includes the signal task: wg.Add(len(tasks')) and the range are over append(tasks, &signalTask{...})
	okAdd := false
	for _, ci := range an.CallsIn(sv) {
		f := an.CalleeObj(ci.Common())
		if f != nil && f.Name() == "Add" && f.Pkg() != nil && f.Pkg().Path() == "sync" {
			e := c.XO.Of(ci.Common().Args[1])
			if e.Op == an.OpLen && e.Args[0].Op == an.OpAppend {
				if e.Args[0].Contains(func(x *an.Expr) bool { return x.Typ != nil && strings.HasSuffix(typeStr(x.Typ), "corerad.signalTask") }) {
					okAdd = true
				}
			}
		}
	}
	c.R.Check(okAdd, "R-C20-2", fn+":signal-task-in-waited-set", fn, c.pos(sv.Pos()), fmt.Sprintf("wg.Add(len(append(tasks, &signalTask{...})))=%v", okAdd),
		"the signal task is appended before the readiness count is taken", "readiness counts the wrong number of tasks")

	// R-C20-4 readiness
	// the goroutines Serve starts: `go f(...)`, and the functions handed to eg.Go — closures, method
	// values or plain functions; each is enumerated with helpers in line
	var started []*ssa.Function
	addStarted := func(f *ssa.Function) {
		if f == nil || f.Blocks == nil {
			return
		}
		for _, g := range started {
			if g == f {
				return
			}
		}
		started = append(started, f)
	}
	for _, ci := range an.CallsIn(sv) {
		if g, isGo := ci.(*ssa.Go); isGo {
			addStarted(an.StaticCallee(&g.Call))
			continue
		}
		if fo := an.CalleeObj(ci.Common()); fo != nil && fo.Name() == "Go" && fo.Pkg() != nil && fo.Pkg().Path() == "golang.org/x/sync/errgroup" {
			args := ci.Common().Args
			switch v := args[len(args)-1].(type) {
			case *ssa.MakeClosure:
				addStarted(v.Fn.(*ssa.Function))
			case *ssa.Function:
				addStarted(v)
			}
		}
	}
	for _, cl := range started {
		ps := c.pathsO("R-C20-4", cl, an.PathOpts{})
		for _, p := range ps {
			if p.Ret == nil {
				continue
			}
			var seq []string
			var readyNotify bool
			p.Instrs(func(in ssa.Instruction) {
				switch x := in.(type) {
				case ssa.CallInstruction:
					f := an.CalleeObj(x.Common())
					if f == nil || f.Pkg() == nil {
						return
					}
					_, isDefer := in.(*ssa.Defer)
					switch {
					case f.Name() == "Wait" && f.Pkg().Path() == "sync":
						seq = append(seq, "wg.Wait")
					case f.Name() == "Done" && f.Pkg().Path() == "sync":
						if isDefer {
							seq = append(seq, "defer wg.Done")
						} else {
							seq = append(seq, "wg.Done")
						}
					case f.Name() == "Notify" && strings.HasSuffix(f.Pkg().Path(), "sdnotify"):
						e := p.Of(x.Common().Args[len(x.Common().Args)-1])
						if e.Contains(func(y *an.Expr) bool { return y.IsConst(`"READY=1"`) }) {
							readyNotify = true
							seq = append(seq, "Notify(Ready)")
						} else {
							seq = append(seq, "Notify")
						}
					}
				case *ssa.UnOp:
					if x.Op == token.ARROW {
						e := p.Of(x.X)
						if exprCallIs(e, PkgCorerad, "Task", "Ready") {
							seq = append(seq, "<-t.Ready()")
						}
					}
				}
			})
			s := strings.Join(seq, ",")
			if readyNotify {
				c.R.Check(strings.HasPrefix(s, "wg.Wait,") && len(ps) == 1, "R-C20-4", c.fname(cl)+":ready-after-all", c.fname(cl), c.pos(cl.Pos()), "sequence ["+s+"]",
					"wg.Wait() precedes the READY notification (straight-line)", "readiness announced before every task reported ready")
			}
			if strings.Contains(s, "wg.Done") {
				c.R.Check(s == "defer wg.Done,<-t.Ready(),Notify" || s == "defer wg.Done,<-t.Ready()", "R-C20-4", c.fname(cl)+":done-after-ready", c.fname(cl), c.pos(cl.Pos()), "sequence ["+s+"]",
					"each per-task goroutine defers wg.Done() and receives from t.Ready() before returning", "a task is counted ready without having reported ready")
			}
		}
	}
	c.R.Floor("R-C20-4", 2)
}

func c20Signal(c *Ctx) {
	signalOrder(c, "R-C20-3")
	// one terminator per Server for its whole life: the tasks BuildTasks creates bind s.t.terminate, the
	// signal task Serve creates records into s.t — they must be the same object
	n := 0
	for _, fs := range an.FindFieldStores(c.srcFuncs(), PkgCorerad, "Server", "t") {
		n++
		c.R.Check(c.fname(fs.Fn) == "corerad.NewServer", "R-C20-3", c.fname(fs.Fn)+":writes-Server.t", c.fname(fs.Fn), c.pos(fs.Store.Pos()), "Server.t assigned in "+c.fname(fs.Fn),
			"the terminator is created once, by NewServer", "tasks built earlier read a terminator the signal task no longer writes: a terminating signal looks like a reload")
	}
	c.R.Check(n >= 1, "R-C20-3", "corerad.Server.t:writers", "", "", fmt.Sprintf("%d store(s)", n), ">= 1 (NewServer)", "anchor-missing")
}

// signalOrder: terminator.set(sig) precedes cancel() in signalTask.Run.
func signalOrder(c *Ctx, rule string) {
	run := c.needMethod(rule, "internal/corerad", "signalTask", "Run")
	if run == nil {
		return
	}
	fn := c.fname(run)
	ps := c.pathsO(rule, run, an.PathOpts{EmitCut: true})
	for _, p := range ps {
		if p.Ret == nil {
			continue
		}
		arm := "?"
		for _, a := range selectArmsOf(p) {
			if strings.Contains(a.chanExpr, "sigC") {
				arm = "signal"
			} else if strings.Contains(a.chanExpr, "Done") {
				arm = "ctx.Done"
			}
		}
		var seq []string
		var sigArg *an.Expr
		p.Instrs(func(in ssa.Instruction) {
			ci, ok := in.(ssa.CallInstruction)
			if !ok {
				return
			}
			cc := ci.Common()
			if an.CallIs(cc, PkgCorerad, "terminator", "set") {
				seq = append(seq, "set")
				sigArg = p.Of(cc.Args[len(cc.Args)-1])
			} else if _, ok := fieldLoadCall(cc, PkgCorerad, "signalTask", "cancel"); ok {
				seq = append(seq, "cancel")
			}
		})
		s := strings.Join(seq, ",")
		key := fn + ":order@" + arm
		switch arm {
		case "signal":
			okSig := sigArg != nil && sigArg.Op == an.OpRecv && len(sigArg.Args) == 1 && sigArg.Args[0].IsField("sigC")
			c.R.Check(s == "set,cancel" && okSig, rule, key, fn, c.pos(p.Ret.Pos()), fmt.Sprintf("calls [%s], set argument %v", s, sigArg),
				"t.t.set(<value received from sigC>) precedes t.cancel(), each exactly once", "tasks can observe cancellation before the terminate/reload decision is recorded")
		case "ctx.Done":
			c.R.Check(s == "", rule, key, fn, c.pos(p.Ret.Pos()), "calls ["+s+"]", "neither set nor cancel when another task failed", "terminate flag set without a signal")
		default:
			c.R.Fail(rule, key+":"+pathShape(p), fn, c.pos(p.Ret.Pos()), "calls ["+s+"]", "select over ctx.Done() and sigC", "unrecognised arm")
		}
	}
	c.R.Floor(rule, 2)
	// lockset on terminator.term
	n := 0
	for _, f := range c.srcFuncs() {
		for _, b := range f.Blocks {
			for _, in := range b.Instrs {
				if fa, ok := in.(*ssa.FieldAddr); ok && an.FieldAddrIs(fa, PkgCorerad, "terminator", "term") && !isFreshObject(fa.X) {
					n++
					c.R.Check(lockHeld(f, PkgCorerad, "terminator", "mu") == "W", rule, c.fname(f)+":access-terminator.term", c.fname(f), c.pos(fa.Pos()),
						"lock held: "+lockHeld(f, PkgCorerad, "terminator", "mu"), "terminator.term accessed only with mu held from entry to exit", "terminate flag read/written without the mutex")
				}
			}
		}
	}
	c.R.Check(n >= 2, rule, "corerad.terminator:term-accesses", "", "", fmt.Sprintf("%d access site(s)", n), ">= 2", "anchor-missing")
}

func c20ServeRetry(c *Ctx) {
	sv := c.needFunc("R-C20-5", "internal/corerad", "serve")
	if sv == nil {
		return
	}
	fn := c.fname(sv)
	ps := c.pathsO("R-C20-5", sv, an.PathOpts{EmitCut: true})
	okAttempts := false
	for _, p := range ps {
		// attempts constant
		for _, a := range p.Atoms {
			if k, _, exit, ok := loopTrip(a); ok && exit {
				if p.Ret != nil && !exprIsNil(p.Results[0]) {
					okAttempts = k == 40
				}
			}
		}
		// classify outcome of fn()
		class := ""
		for _, a := range p.Atoms {
			e := a.Cond
			if e.Op == an.OpCall && e.Fn != nil && e.Fn.String() == "errors.Is" && a.Pos && e.Args[1].Op == an.OpGlobal && e.Args[1].Name == "http.ErrServerClosed" {
				class = "closed"
			}
			if e.Op == an.OpCall && e.Fn != nil && e.Fn.String() == "errors.As" && a.Pos && class == "" {
				class = "op-error"
			}
			if e.Op == an.OpCall && e.Fn != nil && e.Fn.String() == "errors.As" && !a.Pos {
				class = "other"
			}
		}
		if class == "" || p.Panic != nil {
			continue
		}
		key := fn + ":outcome@" + class
		switch class {
		case "closed":
			c.R.Check(p.Ret != nil && exprIsNil(p.Results[0]), "R-C20-5", key, fn, c.pos(sv.Pos()), "ends in "+pathKind(p), "http.ErrServerClosed ⇒ return nil", "expected shutdown reported as an error")
		case "op-error":
			// retried: the path loops back, or (last attempt of a loop tested at the bottom) leaves the
			// loop through the exhausted-counter exit and reports the time-out
			exhausted := false
			if p.Ret != nil && len(p.Atoms) > 0 {
				if k, _, exit, ok := loopTrip(p.Atoms[len(p.Atoms)-1]); ok && exit && k == 40 && !exprIsNil(p.Results[0]) {
					exhausted = true
				}
			}
			c.R.Check(p.Cut || exhausted, "R-C20-5", key, fn, c.pos(sv.Pos()), "ends in "+pathKind(p), "*net.OpError ⇒ retry (loop back)", "listener errors are not retried")
		case "other":
			c.R.Check(p.Ret != nil && !exprIsNil(p.Results[0]), "R-C20-5", key, fn, c.pos(sv.Pos()), "ends in "+pathKind(p), "other errors are returned", "unexpected errors swallowed")
		}
	}
	c.R.Check(okAttempts, "R-C20-5", fn+":attempts", fn, c.pos(sv.Pos()), fmt.Sprintf("loop bound is 40=%v", okAttempts), "40 attempts, then a non-nil error", "HTTP listener retry bound differs from the documented 40 attempts")
	c.R.Floor("R-C20-5", 4)
}

// c20ReadyChannels (R-C20-4, second clause): readiness is announced only after
// every task's Ready() channel has been closed, so every Task implementation
// must actually close the channel it hands out: a fresh channel is closed
// before it is returned; a channel kept in a field is closed somewhere in the
// type's own methods (or closures of them). Otherwise the daemon never reports
// READY. httpTask additionally hands a listen error back to serve().
func c20ReadyChannels(c *Ctx) {
	n := 0
	for _, fn := range c.srcFuncs() {
		if fn.Pkg == nil || fn.Pkg.Pkg.Path() != PkgCorerad || fn.Name() != "Ready" || fn.Signature.Recv() == nil || fn.Parent() != nil {
			continue
		}
		n++
		name := c.fname(fn)
		recvT := fn.Signature.Recv().Type()
		for _, p := range c.pathsO("R-C20-4", fn, an.PathOpts{}) {
			if p.Ret == nil {
				continue
			}
			res := p.Results[0]
			// look through the conversion to a receive-only channel
			for res.Op == an.OpConv && len(res.Args) == 1 {
				res = res.Args[0]
			}
			ok := false
			fact := "returns " + res.String()
			switch {
			case res.Op == an.OpMake:
				// fresh channel: closed on this path
				p.Instrs(func(in ssa.Instruction) {
					if ci, isCall := in.(ssa.CallInstruction); isCall {
						if b, isB := ci.Common().Value.(*ssa.Builtin); isB && b.Name() == "close" && sameValue(p.Of(ci.Common().Args[0]), res) {
							ok = true
						}
					}
				})
				fact += fmt.Sprintf("; closed before it is returned: %v", ok)
			case res.Op == an.OpField:
				// field channel: some method (or closure of a method) of the same type closes it
				fld := res.Name
				for _, g := range c.srcFuncs() {
					root := g
					for root.Parent() != nil {
						root = root.Parent()
					}
					if root.Signature.Recv() == nil || !types.Identical(root.Signature.Recv().Type(), recvT) {
						continue
					}
					for _, ci := range an.CallsIn(g) {
						if b, isB := ci.Common().Value.(*ssa.Builtin); isB && b.Name() == "close" {
							if e := c.XO.Of(ci.Common().Args[0]); e.IsField(fld) {
								ok = true
							}
						}
					}
				}
				fact += fmt.Sprintf("; a method of the type closes the field: %v", ok)
			}
			c.R.Check(ok, "R-C20-4", name+":ready-channel-is-closed", name, c.pos(p.Ret.Pos()), fact,
				"the channel returned by Ready() is closed (at once, or by the task when it is ready)", "a task never reports ready: the READY notification is never sent")
		}
	}
	c.R.Check(n >= 4, "R-C20-4", "corerad:Ready-implementations", "", "", fmt.Sprintf("%d Ready() method(s)", n), ">= 4", "anchor-missing")

	// httpTask.Run: a failed net.Listen is returned to serve() (which retries *net.OpError)
	if run := c.P.Method("internal/corerad", "httpTask", "Run"); run != nil {
		for _, cl := range run.AnonFuncs {
			for _, p := range c.pathsO("R-C20-5", cl, an.PathOpts{}) {
				if p.Ret == nil || len(p.Results) != 1 {
					continue
				}
				for _, a := range p.Atoms {
					x, y, op, ok := effCmp(a)
					b, idx := stripExtract(x)
					if ok && exprIsNil(y) && idx == 1 && b.Op == an.OpCall && b.Fn != nil && b.Fn.String() == "net.Listen" {
						if op == token.NEQ {
							c.R.Check(sameValue(p.Results[0], x), "R-C20-5", c.fname(run)+":listen-error-returned", c.fname(run), c.pos(p.Ret.Pos()), "returns "+p.Results[0].String(),
								"the net.Listen error (serve() retries listener errors)", "a failed listen is reported as success: the debug server silently never starts")
						} else {
							served := callsOnPath(p, func(cc *ssa.CallCommon) bool {
								f := an.CalleeObj(cc)
								return f != nil && f.Name() == "Serve" && f.Pkg() != nil && f.Pkg().Path() == "net/http"
							})
							c.R.Check(len(served) == 1, "R-C20-5", c.fname(run)+":serves-after-listen", c.fname(run), c.pos(p.Ret.Pos()), fmt.Sprintf("%d http.Server.Serve call(s) after a successful listen", len(served)),
								"the HTTP server is served on the listener", "the debug server never serves")
						}
					}
				}
			}
		}
	}
}


// c20HTTPStop (R-C20-6): when its context ends the debug HTTP task closes the
// server at once: the goroutine that waits for ctx.Done() calls
// (*http.Server).Close. A graceful Shutdown without a deadline waits for every
// request in flight, so one stalled client keeps the task — and with it Serve —
// from returning.
func c20HTTPStop(c *Ctx) {
	run := c.needMethod("R-C20-6", "internal/corerad", "httpTask", "Run")
	if run == nil {
		return
	}
	fn := c.fname(run)
	closes, bad := 0, ""
	// Run, its closures, and the functions of package corerad it reaches (the listen/serve body may be a method)
	reach := an.ModuleReach([]*ssa.Function{run}, func(f *ssa.Function) bool {
		return load.InModule(f) && (f.Pkg == nil || strings.HasSuffix(f.Pkg.Pkg.Path(), "internal/corerad"))
	}, nil)
	var fns []*ssa.Function
	for f := range reach {
		fns = append(fns, f)
	}
	for _, f := range fns {
		for _, ci := range an.CallsIn(f) {
			fo := an.CalleeObj(ci.Common())
			if fo == nil || fo.Pkg() == nil || fo.Pkg().Path() != "net/http" {
				continue
			}
			switch fo.Name() {
			case "Close":
				closes++
			case "Shutdown":
				// only with a context that expires by itself
				arg := c.XO.Of(ci.Common().Args[len(ci.Common().Args)-1])
				bounded := arg.Contains(func(x *an.Expr) bool {
					return x.Op == an.OpCall && x.Fn != nil && (x.Fn.String() == "context.WithTimeout" || x.Fn.String() == "context.WithDeadline")
				})
				if !bounded {
					bad = "http.Server.Shutdown(" + shortExpr(arg) + ") at " + c.pos(ci.Pos()) + " waits for requests in flight without a deadline"
				} else {
					closes++
				}
			}
		}
	}
	c.R.Check(closes >= 1 && bad == "", "R-C20-6", fn+":server-closed-on-cancel", fn, c.pos(run.Pos()), fmt.Sprintf("%d prompt stop call(s); %s", closes, bad),
		"the server is stopped with Close (or a Shutdown bounded by a deadline) when the context ends", "a debug request in flight keeps the HTTP task, and therefore Serve, from returning after a signal or a fatal error")
}
