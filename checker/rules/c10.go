package rules

import (
	"fmt"
	"go/constant"
	"go/token"
	"go/types"
	"math/big"
	"strings"

	"crverif/internal/an"

	"golang.org/x/tools/go/ssa"
)

func init() {
	register(&RuleSet{
		Property: "C10",
		Explanation: "GUARD/VSA/STRUCT/PATH rules: R-C10-1 error classification table of Dialer.init (recoverable = non-permission *os.SyscallError, ErrLinkNotReady, ErrLinkChange; nil = success; anything else returned) and Dial mapping context.Canceled to nil; " +
			"R-C10-2 back-off constants as loop facts (init: i < 50, wait 0 then min((i+1)·250ms, 3s); receiveRetry: i < 5, wait i·50ms; exhaustion returns a non-nil error); " +
			"R-C10-3 every timer wait in the module sits in a select that also has a ctx.Done() case, no time.Sleep, bare receives only on Done()/Ready() channels; " +
			"R-C10-4 advertise/monitor start every goroutine with eg.Go on an errgroup.WithContext group using the derived context, return eg.Wait's error; Listen interrupts the read on cancellation; a link event yields ErrLinkChange; " +
			"R-C10-15 receiveRetry reports the exhausted budget as errRetriesExhausted alone (no wrapped cause the dialer could classify as recoverable); R-C10-5 the error handed to init on re-dial is the one the task function returned R-C10-6 the failed read/write stays in the error chain (returned as is or %w-wrapped) in Listen, send and the task goroutines; R-C10-7 the Dial callbacks of Run return the task's error unchanged unless it is context.Canceled and panic only for nil; R-C10-8 linkStateWatcher(group ctx, watchC) runs under the task's errgroup, BuildTasks hands each task Watcher.Subscribe(own name, LinkDown), and the watcher waits whenever the channel is non-nil; R-C10-9 every send of a request to the scheduler (listener callback, multicast loop) is an arm of a blocking select with ctx.Done(), so no goroutine of the task outlives a stopped scheduler; R-C10-10 the context Dial hands to the task function is its own ctx or one derived from it inside the same re-dial iteration; R-C10-11 receiveRetry goes round its loop after a failed read only under net.Error.Timeout() == true; R-C10-12 (shared with R-C11-6) the sysctl helpers keep the os error in the chain, so a vanished interface is tolerated at clean-up and the task is re-dialed; R-C10-13 Listen asks ctx.Err() about a failed read before it cancels the context it derived; R-C10-14 the ctx.Done() arm of init's back-off returns ctx.Err(). R-C10-2 also: inside the back-off loop a failed DialFunc attempt always continues the loop. R-C10-4 also: in package corerad a netstate.Change channel is received from only by the watcher goroutine (a function that reports ErrLinkChange). The delivery rules of netstate's notify (R-C19-3) are evaluated here as shared rules: the LinkDown a task subscribed to is delivered.",
		Assumptions: []string{
			"Go type checker and go/ssa construction are correct",
			"errgroup.WithContext cancels the derived context on the first non-nil error",
			"SetReadDeadline with a past deadline makes a blocked ReadFrom return a timeout error",
		},
		NotCovered: []string{"time to stop (promptness)", "behaviour of errgroup itself"},
		Run:        runC10,
	})
}

func runC10(c *Ctx) {
	// a transmit error from a worker aborts the scheduler: cancel, wait, return the error
	scheduleExits(c, "R-C10-4")
	c10ErrorChain(c)
	c10TaskWiring(c)
	c10Classify(c)
	c10Backoff(c)
	c10Waits(c)
	c10FailTogether(c)
	requestChannelSends(c, "R-C10-9")
	c10RetryOnlyTimeouts(c)
	// a vanished interface must be recognisable when autoconf is restored, or the re-dial never happens
	sysctlCause(c, "R-C10-12")
	listenClassifiesBeforeCancel(c, "R-C10-13")
	initCancelReturnsErr(c, "R-C10-14")
	onlyWatcherReceivesChanges(c, "R-C10-4")
	c19Delivery(c) // the LinkDown a task subscribed to is delivered (shared R-C19-3)
	exhaustionIsBareSentinel(c, "R-C10-15")
}

// c10RetryOnlyTimeouts (R-C10-11): a failed read is retried on the same
// connection only when it is a timeout (the interrupt of a cancelled listener,
// or an idle socket); every other receive error leaves receiveRetry at once so
// that the task is torn down and classified by the dialer. A path that goes
// round the retry loop after a failed read without net.Error.Timeout() == true
// keeps a broken connection and turns a recoverable error into "retries
// exhausted", which the dialer treats as fatal.
func c10RetryOnlyTimeouts(c *Ctx) {
	rr := c.needMethod("R-C10-11", "internal/corerad", "listener", "receiveRetry")
	if rr == nil {
		return
	}
	fn := c.fname(rr)
	n, bad := 0, ""
	for _, p := range c.pathsO("R-C10-11", rr, an.PathOpts{EmitCut: true}) {
		if !p.Cut {
			continue
		}
		failed, timeout := false, false
		for _, a := range p.Atoms {
			x, y, op, ok := effCmp(a)
			if ok && exprIsNil(y) && op == token.NEQ {
				if b, idx := stripExtract(x); idx >= 1 && b != nil && b.Op == an.OpCall && strings.Contains(b.Name, "ReadFrom") {
					failed = true
				}
			}
			if a.Pos && a.Cond.Op == an.OpCall && a.Cond.Name == "Timeout" {
				timeout = true
			}
		}
		if !failed {
			continue
		}
		n++
		if !timeout {
			bad = "a failed read is retried under " + atomsString(p)
		}
	}
	c.R.Check(n >= 1 && bad == "", "R-C10-11", fn+":retries-only-timeouts", fn, c.pos(rr.Pos()), fmt.Sprintf("%d retrying path(s) after a failed read; %s", n, bad),
		"every path that retries after a failed read established net.Error.Timeout() == true", "a non-timeout receive error is retried on the broken connection and finally reported as an unrecoverable \"retries exhausted\"")
}

func isErrorsCall(e *an.Expr, name string) bool {
	return e.Op == an.OpCall && e.Fn != nil && e.Fn.String() == "errors."+name
}

func c10Classify(c *Ctx) {
	ini := c.needMethod("R-C10-1", "internal/system", "Dialer", "init")
	if ini == nil {
		return
	}
	fn := c.fname(ini)
	ps := c.pathsO("R-C10-1", ini, an.PathOpts{EmitCut: true})
	type outcome struct{ retry, retErr, retOK int }
	classes := map[string]*outcome{}
	var order []string
	for _, p := range ps {
		if p.Panic != nil {
			continue
		}
		// classify by the atoms that inspect the error before the retry loop
		class := ""
		inLoop := false
		for _, a := range p.Atoms {
			// the retry loop has been entered once a test sits in a cycle of the flow graph (the loop
			// may be rotated: its first iteration then has no test on the counter)
			if a.If != nil && an.Info(a.If.Block().Parent()).Reaches(a.If.Block(), a.If.Block()) {
				inLoop = true
				break
			}
			e := a.Cond
			switch {
			case isErrorsCall(e, "As"):
				if a.Pos {
					class = "syscall"
				}
			case isErrorsCall(e, "Is") && len(e.Args) == 2 && e.Args[1].Op == an.OpGlobal:
				g := e.Args[1].Name
				switch {
				case g == "os.ErrPermission" && class == "syscall":
					if a.Pos {
						class = "syscall-permission"
					} else {
						class = "syscall-other"
					}
				case a.Pos:
					class = "is:" + g
				}
			default:
				x, y, op, ok := effCmp(a)
				if ok && exprIsNil(y) && op == token.EQL && class == "" && strings.Contains(x.String(), "DialFunc") {
					// `err == nil` after the dial (not the entry test on the parameter alone)
					class = "nil"
				}
			}
		}
		if class == "" {
			class = "default"
		}
		// the entry test `err == nil` on the parameter decides whether a dial happened; merge both
		o := classes[class]
		if o == nil {
			o = &outcome{}
			classes[class] = o
			order = append(order, class)
		}
		switch {
		case inLoop || p.Cut:
			o.retry++
		case p.Ret != nil && len(p.Results) == 2 && exprIsNil(p.Results[1]):
			o.retOK++
		case p.Ret != nil:
			o.retErr++
		}
	}
	want := map[string]string{
		"syscall-permission":        "error",
		"syscall-other":             "retry",
		"is:system.ErrLinkNotReady": "retry",
		"is:system.ErrLinkChange":   "retry",
		"nil":                       "ok",
		"default":                   "error",
	}
	for _, cl := range order {
		o := classes[cl]
		got := "mixed"
		switch {
		case o.retry > 0 && o.retErr == 0 && o.retOK == 0:
			got = "retry"
		case o.retry == 0 && o.retErr > 0 && o.retOK == 0:
			got = "error"
		case o.retry == 0 && o.retErr == 0 && o.retOK > 0:
			got = "ok"
		}
		w, known := want[cl]
		if cl == "syscall" {
			// errors.As true but permission untested
			known = false
		}
		c.R.Check(known && got == w, "R-C10-1", fn+":class@"+cl, fn, c.pos(ini.Pos()),
			fmt.Sprintf("class %s → %s (retry paths %d, error returns %d, success returns %d)", cl, got, o.retry, o.retErr, o.retOK),
			"recoverable (retry with back-off): non-permission *os.SyscallError, ErrLinkNotReady, ErrLinkChange; nil → success; permission and everything else → returned",
			"failure classification differs from the documented policy")
	}
	for cl := range want {
		if classes[cl] == nil {
			c.R.Fail("R-C10-1", fn+":class@"+cl, fn, c.pos(ini.Pos()), "class not distinguished", "class "+cl+" handled", "a documented failure class is no longer recognised")
		}
	}
	// exhaustion returns a non-nil error; success inside the loop returns the fresh context
	nExh := 0
	defer func() {
		c.R.Check(nExh >= 1, "R-C10-2", fn+":attempts-bounded", fn, c.pos(ini.Pos()), fmt.Sprintf("%d exhaustion exit(s) recognised", nExh), ">= 1 (the retry loop is bounded by a counter)", "the dial retry loop has no recognisable bound")
	}()
	for _, p := range ps {
		if p.Ret == nil {
			continue
		}
		for _, a := range p.Atoms {
			k, _, exit, ok := loopTrip(a)
			if ok && exit {
				nExh++
				c.R.Check(k == 50 && !exprIsNil(p.Results[1]) && exprIsNil(p.Results[0]), "R-C10-2", fn+":attempts", fn, c.pos(p.Ret.Pos()),
					fmt.Sprintf("loop bound %d; on exhaustion returns (%s, non-nil=%v)", k, p.Results[0], !exprIsNil(p.Results[1])), "at most 50 attempts, then a non-nil error", "dial retry bound differs from the documented 50 attempts")
			}
		}
	}
	// Dial: canceled → nil; other init errors returned
	if d := c.needMethod("R-C10-1", "internal/system", "Dialer", "Dial"); d != nil {
		for _, p := range c.pathsO("R-C10-1", d, an.PathOpts{EmitCut: true}) {
			if p.Ret == nil {
				continue
			}
			for _, a := range p.Atoms {
				if isErrorsCall(a.Cond, "Is") && a.Cond.Args[1].Op == an.OpGlobal && a.Cond.Args[1].Name == "context.Canceled" {
					if a.Pos {
						c.R.Check(exprIsNil(p.Results[0]), "R-C10-1", c.fname(d)+":canceled-is-clean", c.fname(d), c.pos(p.Ret.Pos()), "returns "+p.Results[0].String(), "cancellation produces a clean nil return", "shutdown reported as an error")
					} else {
						c.R.Check(!exprIsNil(p.Results[0]), "R-C10-1", c.fname(d)+":init-error-returned", c.fname(d), c.pos(p.Ret.Pos()), "returns "+p.Results[0].String(), "an unrecoverable initialisation error is returned", "fatal error swallowed")
					}
				}
			}
		}
		// R-C10-5
		for _, p := range c.pathsO("R-C10-5", d, an.PathOpts{EmitCut: true}) {
			if !p.Cut {
				continue
			}
			for _, in := range p.CutTo.Instrs {
				ph, ok := in.(*ssa.Phi)
				if !ok {
					break
				}
				if types.TypeString(ph.Type(), nil) != "error" {
					continue
				}
				v := p.BackEdgeValue(ph)
				ok2 := v != nil && v.Op == an.OpCall && strings.HasPrefix(v.Name, "dyn:$fn")
				c.R.Check(ok2, "R-C10-5", c.fname(d)+":redial-error", c.fname(d), c.pos(ph.Pos()), fmt.Sprintf("error carried into the next init: %v", v), "the error returned by fn(ctx, dctx)", "re-dial decision made on a stale or different error")
			}
		}
		c.R.Floor("R-C10-5", 1)
		c10TaskContext(c, d)
	}
}

// c10TaskContext (R-C10-10): the context handed to the task function on every
// (re-)establishment is alive when the task starts: Dial's own ctx parameter,
// or a context derived from it inside the same iteration of the re-dial loop.
// A context derived once before the loop and cancelled after the first run
// starts every re-established task already cancelled: Run reads that as a
// shutdown and the interface silently stops being served.
func c10TaskContext(c *Ctx, d *ssa.Function) {
	n := 0
	fnName := c.fname(d)
	// Dial itself, and the helpers only Dial calls (the task may be invoked one level down)
	hosts := an.WithAnon(d)
	for _, f := range c.srcFuncs() {
		if f.Parent() == nil && f != d && !anchorFuncs[c.fname(f)] {
			if ok, _ := c.reachedOnlyFrom(f, func(root *ssa.Function) bool { return root == d }); ok && len(c.callersOf()[f]) > 0 {
				hosts = append(hosts, an.WithAnon(f)...)
			}
		}
	}
	isTaskFn := func(t types.Type) bool {
		sig, ok := t.Underlying().(*types.Signature)
		return ok && sig.Params().Len() == 2 && strings.HasSuffix(typeStr(sig.Params().At(0).Type()), "context.Context") && strings.HasSuffix(typeStr(sig.Params().At(1).Type()), "system.DialContext")
	}
	// resolve a helper's parameter to the argument Dial passes (one call site)
	var resolve func(v ssa.Value, depth int) ssa.Value
	resolve = func(v ssa.Value, depth int) ssa.Value {
		prm, ok := v.(*ssa.Parameter)
		if !ok || prm.Parent() == d || depth > 3 {
			return v
		}
		h := prm.Parent()
		idx := -1
		for i, q := range h.Params {
			if q == prm {
				idx = i
			}
		}
		sites := an.CallSitesOf(h)
		if idx < 0 || len(sites) != 1 || idx >= len(sites[0].Common().Args) {
			return v
		}
		return resolve(sites[0].Common().Args[idx], depth+1)
	}
	for _, f := range hosts {
		for _, b := range f.Blocks {
			for _, in := range b.Instrs {
				call, ok := in.(ssa.CallInstruction)
				if !ok || call.Common().IsInvoke() || len(call.Common().Args) != 2 {
					continue
				}
				if _, isPrm := call.Common().Value.(*ssa.Parameter); !isPrm || !isTaskFn(call.Common().Value.Type()) {
					continue
				}
				n++
				arg := resolve(call.Common().Args[0], 0)
				fact, ok2 := "", false
				switch x := arg.(type) {
				case *ssa.Parameter:
					ok2 = x.Parent() == d && strings.HasSuffix(typeStr(x.Type()), "context.Context")
					fact = "the task runs with Dial's own context parameter " + x.Name()
				case *ssa.Extract:
					mk, isCall := x.Tuple.(*ssa.Call)
					obj := (*types.Func)(nil)
					if isCall {
						obj = an.CalleeObj(&mk.Call)
					}
					if obj == nil || obj.Pkg() == nil || obj.Pkg().Path() != "context" || !strings.HasPrefix(obj.Name(), "With") {
						fact = "context of unrecognised origin"
						break
					}
					parent, _ := resolve(mk.Call.Args[0], 0).(*ssa.Parameter)
					// innermost loop header that dominates the creation's use site in the same function
					var hdr *ssa.BasicBlock
					site := b
					if mk.Parent() != f {
						site = nil // created in another frame: decide on the creating function's own loops
					}
					for _, h := range mk.Parent().Blocks {
						if site != nil && !h.Dominates(site) {
							continue
						}
						for _, pr := range h.Preds {
							if h.Dominates(pr) && (site != nil || h.Dominates(mk.Block())) {
								if hdr == nil || hdr.Dominates(h) {
									hdr = h
								}
							}
						}
					}
					perIter := hdr == nil || hdr.Dominates(mk.Block())
					ok2 = parent != nil && parent.Parent() == d && perIter
					fact = fmt.Sprintf("the task runs with context.%s(%v) created at %s; derived from Dial's ctx=%v; created inside the re-dial iteration=%v", obj.Name(), mk.Call.Args[0].Name(), c.pos(mk.Pos()), parent != nil, perIter)
				default:
					fact = fmt.Sprintf("context of unrecognised origin (%T)", arg)
				}
				c.R.Check(ok2, "R-C10-10", fnName+":task-context-live", fnName, c.pos(call.Pos()), fact,
					"the task function receives Dial's ctx, or a context derived from it in the same iteration of the re-dial loop", "a re-established task starts with a context that is already cancelled (or can never be cancelled): the interface silently stops being served")
			}
		}
	}
	c.R.Check(n >= 1, "R-C10-10", fnName+":task-call-sites", fnName, c.pos(d.Pos()), fmt.Sprintf("%d call(s) of the task function", n), ">= 1", "anchor-missing")
}

func c10Backoff(c *Ctx) {
	// Dialer.init delay progression
	ini := c.P.Method("internal/system", "Dialer", "init")
	if ini != nil {
		fn := c.fname(ini)
		ps := c.pathsO("R-C10-2", ini, an.PathOpts{EmitCut: true})
		seen := map[string]bool{}
		for _, p := range ps {
			if !p.Cut {
				continue
			}
			for _, in := range p.CutTo.Instrs {
				ph, ok := in.(*ssa.Phi)
				if !ok {
					break
				}
				if !strings.HasSuffix(typeStr(ph.Type()), "time.Duration") {
					continue
				}
				v := p.BackEdgeValue(ph)
				// capped?
				capped, tested := false, false
				var cmpX *an.Expr
				for _, a := range p.Atoms {
					x, y, op, okc := effCmp(a)
					if okc && (op == token.GTR || op == token.LEQ) {
						if k, isC := y.ConstInt(); isC && k == 3000000000 {
							tested, capped = true, op == token.GTR
							cmpX = x
						}
					}
				}
				key := fmt.Sprintf("%s:delay-progression@capped=%s", fn, tri(capped, tested))
				// (k+1)·250ms after the k-th iteration, k counted from the counter's initial value
				stepForm := func(e *an.Expr) bool {
					nf, okN := an.Norm(e)
					if !okN || nf.Mode != an.ModeNone || len(nf.Lin.T) != 1 {
						return false
					}
					for sym, coef := range nf.Lin.T {
						if coef.Cmp(big.NewRat(250000000, 1)) != 0 || !strings.HasPrefix(sym, "loop:") {
							return false
						}
						i0, okI := loopInit(e, sym)
						if !okI || nf.Lin.C.Cmp(big.NewRat(250000000*(1-i0), 1)) != 0 {
							return false
						}
					}
					return true
				}
				// the builtin form min(step, 3s) decides both cases at once
				isMin := false
				if v != nil && v.Op == an.OpCall && v.Fn == nil && v.Name == "min" && len(v.Args) == 2 {
					a0, a1 := v.Args[0], v.Args[1]
					if k, isC := a0.ConstInt(); isC && k == 3000000000 {
						a0, a1 = a1, a0
					}
					if k, isC := a1.ConstInt(); isC && k == 3000000000 && stepForm(a0) {
						isMin = true
						key = fmt.Sprintf("%s:delay-progression@min", fn)
					}
				}
				if seen[key] {
					continue
				}
				seen[key] = true
				okv := isMin
				if tested && v != nil && !isMin {
					if capped {
						k, isC := v.ConstInt()
						okv = isC && k == 3000000000
					} else {
						okv = sameValue(v, cmpX) && stepForm(v)
					}
				}
				init0 := false
				for k, pr := range ph.Block().Preds {
					if !ph.Block().Dominates(pr) {
						if cst, ok := ph.Edges[k].(*ssa.Const); ok && cst.Int64() == 0 {
							init0 = true
						}
					}
				}
				c.R.Check(okv && init0, "R-C10-2", key, fn, c.pos(ph.Pos()), fmt.Sprintf("next delay = %v (first delay 0: %v)", v, init0),
					"delay starts at 0 and becomes min((i+1)·250ms, 3s)", "dial back-off differs from the documented 250ms steps capped at 3s")
			}
		}
		c.R.Floor("R-C10-2", 3)
		// once the cause was found recoverable every failed attempt is retried: inside the back-off loop a
		// DialFunc error never ends init — only success, cancellation or the exhausted budget do (the
		// errors seen while a flapped link settles are mostly unclassified fmt.Errorf("%v") texts)
		nLoop, badRet := 0, ""
		for _, p := range ps {
			waits := callsOnPath(p, func(cc *ssa.CallCommon) bool {
				f := an.CalleeObj(cc)
				return f != nil && f.Pkg() != nil && f.Pkg().Path() == "time" && (f.Name() == "After" || f.Name() == "NewTimer")
			})
			if len(waits) == 0 {
				continue
			}
			var last ssa.CallInstruction
			for _, ci := range callsOnPath(p, func(cc *ssa.CallCommon) bool { _, ok := fieldLoadCall(cc, PkgSystem, "Dialer", "DialFunc"); return ok }) {
				last = ci
			}
			if last == nil {
				continue
			}
			// the attempt is one made after the wait (the initial dial precedes the loop)
			posWait, posDial, k := -1, -1, 0
			p.Instrs(func(in ssa.Instruction) {
				if in == ssa.Instruction(waits[0]) && posWait < 0 {
					posWait = k
				}
				if in == ssa.Instruction(last) {
					posDial = k
				}
				k++
			})
			if posDial < posWait {
				continue
			}
			lv, _ := last.(ssa.Value)
			failed, exhausted := false, false
			for _, a := range p.Atoms {
				x, y, op, ok := effCmp(a)
				if !ok {
					continue
				}
				if failed {
					// leaving through the loop's own bound test (a loop whose test sits at the bottom): the
					// budget is exhausted, which is the documented way out
					_, isC := y.ConstInt()
					if isC && x.Contains(func(e *an.Expr) bool { return e.Op == an.OpLoop }) {
						exhausted = true
					}
				}
				if !exprIsNil(y) || op != token.NEQ {
					continue
				}
				if b, i := stripExtract(x); i == 1 && b.V == lv && lv != nil {
					failed = true
				}
			}
			if !failed {
				continue
			}
			nLoop++
			if (p.Ret != nil || p.Panic != nil) && !exhausted {
				badRet = "init returns after a failed attempt inside the back-off loop under " + atomsString(p)
			}
		}
		c.R.Check(badRet == "" && nLoop >= 1, "R-C10-2", fn+":failed-attempt-is-retried", fn, c.pos(ini.Pos()), fmt.Sprintf("%d path(s) through a failed attempt in the loop; %s", nLoop, badRet),
			"a failed re-dial attempt continues the loop (only success, cancellation or 50 failed attempts end it)",
			"a transient, unclassified dial error during back-off ends the task although its cause was recoverable")
	}
	// receiveRetry: bound 5, wait i·50ms
	rr := c.P.Method("internal/corerad", "listener", "receiveRetry")
	if rr != nil {
		fn := c.fname(rr)
		okBound, okWait := false, false
		for _, p := range c.pathsO("R-C10-2", rr, an.PathOpts{EmitCut: true}) {
			for _, a := range p.Atoms {
				if k, _, exit, ok := loopTrip(a); ok && exit && p.Ret != nil {
					if k == 5 && !exprIsNil(p.Results[2]) {
						okBound = true
					}
				}
				if a.Cond.Op == an.OpBin && len(a.Cond.Args) == 2 {
					if sel, ok := a.Cond.Args[0].V.(*ssa.Select); ok {
						for _, st := range sel.States {
							e := p.Of(st.Chan)
							if e.Op == an.OpCall && e.Fn != nil && e.Fn.String() == "time.After" {
								if nf, okN := an.Norm(e.Args[0]); okN && nf.Mode == an.ModeNone && nf.Lin.C.Sign() == 0 && len(nf.Lin.T) == 1 {
									for sym, coef := range nf.Lin.T {
										if strings.HasPrefix(sym, "loop:") && coef.Cmp(big.NewRat(50000000, 1)) == 0 {
											okWait = true
										}
									}
								}
							}
						}
					}
				}
			}
		}
		c.R.Check(okBound, "R-C10-2", fn+":retries", fn, c.pos(rr.Pos()), fmt.Sprintf("5 tries then a non-nil error=%v", okBound), "receive timeouts are retried up to 5 times, then reported", "receive retry bound differs")
		c.R.Check(okWait, "R-C10-2", fn+":retry-wait", fn, c.pos(rr.Pos()), fmt.Sprintf("wait = i·50ms=%v", okWait), "increasing back-off i·50ms", "receive retry back-off differs")
	}
}

func isDoneChan(e *an.Expr) bool {
	return e.Op == an.OpCall && e.Fn == nil && e.Name == "Done"
}

func c10Waits(c *Ctx) {
	nTimer := 0
	for _, fn := range c.srcFuncs() {
		for _, b := range fn.Blocks {
			for _, in := range b.Instrs {
				switch x := in.(type) {
				case ssa.CallInstruction:
					f := an.CalleeObj(x.Common())
					if f != nil && f.Pkg() != nil && f.Pkg().Path() == "time" && f.Name() == "Sleep" {
						c.R.Fail("R-C10-3", c.fname(fn)+":time.Sleep", c.fname(fn), c.pos(x.Pos()), "time.Sleep call", "all waits are cancelable selects", "an uncancelable wait delays shutdown")
					}
					if an.ObjIs(f, "time", "", "After") || an.ObjIs(f, "time", "", "NewTimer") || an.ObjIs(f, "time", "", "Tick") {
						nTimer++
						v, _ := in.(ssa.Value)
						ok := false
						if v != nil && v.Referrers() != nil {
							for _, r := range *v.Referrers() {
								if sel, isSel := r.(*ssa.Select); isSel {
									for _, st := range sel.States {
										if isDoneChan(c.XO.Of(st.Chan)) {
											ok = true
										}
									}
								}
							}
						}
						c.R.Check(ok, "R-C10-3", c.fname(fn)+":timer-wait", c.fname(fn), c.pos(x.Pos()), fmt.Sprintf("time.%s used in a select with a ctx.Done() case=%v", f.Name(), ok),
							"every timer wait sits in a select that also has a <-ctx.Done() case", "a back-off wait cannot be interrupted by cancellation")
					}
				case *ssa.UnOp:
					if x.Op == token.ARROW {
						e := c.XO.Of(x.X)
						ok := isDoneChan(e) || (e.Op == an.OpCall && e.Name == "Ready")
						c.R.Check(ok, "R-C10-3", c.fname(fn)+":bare-receive", c.fname(fn), c.pos(x.Pos()), "blocking receive on "+e.String(),
							"blocking receives outside a select only on Done()/Ready() channels", "a goroutine can block on a receive that cancellation does not release")
					}
				}
			}
		}
	}
	c.R.Check(nTimer >= 4, "R-C10-3", "module:timer-waits", "", "", fmt.Sprintf("%d timer wait site(s)", nTimer), ">= 4 (init, receiveRetry, serve, multicast)", "anchor-missing")
}

func c10FailTogether(c *Ctx) {
	for _, spec := range [][2]string{{"Advertiser", "advertise"}, {"Monitor", "monitor"}} {
		f := c.needMethod("R-C10-4", "internal/corerad", spec[0], spec[1])
		if f == nil {
			continue
		}
		fn := c.fname(f)
		nGo := 0
		for _, g := range an.WithAnon(f) {
			for _, ci := range an.CallsIn(g) {
				if _, isGo := ci.(*ssa.Go); isGo {
					c.R.Fail("R-C10-4", c.fname(g)+":bare-go", c.fname(g), c.pos(ci.Pos()), "bare go statement", "all goroutines of the task are started with eg.Go", "a goroutine escapes the fail-together group")
				}
			}
		}
		for _, ci := range an.CallsIn(f) {
			cc := ci.Common()
			fo := an.CalleeObj(cc)
			if fo == nil || fo.Name() != "Go" || fo.Pkg() == nil || fo.Pkg().Path() != "golang.org/x/sync/errgroup" {
				continue
			}
			nGo++
			grp := c.XO.Of(cc.Args[0])
			gb, gidx := stripExtract(grp)
			okGrp := gidx == 0 && gb.Op == an.OpCall && gb.Fn != nil && gb.Fn.String() == "golang.org/x/sync/errgroup.WithContext"
			// contexts used by the goroutine
			var cl *ssa.Function
			var ctxExprs []*an.Expr
			switch a := cc.Args[1].(type) {
			case *ssa.MakeClosure:
				cl = a.Fn.(*ssa.Function)
				for _, g := range an.WithAnon(cl) {
					for _, inner := range an.CallsIn(g) {
						for _, arg := range inner.Common().Args {
							if isContextType(arg.Type()) {
								ctxExprs = append(ctxExprs, c.XO.Of(arg))
							}
						}
					}
				}
			default:
				// e.g. eg.Go(linkStateWatcher(ctx, ch)): the call's context argument
				if call, ok := a.(*ssa.Call); ok {
					for _, arg := range call.Call.Args {
						if isContextType(arg.Type()) {
							ctxExprs = append(ctxExprs, c.XO.Of(arg))
						}
					}
				}
			}
			okCtx := len(ctxExprs) > 0
			for _, e := range ctxExprs {
				if !e.Contains(func(x *an.Expr) bool {
					return x.Op == an.OpCall && x.Fn != nil && x.Fn.String() == "golang.org/x/sync/errgroup.WithContext"
				}) {
					okCtx = false
				}
			}
			c.R.Check(okGrp && okCtx, "R-C10-4", fmt.Sprintf("%s:goroutine#%s", fn, goName(c, cc.Args[1])), fn, c.pos(ci.Pos()),
				fmt.Sprintf("group=%s contexts=%v", grp, exprStrings(ctxExprs)),
				"started with eg.Go on the errgroup.WithContext group and using only the derived context", "a goroutine of the task is wired to the parent context: alive but deaf when a sibling fails")
		}
		c.R.Check(nGo >= 2, "R-C10-4", fn+":goroutines", fn, c.pos(f.Pos()), fmt.Sprintf("%d eg.Go site(s)", nGo), ">= 2", "anchor-missing")
		// eg.Wait on every return path and its error returned
		for _, p := range c.pathsO("R-C10-4", f, an.PathOpts{EmitCut: true}) {
			if p.Ret == nil {
				continue
			}
			waits := callsOnPath(p, func(cc *ssa.CallCommon) bool {
				fo := an.CalleeObj(cc)
				return fo != nil && fo.Name() == "Wait" && fo.Pkg() != nil && fo.Pkg().Path() == "golang.org/x/sync/errgroup"
			})
			ok := len(waits) == 1
			if ok {
				w := p.Of(waits[0].(ssa.Value))
				failed := false
				for _, a := range p.Atoms {
					x, y, op, okc := effCmp(a)
					if okc && exprIsNil(y) && sameValue(x, w) {
						failed = op == token.NEQ
					}
				}
				if failed {
					ok = p.Results[0].Contains(func(e *an.Expr) bool { return sameValue(e, w) })
				}
			}
			c.R.Check(ok, "R-C10-4", fn+":wait-before-return@"+lastAtomName(p), fn, c.pos(p.Ret.Pos()), fmt.Sprintf("%d eg.Wait call(s); returns %s", len(waits), p.Results[0]),
				"returns only after eg.Wait(), propagating its error", "the task returns while a goroutine is still running, or loses the failure")
		}
	}
	// Listen: deferred cancel, interrupt goroutine, deferred wait
	if l := c.needMethod("R-C10-4", "internal/corerad", "listener", "Listen"); l != nil {
		fn := c.fname(l)
		deferCancel, deferWait, interrupt := false, false, false
		devs := c.deferredEvents("R-C10-4", l)
		for _, evs := range devs {
			for _, ev := range evs {
				if ev == "cancel" {
					deferCancel = true
				}
				if ev == "Wait" {
					deferWait = true
				}
			}
		}
		// the goroutine handed to eg.Go (in Listen or in a helper it calls): on every path it waits for
		// <-ctx.Done() and then forces the read to time out
		var goCalls []ssa.CallInstruction
		seenGo := map[ssa.Instruction]bool{}
		for _, lp := range c.pathsO("R-C10-4", l, an.PathOpts{EmitCut: true}) {
			lp.Instrs(func(in ssa.Instruction) {
				if ci, ok := in.(ssa.CallInstruction); ok && !seenGo[in] {
					if fo := an.CalleeObj(ci.Common()); fo != nil && fo.Name() == "Go" && fo.Pkg() != nil && fo.Pkg().Path() == "golang.org/x/sync/errgroup" {
						seenGo[in] = true
						goCalls = append(goCalls, ci)
					}
				}
			})
		}
		for _, ci := range goCalls {
			fo := an.CalleeObj(ci.Common())
			if fo == nil || fo.Name() != "Go" || fo.Pkg() == nil || fo.Pkg().Path() != "golang.org/x/sync/errgroup" {
				continue
			}
			args := ci.Common().Args
			mc, isCl := args[len(args)-1].(*ssa.MakeClosure)
			if !isCl {
				continue
			}
			gps := c.pathsO("R-C10-4", mc.Fn.(*ssa.Function), an.PathOpts{})
			all := len(gps) > 0
			for _, gp := range gps {
				if gp.Ret == nil {
					continue
				}
				sawDone, forced := false, false
				gp.Instrs(func(in ssa.Instruction) {
					if u, ok := in.(*ssa.UnOp); ok && u.Op == token.ARROW && isDoneChan(gp.Of(u.X)) {
						sawDone = true
					}
					if ci, ok := in.(ssa.CallInstruction); ok && an.CallIs(ci.Common(), PkgSystem, "Conn", "SetReadDeadline") && sawDone {
						arg := gp.Of(ci.Common().Args[len(ci.Common().Args)-1])
						if arg.Op == an.OpGlobal && arg.Name == "corerad.deadlineNow" {
							forced = true
						}
					}
				})
				if !forced {
					all = false
				}
			}
			if all {
				interrupt = true
			}
		}
		// Deferred calls run last-in first-out: the deferred eg.Wait() blocks until the interrupt goroutine
		// has seen ctx.Done(), so a cancel must run BEFORE it on every return (otherwise a read error that is
		// not caused by cancellation leaves Listen blocked forever and the task half-alive).
		var order []string // execution order at function exit: defers run last-in first-out
		for i := len(devs) - 1; i >= 0; i-- {
			order = append(order, devs[i]...)
		}
		okOrder := false
		for _, o := range order {
			if o == "cancel" {
				okOrder = true
				break
			}
			if o == "Wait" {
				break
			}
		}
		c.R.Check(okOrder, "R-C10-4", fn+":cancel-before-deferred-wait", fn, c.pos(l.Pos()), fmt.Sprintf("at function exit the deferred calls run in the order %v", order),
			"cancel() runs before the deferred eg.Wait() (defers are LIFO)", "a read or handler error not caused by cancellation makes Listen block in eg.Wait() until the parent context ends: the errgroup never sees the error, nothing is torn down or re-dialled (half-alive task)")
		c.R.Check(deferCancel && deferWait && interrupt, "R-C10-4", fn+":interruptible-read", fn, c.pos(l.Pos()),
			fmt.Sprintf("defer cancel=%v, deferred eg.Wait=%v, goroutine SetReadDeadline(deadlineNow) after <-ctx.Done()=%v", deferCancel, deferWait, interrupt),
			"a pending read is forced to time out on cancellation and the interrupt goroutine is always joined", "a blocked read survives cancellation: the task is half-alive")
	}
	// linkStateWatcher: event → ErrLinkChange
	if lw := c.needFunc("R-C10-4", "internal/corerad", "linkStateWatcher"); lw != nil && len(lw.AnonFuncs) == 1 {
		cl := lw.AnonFuncs[0]
		okEvt := false
		for _, p := range c.pathsO("R-C10-4", cl, an.PathOpts{}) {
			if p.Ret == nil {
				continue
			}
			evt := false
			for _, a := range selectArmsOf(p) {
				if strings.Contains(a.chanExpr, "watchC") {
					evt = true
				}
			}
			open := false
			for _, a := range p.Atoms {
				if a.Cond.Op == an.OpUnknown && a.Cond.Name == "select.recvOk" && a.Pos {
					open = true
				}
			}
			if evt && open {
				okEvt = p.Results[0].Op == an.OpGlobal && p.Results[0].Name == "system.ErrLinkChange"
			}
		}
		c.R.Check(okEvt, "R-C10-4", c.fname(lw)+":event-is-link-change", c.fname(lw), c.pos(lw.Pos()), fmt.Sprintf("event → system.ErrLinkChange=%v", okEvt), "a link event ends the task with the recoverable ErrLinkChange", "link changes do not re-initialise the interface")
	}
}

func isContextType(t types.Type) bool {
	n, ok := t.(*types.Named)
	return ok && n.Obj().Pkg() != nil && n.Obj().Pkg().Path() == "context" && n.Obj().Name() == "Context"
}

func goName(c *Ctx, v ssa.Value) string {
	switch a := v.(type) {
	case *ssa.MakeClosure:
		return c.fname(a.Fn.(*ssa.Function))
	case *ssa.Call:
		if f := an.StaticCallee(&a.Call); f != nil {
			return c.fname(f)
		}
	}
	return "?"
}

// deferredEvents lists, for every defer statement of fn in source order, the
// cancel() / eg.Wait() calls the deferred call makes, in execution order. The
// deferred callee (a cancel function, a closure, or a method of a small helper
// struct) is enumerated with its parameters bound to the arguments at the
// defer statement, so that `r.cancel` resolves to the cancel function stored
// in the struct.
func (c *Ctx) deferredEvents(rule string, fn *ssa.Function) [][]string {
	isCancel := func(e *an.Expr) bool {
		return e != nil && e.Op == an.OpExtract && e.Idx == 1 && e.Args[0].Op == an.OpCall && e.Args[0].Fn != nil && e.Args[0].Fn.String() == "context.WithCancel"
	}
	var out [][]string
	for _, ci := range an.CallsIn(fn) {
		d, ok := ci.(*ssa.Defer)
		if !ok {
			continue
		}
		var evs []string
		if !d.Call.IsInvoke() && isCancel(c.XO.Of(d.Call.Value)) {
			out = append(out, []string{"cancel"})
			continue
		}
		callee := an.StaticCallee(&d.Call)
		if callee == nil || callee.Blocks == nil {
			if fo := an.CalleeObj(&d.Call); fo != nil && fo.Name() == "Wait" && fo.Pkg() != nil && fo.Pkg().Path() == "golang.org/x/sync/errgroup" {
				evs = append(evs, "Wait")
			}
			out = append(out, evs)
			continue
		}
		var args []*an.Expr
		for _, a := range d.Call.Args {
			args = append(args, c.XO.Of(a))
		}
		ps, err := c.XO.PathsBound(callee, args, an.PathOpts{InlinePaths: c.helperInline(callee)})
		if err != nil {
			c.R.Undecided(rule, "paths:"+c.fname(callee), c.fname(callee), c.pos(callee.Pos()), err.Error())
		}
		for _, p := range ps {
			if p.Ret == nil {
				continue
			}
			var seq []string
			p.Instrs(func(in ssa.Instruction) {
				call, ok := in.(ssa.CallInstruction)
				if !ok {
					return
				}
				cc := call.Common()
				if fo := an.CalleeObj(cc); fo != nil && fo.Name() == "Wait" && fo.Pkg() != nil && fo.Pkg().Path() == "golang.org/x/sync/errgroup" {
					seq = append(seq, "Wait")
					return
				}
				if !cc.IsInvoke() && isCancel(p.Of(cc.Value)) {
					seq = append(seq, "cancel")
				}
			})
			if len(seq) > len(evs) {
				evs = seq
			}
		}
		out = append(out, evs)
	}
	return out
}

// wrapsCause reports whether error expression e carries cause in its
// errors.Is/As chain: it is the cause itself, or fmt.Errorf whose verb for an
// argument that carries the cause is %w.
func wrapsCause(e *an.Expr, cause func(*an.Expr) bool) bool {
	if e == nil {
		return false
	}
	if cause(e) {
		return true
	}
	if e.Op == an.OpPhi {
		for _, a := range e.Args {
			if !wrapsCause(a, cause) {
				return false
			}
		}
		return len(e.Args) > 0
	}
	if e.Op != an.OpCall || e.Fn == nil || e.Fn.String() != "fmt.Errorf" || len(e.Args) < 2 {
		return false
	}
	format, ok := constString(e.Args[0])
	if !ok || e.Args[1].Op != an.OpStruct || e.Args[1].Name != "list" {
		return false
	}
	// verbs in order of the arguments they consume
	var verbs []byte
	for i := 0; i+1 < len(format); i++ {
		if format[i] != '%' {
			continue
		}
		j := i + 1
		for j < len(format) && strings.ContainsRune("+-# 0123456789.[]*", rune(format[j])) {
			j++
		}
		if j < len(format) {
			if format[j] != '%' {
				verbs = append(verbs, format[j])
			}
			i = j
		}
	}
	for i, a := range e.Args[1].Args {
		if i < len(verbs) && verbs[i] == 'w' && wrapsCause(a, cause) {
			return true
		}
	}
	return false
}

func constString(e *an.Expr) (string, bool) {
	if e == nil || e.Op != an.OpConst || e.Cval == nil || e.Cval.Kind() != constant.String {
		return "", false
	}
	return constant.StringVal(e.Cval), true
}

// c10ErrorChain (R-C10-6): Dialer.init decides whether a failed task is
// re-established by looking for *os.SyscallError / ErrLinkChange in the error
// chain (errors.As/Is). The failure therefore has to stay in the chain on its
// way up: where Listen and send wrap the failed read or write, the wrap is %w.
func c10ErrorChain(c *Ctx) {
	type site struct {
		rel, typ, name string
		cause          func(p *an.Path) func(*an.Expr) bool
		failed         func(p *an.Path) bool
		what           string
	}
	callErr := func(pkg, typ, meth string, idx int) func(*an.Expr) bool {
		return func(e *an.Expr) bool {
			b, i := stripExtract(e)
			if idx < 0 {
				return exprCallIs(e, pkg, typ, meth)
			}
			return i == idx && exprCallIs(b, pkg, typ, meth)
		}
	}
	hasAtom := func(p *an.Path, is func(*an.Expr) bool, op token.Token) bool {
		for _, a := range p.Atoms {
			x, y, o, ok := effCmp(a)
			if ok && exprIsNil(y) && o == op && is(x) {
				return true
			}
		}
		return false
	}
	sites := []site{
		{"internal/corerad", "listener", "Listen", func(*an.Path) func(*an.Expr) bool { return callErr(PkgCorerad, "listener", "receiveRetry", 2) },
			func(p *an.Path) bool {
				isCtxErr := func(e *an.Expr) bool { return e.Op == an.OpCall && e.Name == "Err" }
				return hasAtom(p, callErr(PkgCorerad, "listener", "receiveRetry", 2), token.NEQ) && hasAtom(p, isCtxErr, token.EQL)
			}, "a failed read (not caused by cancellation)"},
		{"internal/corerad", "Advertiser", "send", func(*an.Path) func(*an.Expr) bool { return callErr(PkgSystem, "Conn", "WriteTo", -1) },
			func(p *an.Path) bool { return hasAtom(p, callErr(PkgSystem, "Conn", "WriteTo", -1), token.NEQ) }, "a failed transmission"},
	}
	for _, s := range sites {
		f := c.needMethod("R-C10-6", s.rel, s.typ, s.name)
		if f == nil {
			continue
		}
		fn := c.fname(f)
		n := 0
		for _, p := range c.pathsO("R-C10-6", f, an.PathOpts{EmitCut: true}) {
			if p.Ret == nil || !s.failed(p) {
				continue
			}
			n++
			res := p.Results[len(p.Results)-1]
			c.R.Check(wrapsCause(res, s.cause(p)), "R-C10-6", fn+":cause-kept-in-chain@"+lastAtomName(p), fn, c.pos(p.Ret.Pos()), "returns "+res.String(),
				s.what+" is returned as is or wrapped with %w, so that Dialer.init can find a *os.SyscallError in the chain",
				"a recoverable receive/transmit failure is flattened into text: the task ends instead of being re-established")
		}
		c.R.Check(n >= 1, "R-C10-6", fn+":failure-paths", fn, c.pos(f.Pos()), fmt.Sprintf("%d failing return path(s)", n), ">= 1", "anchor-missing")
	}
	// the listener goroutines of advertise/monitor and the scheduler hand the error up unchanged or %w-wrapped:
	// every fmt.Errorf in advertise, monitor, schedule, sendWorker and their closures that takes an error argument uses %w for it
	for _, spec := range [][2]string{{"Advertiser", "advertise"}, {"Monitor", "monitor"}, {"Advertiser", "schedule"}, {"Advertiser", "sendWorker"}} {
		root := c.P.Method("internal/corerad", spec[0], spec[1])
		if root == nil {
			continue
		}
		var fns []*ssa.Function
		var collect func(f *ssa.Function)
		collect = func(f *ssa.Function) {
			fns = append(fns, f)
			for _, a := range f.AnonFuncs {
				collect(a)
			}
		}
		collect(root)
		for _, f := range fns {
			for _, ci := range an.CallsIn(f) {
				fo := an.CalleeObj(ci.Common())
				if fo == nil || fo.FullName() != "fmt.Errorf" {
					continue
				}
				v, isV := ci.(ssa.Value)
				if !isV {
					continue
				}
				e := c.XO.Of(v)
				if len(e.Args) < 2 || e.Args[1].Op != an.OpStruct {
					continue
				}
				hasErrArg := false
				for _, a := range e.Args[1].Args {
					if a != nil && a.Typ != nil && typeStr(a.Typ) == "error" {
						hasErrArg = true
					}
				}
				if !hasErrArg {
					continue
				}
				isErr := func(x *an.Expr) bool {
					return x.Typ != nil && typeStr(x.Typ) == "error" && !(x.Op == an.OpCall && x.Fn != nil && x.Fn.String() == "fmt.Errorf")
				}
				c.R.Check(wrapsCause(e, isErr), "R-C10-6", c.fname(f)+":wraps-with-%w", c.fname(f), c.pos(ci.Pos()), e.String(),
					"an error passed up from the task's goroutines is wrapped with %w", "the cause is flattened into text before it reaches Dialer.init")
			}
		}
	}
}

// c10TaskWiring (R-C10-7/8): what connects a failure inside the task to the
// dialer's re-establishment logic.
//
// R-C10-7: the Dial callbacks of Advertiser.Run and Monitor.Run return the
// error of advertise()/monitor() unchanged unless it is context.Canceled
// (clean nil); they panic only for a nil error, which cannot happen.
//
// R-C10-8: the link watcher is part of the task: advertise()/monitor() start
// linkStateWatcher(derived ctx, receiver.watchC) under the errgroup;
// BuildTasks hands every task the channel subscribed for its own interface's
// LinkDown events when a watcher exists; linkStateWatcher waits on the channel
// whenever it is non-nil.
func c10TaskWiring(c *Ctx) {
	for _, spec := range [][3]string{{"Advertiser", "Run", "advertise"}, {"Monitor", "Run", "monitor"}} {
		run := c.needMethod("R-C10-7", "internal/corerad", spec[0], spec[1])
		if run == nil {
			continue
		}
		fn := c.fname(run)
		// the closure handed to Dialer.Dial
		var cb *ssa.Function
		for _, ci := range an.CallsIn(run) {
			if an.CallIs(ci.Common(), PkgSystem, "Dialer", "Dial") {
				args := ci.Common().Args
				if mc, ok := args[len(args)-1].(*ssa.MakeClosure); ok {
					cb = mc.Fn.(*ssa.Function)
				}
			}
		}
		if cb == nil {
			c.R.Fail("R-C10-7", fn+":dial-callback", fn, c.pos(run.Pos()), "no closure or method value handed to Dialer.Dial", "Run runs the task inside Dialer.Dial", "anchor-missing")
			continue
		}
		n := 0
		for _, p := range c.pathsO("R-C10-7", cb, an.PathOpts{EmitCut: true}) {
			var taskErr *an.Expr
			p.Instrs(func(in ssa.Instruction) {
				if ci, ok := in.(ssa.CallInstruction); ok && an.CallIs(ci.Common(), PkgCorerad, spec[0], spec[2]) {
					if v, isV := in.(ssa.Value); isV {
						taskErr = p.Of(v)
					}
				}
			})
			if taskErr == nil {
				continue
			}
			canceled, isNil := false, false
			for _, a := range p.Atoms {
				if isErrorsCall(a.Cond, "Is") && len(a.Cond.Args) == 2 && sameValue(a.Cond.Args[0], taskErr) && a.Cond.Args[1].Op == an.OpGlobal && a.Cond.Args[1].Name == "context.Canceled" {
					canceled = a.Pos
				}
				x, y, op, ok := effCmp(a)
				if ok && exprIsNil(y) && sameValue(x, taskErr) {
					isNil = op == token.EQL
				}
			}
			n++
			state := fmt.Sprintf("canceled=%v,nil=%v", canceled, isNil)
			key := fmt.Sprintf("%s:task-error@%s", fn, state)
			switch {
			case p.Panic != nil:
				c.R.Check(isNil && !canceled, "R-C10-7", key, fn, c.pos(cb.Pos()), "panics with "+state, "a panic only for the impossible nil task error", "a task failure crashes the daemon instead of being handed to the dialer")
			case p.Ret != nil && canceled:
				c.R.Check(exprIsNil(p.Results[0]), "R-C10-7", key, fn, c.pos(p.Ret.Pos()), "returns "+p.Results[0].String(), "nil on cancellation", "shutdown reported as a task error")
			case p.Ret != nil:
				tz := taskErr
				c.R.Check(wrapsCause(p.Results[0], func(e *an.Expr) bool { return sameValue(e, tz) }), "R-C10-7", key, fn, c.pos(p.Ret.Pos()), "returns "+p.Results[0].String(),
					"the task's error, unchanged or %w-wrapped", "the failure never reaches Dialer.init: the task is not re-established (or the cause is lost)")
			}
		}
		c.R.Check(n >= 3, "R-C10-7", fn+":task-exits", fn, c.pos(cb.Pos()), fmt.Sprintf("%d exit path(s) after the task returned", n), ">= 3 (canceled, nil, other)", "anchor-missing")

		// R-C10-8: link watcher goroutine
		task := c.needMethod("R-C10-8", "internal/corerad", spec[0], spec[2])
		if task == nil {
			continue
		}
		tn := c.fname(task)
		okLW := false
		fact := "no eg.Go(linkStateWatcher(...)) found"
		for _, ci := range an.CallsIn(task) {
			fo := an.CalleeObj(ci.Common())
			if fo == nil || fo.Name() != "Go" || fo.Pkg() == nil || fo.Pkg().Path() != "golang.org/x/sync/errgroup" {
				continue
			}
			args := ci.Common().Args
			e := c.XO.Of(args[len(args)-1])
			if !exprCallIs(e, PkgCorerad, "", "linkStateWatcher") || len(e.Args) != 2 {
				continue
			}
			ctxOK := e.Args[0].Contains(func(x *an.Expr) bool {
				return x.Op == an.OpCall && x.Fn != nil && x.Fn.String() == "golang.org/x/sync/errgroup.WithContext"
			})
			chOK := e.Args[1].IsField("watchC")
			fact = fmt.Sprintf("eg.Go(linkStateWatcher(%s, %s))", e.Args[0], e.Args[1])
			okLW = ctxOK && chOK
		}
		c.R.Check(okLW, "R-C10-8", tn+":link-watcher-goroutine", tn, c.pos(task.Pos()), fact,
			"linkStateWatcher(group context, receiver.watchC) runs under the task's errgroup", "a link change no longer ends the task: the interface is not re-initialised")
	}
	// BuildTasks subscribes each interface for LinkDown and hands the channel to its task
	if bt := c.needMethod("R-C10-8", "internal/corerad", "Server", "BuildTasks"); bt != nil {
		fn := c.fname(bt)
		n, bad := 0, ""
		for _, p := range c.pathsO("R-C10-8", bt, an.PathOpts{EmitCut: true}) {
			hasWatcher, tested := false, false
			for _, a := range p.Atoms {
				x, y, op, ok := effCmp(a)
				if ok && exprIsNil(y) && x.IsField("w") {
					tested = true
					hasWatcher = op == token.NEQ
				}
			}
			p.Instrs(func(in ssa.Instruction) {
				ci, ok := in.(ssa.CallInstruction)
				if !ok {
					return
				}
				var ch *an.Expr
				switch {
				case an.CallIs(ci.Common(), PkgCorerad, "", "NewAdvertiser"):
					ch = p.Of(ci.Common().Args[3])
				case an.CallIs(ci.Common(), PkgCorerad, "", "NewMonitor"):
					ch = p.Of(ci.Common().Args[3])
				default:
					return
				}
				n++
				if !tested {
					bad = "task built without testing whether a watcher exists"
					return
				}
				if hasWatcher {
					okSub := exprCallIs(ch, PkgNet, "Watcher", "Subscribe") && len(ch.Args) == 3 && ch.Args[1].IsField("Name") && ch.Args[1].Args[0].Op == an.OpElem
					if k, isC := ch.Args[len(ch.Args)-1].ConstInt(); !okSub || !isC || k != 2 {
						bad = "watch channel = " + ch.String()
					}
				} else if !(exprIsNil(ch) || exprIsZero(ch)) {
					bad = "no watcher, yet watch channel = " + ch.String()
				}
			})
		}
		if bad == "" {
			bad = fmt.Sprintf("%d task construction(s), all given Watcher.Subscribe(this interface's name, LinkDown) when a watcher exists", n)
		}
		c.R.Check(n >= 2 && !strings.HasPrefix(bad, "watch") && !strings.HasPrefix(bad, "no watcher") && !strings.HasPrefix(bad, "task built"), "R-C10-8", fn+":subscribes-link-down", fn, c.pos(bt.Pos()), bad,
			"every advertiser/monitor gets the channel subscribed for its own interface's LinkDown events", "link changes of the interface are not delivered to its task")
	}
	// linkStateWatcher only gives up without waiting when there is no channel
	if lw := c.needFunc("R-C10-8", "internal/corerad", "linkStateWatcher"); lw != nil && len(lw.AnonFuncs) >= 1 {
		cl := lw.AnonFuncs[0]
		okNil := true
		nSel := 0
		for _, p := range c.pathsO("R-C10-8", cl, an.PathOpts{}) {
			if p.Ret == nil {
				continue
			}
			waits := len(selectArmsOf(p)) > 0
			if waits {
				nSel++
			}
			isNilCh, tested := false, false
			for _, a := range p.Atoms {
				x, y, op, ok := effCmp(a)
				if ok && exprIsNil(y) && strings.Contains(x.String(), "watchC") {
					tested = true
					isNilCh = op == token.EQL
				}
			}
			if tested && !isNilCh && !waits {
				okNil = false // a real channel, yet no wait
			}
			if tested && isNilCh && waits {
				okNil = false // waits on a nil channel
			}
		}
		// every event taken from the channel ends the task with ErrLinkChange: none is consumed and dropped
		// (a "drain stale events" loop would discard a link change that arrived while the interface was
		// being dialled — the channel outlives the connections)
		consumed := ""
		var cls []*ssa.Function
		var collect func(f *ssa.Function)
		collect = func(f *ssa.Function) {
			cls = append(cls, f)
			for _, a := range f.AnonFuncs {
				collect(a)
			}
		}
		collect(lw)
		for _, f := range cls {
			for _, p := range c.pathsO("R-C10-8", f, an.PathOpts{EmitCut: true}) {
				took := false
				for _, a := range selectArmsOf(p) {
					if strings.Contains(a.chanExpr, "watchC") {
						took = true
					}
				}
				p.Instrs(func(in ssa.Instruction) {
					if u, ok := in.(*ssa.UnOp); ok && u.Op == token.ARROW && strings.Contains(p.Of(u.X).String(), "watchC") {
						took = true
					}
				})
				if !took {
					continue
				}
				open := true
				for _, a := range p.Atoms {
					if a.Cond.Op == an.OpUnknown && a.Cond.Name == "select.recvOk" && !a.Pos {
						open = false
					}
				}
				ends := p.Ret != nil && len(p.Results) == 1 && p.Results[0].Op == an.OpGlobal && p.Results[0].Name == "system.ErrLinkChange"
				if open && !ends {
					consumed = fmt.Sprintf("%s: a value received from watchC does not end the task (path ends in %s)", c.fname(f), pathKind(p))
				}
			}
		}
		c.R.Check(consumed == "", "R-C10-8", c.fname(lw)+":no-event-consumed-silently", c.fname(lw), c.pos(lw.Pos()), consumed+"",
			"every value received from the link channel (while it is open) makes the watcher return ErrLinkChange", "a link change is swallowed: the task keeps running on a dead interface")
		c.R.Check(okNil && nSel >= 1, "R-C10-8", c.fname(lw)+":waits-when-channel-exists", c.fname(lw), c.pos(lw.Pos()), fmt.Sprintf("%d waiting path(s); nil-channel handling consistent=%v", nSel, okNil),
			"returns at once only for a nil channel; otherwise waits for ctx.Done() or an event", "the link watcher exits immediately although a channel exists")
	}
}


// listenClassifiesBeforeCancel (R-C10-13 / R-C05-6): Listen derives its own
// cancellable context for the interrupt goroutine. Whether a failed read means
// "the task is stopping" is decided by ctx.Err(); that test must come before
// Listen cancels the derived context itself, otherwise every read failure
// looks like a cancellation, Run reports a clean shutdown, the dialer does not
// re-dial and the interface silently stops being served (periodic RAs
// included) while the server keeps running.
func listenClassifiesBeforeCancel(c *Ctx, rule string) {
	l := c.needMethod(rule, "internal/corerad", "listener", "Listen")
	if l == nil {
		return
	}
	fn := c.fname(l)
	isCancel := func(e *an.Expr) bool {
		return e != nil && e.Op == an.OpExtract && e.Idx == 1 && len(e.Args) == 1 && e.Args[0].Op == an.OpCall && e.Args[0].Fn != nil && strings.HasPrefix(e.Args[0].Fn.String(), "context.With")
	}
	n, bad := 0, ""
	for _, p := range c.pathsO(rule, l, an.PathOpts{EmitCut: true}) {
		failed := false
		for _, a := range p.Atoms {
			x, y, op, ok := effCmp(a)
			if ok && exprIsNil(y) && op == token.NEQ {
				if b, idx := stripExtract(x); idx >= 1 && b != nil && exprCallIs(b, PkgCorerad, "listener", "receiveRetry") {
					failed = true
				}
			}
		}
		if !failed {
			continue
		}
		n++
		i, errAt, cancelAt := 0, -1, -1
		p.Instrs(func(in ssa.Instruction) {
			i++
			call, ok := in.(*ssa.Call) // deferred calls run at the return, after the classification
			if !ok {
				return
			}
			cc := call.Common()
			if cc.IsInvoke() && cc.Method.Name() == "Err" && strings.HasSuffix(typeStr(cc.Value.Type()), "context.Context") && errAt < 0 {
				errAt = i
			}
			if !cc.IsInvoke() && isCancel(p.Of(cc.Value)) && cancelAt < 0 {
				cancelAt = i
			}
		})
		if errAt < 0 {
			bad = "a failed read is not classified by ctx.Err() (" + pathKind(p) + ")"
		} else if cancelAt >= 0 && cancelAt < errAt {
			bad = "Listen cancels its own context before it asks ctx.Err() about a failed read"
		}
	}
	c.R.Check(n >= 2 && bad == "", rule, fn+":classifies-before-cancel", fn, c.pos(l.Pos()), fmt.Sprintf("%d path(s) after a failed read; %s", n, bad),
		"a failed read is classified by ctx.Err() before Listen cancels the context it derived", "every receive error is reported as context.Canceled: the task ends as if stopped and is never re-established")
}


// initCancelReturnsErr (R-C10-14 / R-C20-7): when the context ends during the
// dialer's back-off, init returns ctx.Err() itself. Dial recognises a shutdown
// by errors.Is(err, context.Canceled); context.Cause(ctx) (a signal message,
// say) or a re-worded error would turn every stop that lands in the back-off
// into a task failure, and Serve would report an error instead of success.
func initCancelReturnsErr(c *Ctx, rule string) {
	ini := c.needMethod(rule, "internal/system", "Dialer", "init")
	if ini == nil {
		return
	}
	fn := c.fname(ini)
	n, bad := 0, ""
	for _, p := range c.pathsO(rule, ini, an.PathOpts{EmitCut: true}) {
		if p.Ret == nil || len(p.Results) != 2 {
			continue
		}
		done := false
		for _, a := range selectArmsOf(p) {
			if strings.Contains(a.chanExpr, "Done(") {
				done = true
			}
		}
		if !done {
			continue
		}
		n++
		res := p.Results[1]
		ok := res.Op == an.OpCall && res.Fn == nil && res.Name == "Err" && len(res.Args) >= 1 && res.Args[0].Op == an.OpParam
		if !ok {
			bad = "on cancellation init returns " + shortExpr(res)
		}
	}
	c.R.Check(n >= 1 && bad == "", rule, fn+":cancel-returns-ctx-err", fn, c.pos(ini.Pos()), fmt.Sprintf("%d cancellation path(s); %s", n, bad),
		"the ctx.Done() arm of the back-off returns ctx.Err()", "a stop during the dial back-off is reported as a task failure (Dial only maps context.Canceled to a clean return)")
}

// onlyWatcherReceivesChanges (R-C10-4): a link change is consumed only by the
// goroutine that turns it into ErrLinkChange. Any other receive on a
// netstate.Change channel in package corerad (draining "stale" events after a
// dial, peeking) can swallow the event that belongs to the connection just
// opened: the task then stays on a socket whose link has changed.
func onlyWatcherReceivesChanges(c *Ctx, rule string) {
	isChangeCh := func(t types.Type) bool {
		ch, ok := t.Underlying().(*types.Chan)
		if !ok {
			return false
		}
		n, ok := ch.Elem().(*types.Named)
		return ok && n.Obj().Pkg() != nil && n.Obj().Pkg().Path() == PkgNet && n.Obj().Name() == "Change"
	}
	returnsLinkChange := func(f *ssa.Function) bool {
		for _, b := range f.Blocks {
			for _, in := range b.Instrs {
				if u, ok := in.(*ssa.UnOp); ok && u.Op == token.MUL {
					if g, ok := u.X.(*ssa.Global); ok && g.Name() == "ErrLinkChange" {
						return true
					}
				}
			}
		}
		return false
	}
	n := 0
	for _, f := range c.srcFuncs() {
		if f.Pkg == nil || f.Pkg.Pkg.Path() != PkgCorerad {
			continue
		}
		for _, b := range f.Blocks {
			for _, in := range b.Instrs {
				var at token.Pos
				recv := false
				switch x := in.(type) {
				case *ssa.UnOp:
					if x.Op == token.ARROW && isChangeCh(x.X.Type()) {
						recv, at = true, x.Pos()
					}
				case *ssa.Select:
					for _, st := range x.States {
						if st.Dir == types.RecvOnly && isChangeCh(st.Chan.Type()) {
							recv, at = true, x.Pos()
						}
					}
				}
				if !recv {
					continue
				}
				n++
				c.R.Check(returnsLinkChange(f), rule, c.fname(f)+":receives-link-changes", c.fname(f), c.pos(at), "receive on a netstate.Change channel in "+c.fname(f),
					"link changes are received only by the watcher goroutine, which reports ErrLinkChange", "a link change is consumed without stopping the task: the interface stays half-alive on its old socket")
			}
		}
	}
	c.R.Check(n >= 1, rule, "corerad:change-receives", "", "", fmt.Sprintf("%d receive(s) on a Change channel", n), ">= 1", "anchor-missing")
}

// exhaustionIsBareSentinel (R-C10-15): when receiveRetry gives up after its
// retry budget it returns errRetriesExhausted and nothing else in the chain.
// Dialer.init classifies an error by what its chain contains (a non-permission
// *os.SyscallError is recoverable): an exhaustion error that also wraps the
// last timeout inherits that timeout's classification, and a socket that only
// ever times out is re-dialled for ever instead of ending the task with a
// reported error.
func exhaustionIsBareSentinel(c *Ctx, rule string) {
	rr := c.needMethod(rule, "internal/corerad", "listener", "receiveRetry")
	if rr == nil {
		return
	}
	fn := c.fname(rr)
	n := 0
	isSentinel := func(x *an.Expr) bool { return x.Op == an.OpGlobal && x.Name == "corerad.errRetriesExhausted" }
	for _, p := range c.pathsO(rule, rr, an.PathOpts{}) {
		if p.Ret == nil || len(p.Results) != 3 {
			continue
		}
		res := p.Results[2]
		has, others := false, []string{}
		res.Walk(func(x *an.Expr) bool {
			if isSentinel(x) {
				has = true
				return false
			}
			if x != res && x.Typ != nil && typeStr(x.Typ) == "error" && !exprIsNil(x) {
				others = append(others, shortElem(x))
				return false
			}
			return true
		})
		if !has {
			continue
		}
		n++
		c.R.Check(len(others) == 0, rule, fn+":exhaustion-is-the-sentinel-alone", fn, c.pos(p.Ret.Pos()),
			fmt.Sprintf("returns %s (other errors in the chain: %v)", res, others),
			"the exhausted retry budget is reported as errRetriesExhausted with no other error in its chain",
			"the dialer classifies the exhaustion by the wrapped timeout (a system-call error is recoverable): the task is re-dialled for ever instead of ending with a reported error")
	}
	c.R.Check(n >= 1, rule, fn+":exhaustion-return", fn, c.pos(rr.Pos()), fmt.Sprintf("%d return path(s) with errRetriesExhausted", n), ">= 1", "anchor-missing")
}
