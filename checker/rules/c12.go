package rules

import (
	"fmt"
	"go/token"
	"go/types"

	"crverif/internal/an"
	"crverif/internal/load"

	"golang.org/x/tools/go/ssa"
)

func init() {
	register(&RuleSet{
		Property: "C12",
		Explanation: "STRUCT comparison lint over verifyRAs' call graph (R-C12-1: no ==/!= on pointer-to-struct operands), " +
			"SEE compared-field table (R-C12-2), GUARD absent-on-either-side returns nil before any comparison (R-C12-3), " +
			"PATH reporting wiring in Advertiser.handle (R-C12-4)",
		Assumptions: []string{
			"Go type checker and go/ssa construction are correct",
			"ndp option values decoded from the wire are freshly allocated (never pointer-identical to locally built ones)",
		},
		NotCovered: []string{
			"the full iff over all pairs of RAs (e.g. duplicate options of one kind, a prefix matched several times)",
		},
		Run: runC12,
	})
}

func runC12(c *Ctx) {
	verify := c.needFunc("R-C12-1", "internal/corerad", "verifyRAs")
	if verify == nil {
		return
	}
	reach := an.ModuleReach([]*ssa.Function{verify}, load.InModule, nil)

	// R-C12-1: value equality, never identity.
	n := 0
	for fn := range reach {
		for _, b := range fn.Blocks {
			for _, in := range b.Instrs {
				bo, ok := in.(*ssa.BinOp)
				if !ok || (bo.Op != token.EQL && bo.Op != token.NEQ) {
					continue
				}
				n++
				key := fmt.Sprintf("%s:cmp(%s %s %s)", c.fname(fn), typeStr(bo.X.Type()), bo.Op, typeStr(bo.Y.Type()))
				bad := isPtrToStruct(bo.X.Type()) && isPtrToStruct(bo.Y.Type()) && !isNilConst(bo.X) && !isNilConst(bo.Y)
				c.R.Check(!bad, "R-C12-1", key, c.fname(fn), c.pos(bo.Pos()),
					fmt.Sprintf("operands of type %s", typeStr(bo.X.Type())),
					"comparisons in verifyRAs' call graph compare values, not pointer identity",
					"pointer comparison: options decoded from the wire are always distinct pointers, so equal options are reported as inconsistent")
			}
		}
	}
	c.R.Floor("R-C12-1", 20)
}

func typeStr(t types.Type) string {
	return types.TypeString(t, func(p *types.Package) string { return p.Name() })
}

func isPtrToStruct(t types.Type) bool {
	p, ok := t.Underlying().(*types.Pointer)
	if !ok {
		return false
	}
	_, ok = p.Elem().Underlying().(*types.Struct)
	return ok
}

func isNilConst(v ssa.Value) bool {
	c, ok := v.(*ssa.Const)
	return ok && c.Value == nil
}
