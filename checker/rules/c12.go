package rules

import (
	"fmt"
	"go/token"
	"go/types"
	"strings"

	"crverif/internal/an"
	"crverif/internal/load"

	"golang.org/x/tools/go/ssa"
)

func init() {
	register(&RuleSet{
		Property: "C12",
		Explanation: "STRUCT comparison lint over verifyRAs' call graph (R-C12-1: no ==/!= on pointer-to-struct operands), " +
			"SEE compared-field table (R-C12-2), GUARD absent-on-either-side returns nil before any comparison (R-C12-3), " +
			"PATH reporting wiring in Advertiser.handle (R-C12-4) R-C12-5 also covers DNSSL names (stored in wire form by the parser); R-C12-6 a lifetime inconsistency is reported only after equal Prefix and PrefixLength (and Preference for routes) were established for the pair; R-C12-7 in checkPrefixes/checkRoutes an iteration that matched a pair continues the same loop (no break/return after the first match). R-C12-4 also: an RA-arm path of handle without a verifyRAs call is a path on which buildRA failed.",
		Assumptions: []string{
			"Go type checker and go/ssa construction are correct",
			"ndp option values decoded from the wire are freshly allocated (never pointer-identical to locally built ones)",
		},
		NotCovered: []string{
			"the full iff over all pairs of RAs (e.g. duplicate options of one kind, a prefix matched several times)",
		},
		Run: runC12,
	})
}

func runC12(c *Ctx) {
	verify := c.needFunc("R-C12-1", "internal/corerad", "verifyRAs")
	if verify == nil {
		return
	}
	reach := an.ModuleReach([]*ssa.Function{verify}, load.InModule, nil)

	// R-C12-1: value equality, never identity.
	n := 0
	for fn := range reach {
		for _, b := range fn.Blocks {
			for _, in := range b.Instrs {
				bo, ok := in.(*ssa.BinOp)
				if !ok || (bo.Op != token.EQL && bo.Op != token.NEQ) {
					continue
				}
				n++
				key := fmt.Sprintf("%s:cmp(%s %s %s)", c.fname(fn), typeStr(bo.X.Type()), bo.Op, typeStr(bo.Y.Type()))
				bad := isPtrToStruct(bo.X.Type()) && isPtrToStruct(bo.Y.Type()) && !isNilConst(bo.X) && !isNilConst(bo.Y)
				c.R.Check(!bad, "R-C12-1", key, c.fname(fn), c.pos(bo.Pos()),
					fmt.Sprintf("operands of type %s", typeStr(bo.X.Type())),
					"comparisons in verifyRAs' call graph compare values, not pointer identity",
					"pointer comparison: options decoded from the wire are always distinct pointers, so equal options are reported as inconsistent")
			}
		}
	}
	c.R.Floor("R-C12-1", 20)
	c12Fields(c, reach)
	c12Identity(c)
	dnsslNames(c, "R-C12-5")
	c12NoEarlyExit(c, reach)
	c12Granularity(c, reach)
	c12Absent(c)
	c12Report(c)
}

// sideOf walks an expression down to the parameter of a check* function that
// it is derived from and returns the parameter index (-1 if none / mixed).
func sideOf(e *an.Expr) int {
	side := -2
	e.Walk(func(x *an.Expr) bool {
		if x.Op == an.OpParam {
			if side == -2 {
				side = x.Idx
			} else if side != x.Idx {
				side = -1
			}
		}
		return true
	})
	if side == -2 {
		return -1
	}
	return side
}

// terminalField names what is compared: the last field selected, or len(field), or "param".
func terminalField(e *an.Expr) string {
	switch e.Op {
	case an.OpField:
		return e.Name
	case an.OpLen:
		return "len(" + terminalField(e.Args[0]) + ")"
	case an.OpElem:
		return terminalField(e.Args[0]) + "[]"
	case an.OpParam:
		return "param"
	case an.OpCall:
		if e.Fn != nil && (e.Fn.String() == "(time.Duration).Truncate" || e.Fn.String() == "(time.Duration).Round") && len(e.Args) == 2 {
			return terminalField(e.Args[0])
		}
		if len(e.Args) > 0 {
			return "options"
		}
	case an.OpExtract:
		return terminalField(e.Args[0])
	}
	return "?"
}

// truncationUnits lists the constant units of the Truncate/Round calls that
// feed the equality a two-duration comparison helper returns (helpers it calls
// are looked through).
func truncationUnits(c *Ctx, f *ssa.Function) []int64 {
	var units []int64
	seen := map[string]bool{}
	for _, p := range c.pathsO("R-C12-2", f, an.PathOpts{}) {
		if p.Ret == nil || len(p.Results) != 1 {
			continue
		}
		res := p.Results[0]
		if res.Op != an.OpBin || (res.Tok != token.EQL && res.Tok != token.NEQ) {
			continue
		}
		res.Walk(func(e *an.Expr) bool {
			if e.Op == an.OpCall && e.Fn != nil && (e.Fn.String() == "(time.Duration).Truncate" || e.Fn.String() == "(time.Duration).Round") && len(e.Args) == 2 {
				k, isC := e.Args[1].ConstInt()
				if !isC {
					k = -1
				}
				if !seen[e.String()] {
					seen[e.String()] = true
					units = append(units, k)
				}
			}
			return true
		})
	}
	return units
}

func c12Fields(c *Ctx, reach map[*ssa.Function]bool) {
	want := map[string][]string{
		"corerad.checkRAs":           {"CurrentHopLimit", "ManagedConfiguration", "OtherConfiguration"},
		"corerad.checkDurations":     {"param"},
		"corerad.sameSeconds":        {"param"},
		"corerad.checkMTUs":          {"MTU"},
		"corerad.checkPrefixes":      {"Prefix", "PrefixLength", "PreferredLifetime", "ValidLifetime"},
		"corerad.checkRoutes":        {"Prefix", "PrefixLength", "Preference", "RouteLifetime"},
		"corerad.checkRDNSS":         {"len(options)", "Lifetime", "len(Servers)", "Servers[]"},
		"corerad.checkDNSSL":         {"len(options)", "Lifetime", "len(DomainNames)", "DomainNames[]"},
		"corerad.checkCaptivePortal": {"URI"},
	}
	for fn := range reach {
		name := c.fname(fn)
		w, ok := want[name]
		if !ok {
			continue
		}
		got := map[string]bool{}
		for _, b := range fn.Blocks {
			for _, in := range b.Instrs {
				bo, isBO := in.(*ssa.BinOp)
				if !isBO || (bo.Op != token.EQL && bo.Op != token.NEQ) {
					continue
				}
				x, y := c.XO.Of(bo.X), c.XO.Of(bo.Y)
				if x.Op == an.OpConst || y.Op == an.OpConst {
					// zero tests of checkDurations / len == 0 guards: owned by R-C12-3
					continue
				}
				sx, sy := sideOf(x), sideOf(y)
				fx, fy := terminalField(x), terminalField(y)
				okSides := sx >= 0 && sy >= 0 && sx != sy
				okField := fx == fy
				got[fx] = true
				c.R.Check(okSides && okField, "R-C12-2", fmt.Sprintf("%s:compares:%s", name, fx), name, c.pos(bo.Pos()),
					fmt.Sprintf("%s (side %d) %s %s (side %d)", x, sx, bo.Op, y, sy), "one operand from each RA, the same field on both sides",
					"a field of one RA is compared with itself or with a different field of the other RA")
			}
		}
		// comparisons delegated to a two-argument boolean helper (checkDurations, sameSeconds, …)
		for _, ci := range an.CallsIn(fn) {
			callee := an.StaticCallee(ci.Common())
			if callee == nil || !load.InModule(callee) || len(ci.Common().Args) != 2 || callee.Signature.Results().Len() != 1 ||
				typeStr(callee.Signature.Results().At(0).Type()) != "bool" || name == "corerad.checkRAs" {
				continue
			}
			x, y := c.XO.Of(ci.Common().Args[0]), c.XO.Of(ci.Common().Args[1])
			sx, sy := sideOf(x), sideOf(y)
			fx, fy := terminalField(x), terminalField(y)
			got[fx] = true
			c.R.Check(sx >= 0 && sy >= 0 && sx != sy && fx == fy, "R-C12-2", fmt.Sprintf("%s:compares:%s", name, fx), name, c.pos(ci.Pos()),
				fmt.Sprintf("%s(%s (side %d), %s (side %d))", c.fname(callee), x, sx, y, sy), "one operand from each RA, the same field on both sides",
				"a field of one RA is compared with itself or with a different field of the other RA")
		}
		// slices.Equal(x.F, y.F) compares the lengths and every element pair
		for _, ci := range an.CallsIn(fn) {
			fo := an.CalleeObj(ci.Common())
			if fo == nil || fo.Pkg() == nil || fo.Pkg().Path() != "slices" || fo.Name() != "Equal" || len(ci.Common().Args) != 2 {
				continue
			}
			x, y := c.XO.Of(ci.Common().Args[0]), c.XO.Of(ci.Common().Args[1])
			sx, sy := sideOf(x), sideOf(y)
			fx, fy := terminalField(x), terminalField(y)
			got["len("+fx+")"] = true
			got[fx+"[]"] = true
			c.R.Check(sx >= 0 && sy >= 0 && sx != sy && fx == fy, "R-C12-2", fmt.Sprintf("%s:compares:%s[]", name, fx), name, c.pos(ci.Pos()),
				fmt.Sprintf("slices.Equal(%s (side %d), %s (side %d))", x, sx, y, sy), "one operand from each RA, the same field on both sides",
				"a field of one RA is compared with itself or with a different field of the other RA")
		}
		var gk []string
		for k := range got {
			gk = append(gk, k)
		}
		c.R.Check(sameSet(gk, w), "R-C12-2", name+":compared-fields", name, c.pos(fn.Pos()), fmt.Sprintf("compares %v", keysOf(got)), fmt.Sprintf("exactly %v", w),
			"the set of compared fields differs from RFC 4861 6.2.7 and the documented extensions (a field dropped or added)")
	}
	c.R.Floor("R-C12-2", 25)
	// label ↔ field pairing of every push call
	labels := map[string]string{
		`"hop_limit"`: "CurrentHopLimit", `"managed_configuration"`: "ManagedConfiguration", `"other_configuration"`: "OtherConfiguration",
		`"reachable_time"`: "ReachableTime", `"retransmit_timer"`: "RetransmitTimer", `"mtu"`: "MTU",
		`"prefix_information_preferred_lifetime"`: "PreferredLifetime", `"prefix_information_valid_lifetime"`: "ValidLifetime",
		`"route_information_lifetime"`: "RouteLifetime", `"rdnss_count"`: "len", `"rdnss_lifetime"`: "Lifetime", `"rdnss_servers"`: "Servers",
		`"dnssl_count"`: "len", `"dnssl_lifetime"`: "Lifetime", `"dnssl_domain_names"`: "DomainNames", `"captive_portal"`: "URI",
	}
	seen := map[string]bool{}
	for fn := range reach {
		for _, ci := range an.CallsIn(fn) {
			if !an.CallIs(ci.Common(), PkgCorerad, "problems", "push") {
				continue
			}
			args := ci.Common().Args
			lbl := c.XO.Of(args[1])
			wantE, gotE := c.XO.Of(args[3]), c.XO.Of(args[4])
			field, known := labels[lbl.String()]
			seen[lbl.String()] = true
			ok := known && sideOf(wantE) == 0 && sideOf(gotE) == 1 &&
				(strings.Contains(wantE.String(), field) || field == "len") && (strings.Contains(gotE.String(), field) || field == "len")
			if field == "len" {
				ok = ok && wantE.Op == an.OpLen && gotE.Op == an.OpLen
			}
			c.R.Check(ok, "R-C12-2", fmt.Sprintf("%s:push:%s", c.fname(fn), lbl), c.fname(fn), c.pos(ci.Pos()), fmt.Sprintf("push(%s, want=%s, got=%s)", lbl, wantE, gotE),
				"want from our RA, got from the received RA, both the field the label names", "an inconsistency is reported under the wrong label or with swapped/foreign values")
		}
	}
	for l := range labels {
		c.R.Check(seen[l], "R-C12-2", "corerad.verify:label:"+l, "", "", fmt.Sprintf("push site for %s: %v", l, seen[l]), "every documented inconsistency kind is reported", "a documented inconsistency is never reported")
	}
	// checkDurations: consistent when either is zero
	if f := c.P.Func("internal/corerad", "checkDurations"); f != nil {
		okZero, okEq := 0, false
		for _, p := range c.pathsO("R-C12-2", f, an.PathOpts{}) {
			if p.Ret == nil {
				continue
			}
			zero := false
			for _, a := range p.Atoms {
				x, y, op, ok := effCmp(a)
				if ok && op == token.EQL && (x.Op == an.OpParam || (x.Op == an.OpCall && x.Fn != nil && x.Fn.String() == "(time.Duration).Truncate" && x.Args[0].Op == an.OpParam)) {
					if k, isC := y.ConstInt(); isC && k == 0 {
						zero = true
					}
				}
			}
			if zero && p.Results[0].IsConst("true") {
				okZero++
			}
			if !zero && p.Results[0].Op == an.OpBin && p.Results[0].Tok == token.EQL {
				okEq = true
			}
		}
		// granularity: the two timers travel as whole milliseconds; what is compared is each side truncated to
		// exactly that unit (a coarser unit hides real differences, a finer one reports differences that do not
		// exist on the wire)
		units := truncationUnits(c, f)
		okUnit := len(units) > 0
		for _, u := range units {
			if u != 1000000 {
				okUnit = false
			}
		}
		c.R.Check(okUnit, "R-C12-2", c.fname(f)+":wire-granularity", c.fname(f), c.pos(f.Pos()), fmt.Sprintf("operands of the comparison are truncated to %v ns", units),
			"reachable/retransmit timers are compared as whole milliseconds", "timers that differ on the wire by less than the comparison unit are not reported (or equal ones are)")
		c.R.Check(okZero == 2 && okEq, "R-C12-2", c.fname(f)+":unspecified-is-consistent", c.fname(f), c.pos(f.Pos()), fmt.Sprintf("zero on either side ⇒ true: %d arm(s); otherwise want == got: %v", okZero, okEq),
			"timers are compared only when both are non-zero", "an unspecified (0) timer is reported as inconsistent")
	}
	if f := c.P.Func("internal/corerad", "sameSeconds"); f != nil {
		units := truncationUnits(c, f)
		okUnit := len(units) > 0
		for _, u := range units {
			if u != 1000000000 {
				okUnit = false
			}
		}
		c.R.Check(okUnit, "R-C12-2", c.fname(f)+":wire-granularity", c.fname(f), c.pos(f.Pos()), fmt.Sprintf("operands of the comparison are truncated to %v ns", units),
			"lifetimes are compared as whole seconds", "lifetimes that differ on the wire are not reported, or an RA equal to our own after a wire round trip is")
	}
	// the helper is applied to the like-named timers of both RAs
	if f := c.P.Func("internal/corerad", "checkRAs"); f != nil {
		for _, ci := range an.CallsIn(f) {
			if an.CallIs(ci.Common(), PkgCorerad, "", "checkDurations") {
				a, b := c.XO.Of(ci.Common().Args[0]), c.XO.Of(ci.Common().Args[1])
				ok := a.Op == an.OpField && b.Op == an.OpField && a.Name == b.Name && sideOf(a) == 0 && sideOf(b) == 1 && (a.Name == "ReachableTime" || a.Name == "RetransmitTimer")
				c.R.Check(ok, "R-C12-2", c.fname(f)+":timer:"+a.Name, c.fname(f), c.pos(ci.Pos()), fmt.Sprintf("checkDurations(%s, %s)", a, b), "checkDurations(a.X, b.X) for X in ReachableTime, RetransmitTimer", "timers compared crosswise")
			}
		}
	}
}

func c12Absent(c *Ctx) {
	n := 0
	for _, name := range []string{"checkMTUs", "checkPrefixes", "checkRoutes", "checkRDNSS", "checkDNSSL", "checkCaptivePortal"} {
		f := c.needFunc("R-C12-3", "internal/corerad", name)
		if f == nil {
			continue
		}
		absentSeen := map[int]bool{}
		for _, p := range c.pathsO("R-C12-3", f, an.PathOpts{EmitCut: true}) {
			// absent on side s: len(pick(param s)) == 0  or  !pickFirst(param s)#1
			absent := -1
			for _, a := range p.Atoms {
				x, y, op, ok := effCmp(a)
				if ok && x.Op == an.OpLen && op == token.EQL {
					if k, isC := y.ConstInt(); isC && k == 0 {
						absent = sideOf(x)
					}
				}
				if !a.Pos && a.Cond.Op == an.OpExtract && a.Cond.Idx == 1 {
					absent = sideOf(a.Cond)
				}
			}
			if absent < 0 {
				continue
			}
			absentSeen[absent] = true
			pushes := callsOnPath(p, func(cc *ssa.CallCommon) bool { return an.CallIs(cc, PkgCorerad, "problems", "push") })
			ok := p.Ret != nil && (exprIsNil(p.Results[0]) || exprIsZero(p.Results[0])) && len(pushes) == 0
			n++
			c.R.Check(ok, "R-C12-3", fmt.Sprintf("corerad.%s:absent-side-%d", name, absent), "corerad."+name, c.pos(f.Pos()), fmt.Sprintf("ends in %s with %d push(es), returns %v", pathKind(p), len(pushes), exprStrings(p.Results)),
				"nothing is reported for an option absent on either side", "an option missing from one RA is reported as an inconsistency")
		}
		c.R.Check(absentSeen[0] && absentSeen[1], "R-C12-3", "corerad."+name+":tests-both-sides", "corerad."+name, c.pos(f.Pos()), fmt.Sprintf("absence tested on our side: %v, their side: %v", absentSeen[0], absentSeen[1]),
			"absence is tested on both sides before comparing", "comparison runs (or panics) when one side lacks the option")
	}
	c.R.Check(n >= 12, "R-C12-3", "corerad.verify:absent-paths", "", "", fmt.Sprintf("%d absent path(s)", n), ">= 12", "anchor-missing")
}

func c12Report(c *Ctx) {
	h := c.needMethod("R-C12-4", "internal/corerad", "Advertiser", "handle")
	if h == nil {
		return
	}
	fn := c.fname(h)
	for _, p := range c.pathsO("R-C12-4", h, an.PathOpts{EmitCut: true}) {
		if !strings.HasSuffix(typeSwitchArm(p), "RouterAdvertisement") {
			continue
		}
		// verifyRAs(want, m) with want = buildRA(a.cfg)#0
		vs := callsOnPath(p, func(cc *ssa.CallCommon) bool { return an.CallIs(cc, PkgCorerad, "", "verifyRAs") })
		empty, tested := false, false
		for _, a := range p.Atoms {
			x, y, op, ok := effCmp(a)
			if ok && x.Op == an.OpLen && exprCallIs(x.Args[0], PkgCorerad, "", "verifyRAs") {
				if k, isC := y.ConstInt(); isC && k == 0 {
					tested = true
					empty = op == token.EQL
				}
			}
		}
		ems := metricEmits(p)["AdvRouterAdvertisementInconsistenciesTotal"]
		var hooks []ssa.CallInstruction
		p.Instrs(func(in ssa.Instruction) {
			if ci, ok := in.(ssa.CallInstruction); ok {
				if _, ok := fieldLoadCall(ci.Common(), PkgCorerad, "Advertiser", "OnInconsistentRA"); ok {
					hooks = append(hooks, ci)
				}
			}
		})
		if len(vs) == 0 {
			// only a failure to build our own RA excuses a received RA from verification
			buildFailed := false
			for _, a := range p.Atoms {
				x, y, op, ok := effCmp(a)
				if !ok || !exprIsNil(y) || op != token.NEQ {
					continue
				}
				if b, i := stripExtract(x); i == 1 && exprCallIs(b, PkgCorerad, "Advertiser", "buildRA") {
					buildFailed = true
				}
			}
			c.R.Check(buildFailed, "R-C12-4", fn+":every-received-ra-verified@"+pathShape(p), fn, c.pos(h.Pos()), "a received router advertisement leaves handle without verifyRAs although buildRA succeeded", "every received RA is compared with our own unless ours cannot be built", "inconsistencies of some received RAs are never reported")
			c.R.Check(len(ems) == 0 && len(hooks) == 0, "R-C12-4", fn+":no-verdict-without-own-ra@"+pathShape(p), fn, c.pos(h.Pos()), fmt.Sprintf("%d counter(s), %d hook(s) without a verification", len(ems), len(hooks)), "nothing reported when our own RA cannot be built", "report without verification")
			continue
		}
		want := p.Of(vs[0].Common().Args[0])
		b, i := stripExtract(want)
		okWant := i == 0 && exprCallIs(b, PkgCorerad, "Advertiser", "buildRA") && b.Args[1].IsField("cfg")
		okTheirs := p.Of(vs[0].Common().Args[1]).Op == an.OpExtract
		if !tested {
			c.R.Fail("R-C12-4", fn+":verdict-untested@"+pathShape(p), fn, c.pos(h.Pos()), "len(problems) not tested", "reporting depends on len(problems)", "reporting not conditioned on the verdict")
			continue
		}
		if empty {
			logs := callsOnPath(p, func(cc *ssa.CallCommon) bool { return an.CallIs(cc, PkgCorerad, "Advertiser", "logf") })
			c.R.Check(okWant && okTheirs && len(ems) == 0 && len(hooks) == 0 && len(logs) == 0, "R-C12-4", fn+":consistent-is-silent", fn, c.pos(h.Pos()), fmt.Sprintf("%d counter(s), %d hook(s), %d log line(s); want=%s", len(ems), len(hooks), len(logs), want),
				"a consistent RA produces no log, counter or hook", "a consistent RA is reported")
			continue
		}
		// inconsistent: loop body path has exactly one emission per problem; tail path fires the hook once iff non-nil
		hookNonNil, hookTested := false, false
		for _, a := range p.Atoms {
			x, y, op, ok := effCmp(a)
			if ok && x.IsField("OnInconsistentRA") && exprIsNil(y) {
				hookTested = true
				hookNonNil = op == token.NEQ
			}
		}
		if p.Cut {
			ok := len(ems) == 1 && len(hooks) == 0
			fact := fmt.Sprintf("%d counter emission(s) per problem", len(ems))
			if ok {
				args := ems[0].Common().Args
				l := p.Of(args[1])
				ok = l.Op == an.OpStruct && len(l.Args) == 3 && l.Args[0].IsField("Name") && l.Args[1].IsField("Details") && l.Args[1].Args[0].Op == an.OpElem && l.Args[2].IsField("Field") && l.Args[2].Args[0].Op == an.OpElem
				fact += "; labels " + l.String()
			}
			c.R.Check(ok, "R-C12-4", fn+":one-count-per-problem", fn, c.pos(h.Pos()), fact, "exactly one AdvRouterAdvertisementInconsistenciesTotal(1, cfg.Name, p.Details, p.Field) per problem", "inconsistencies are counted under the wrong labels or not once each")
			continue
		}
		if p.Ret != nil && hookTested {
			wantHooks := 0
			if hookNonNil {
				wantHooks = 1
			}
			ok := len(hooks) == wantHooks
			if ok && wantHooks == 1 {
				a0, a1 := p.Of(hooks[0].Common().Args[0]), p.Of(hooks[0].Common().Args[1])
				ok = sameValue(a0, want) && a1.Op == an.OpExtract
			}
			c.R.Check(ok, "R-C12-4", fmt.Sprintf("%s:hook@set=%v", fn, hookNonNil), fn, c.pos(p.Ret.Pos()), fmt.Sprintf("%d hook call(s)", len(hooks)), "the hook fires exactly once iff it is set and there is at least one problem, with (ours, theirs)", "notification hook fired wrongly")
		}
	}
	c.R.Floor("R-C12-4", 4)
}

func typeStr(t types.Type) string {
	return types.TypeString(t, func(p *types.Package) string { return p.Name() })
}

func isPtrToStruct(t types.Type) bool {
	p, ok := t.Underlying().(*types.Pointer)
	if !ok {
		return false
	}
	_, ok = p.Elem().Underlying().(*types.Struct)
	return ok
}

func isNilConst(v ssa.Value) bool {
	c, ok := v.(*ssa.Const)
	return ok && c.Value == nil
}

// c12Granularity (R-C12-5): durations are compared as they appear on the wire.
// Every ==/!= between time.Duration values in verifyRAs' call graph has each
// non-constant operand truncated to the wire unit first (1s for option
// lifetimes, 1ms for the two timers), so that an RA equal to ours after a wire
// round trip — which truncates — is not reported.
func c12Granularity(c *Ctx, reach map[*ssa.Function]bool) {
	n := 0
	for fn := range reach {
		name := c.fname(fn)
		for _, b := range fn.Blocks {
			for _, in := range b.Instrs {
				bo, ok := in.(*ssa.BinOp)
				if !ok || (bo.Op != token.EQL && bo.Op != token.NEQ) || !strings.HasSuffix(typeStr(bo.X.Type()), "time.Duration") {
					continue
				}
				n++
				for side, v := range []ssa.Value{bo.X, bo.Y} {
					if _, isC := v.(*ssa.Const); isC {
						continue
					}
					e := c.XO.Of(v)
					unit := int64(-1)
					what := terminalField(e)
					for _, alt := range e.Alts() {
						if alt.Op == an.OpCall && alt.Fn != nil && alt.Fn.String() == "(time.Duration).Truncate" && len(alt.Args) == 2 {
							if k, isC := alt.Args[1].ConstInt(); isC {
								unit = k
							}
						} else {
							unit = -1
							break
						}
					}
					// which unit does the wire use for this value?
					want := int64(1000000000)
					for _, ci := range callersPassing(c, fn, v) {
						if strings.Contains(ci, "ReachableTime") || strings.Contains(ci, "RetransmitTimer") {
							want = 1000000
						}
					}
					if what == "ReachableTime" || what == "RetransmitTimer" {
						want = 1000000
					}
					c.R.Check(unit == want, "R-C12-5", fmt.Sprintf("%s:wire-granularity:%s#%d", name, what, side), name, c.pos(bo.Pos()),
						fmt.Sprintf("operand %s (truncation unit %dns)", e, unit), fmt.Sprintf("operand truncated to the wire unit (%dns) before comparison", want),
						"a configured sub-unit duration (e.g. valid_lifetime=\"90500ms\") differs from its own wire image: another CoreRAD router with the identical configuration is reported inconsistent")
				}
			}
		}
	}
	c.R.Check(n >= 2, "R-C12-5", "corerad.verify:duration-comparisons", "", "", fmt.Sprintf("%d duration comparison(s)", n), ">= 2", "anchor-missing")
}

// callersPassing renders, for a helper fn whose parameter (possibly truncated)
// is v's root, the argument expressions its callers pass for that parameter.
func callersPassing(c *Ctx, fn *ssa.Function, v ssa.Value) []string {
	e := c.XO.Of(v)
	idx := -1
	e.Walk(func(x *an.Expr) bool {
		if x.Op == an.OpParam && x.Fn == fn {
			idx = x.Idx
		}
		return true
	})
	if idx < 0 {
		return nil
	}
	var out []string
	for _, s := range an.FindCalls(c.srcFuncs(), func(cc *ssa.CallCommon) bool { return an.StaticCallee(cc) == fn }) {
		if idx < len(s.Common().Args) {
			out = append(out, c.XO.Of(s.Common().Args[idx]).String())
		}
	}
	return out
}

// c12Identity (R-C12-6): lifetimes of a prefix or route are compared only
// between options that describe the same prefix or route: every path that
// reports a lifetime inconsistency has established equal Prefix and
// PrefixLength (and, for routes, equal Preference) for the pair.
func c12Identity(c *Ctx) {
	for _, spec := range []struct {
		fn   string
		need []string
	}{
		{"checkPrefixes", []string{"Prefix", "PrefixLength"}},
		{"checkRoutes", []string{"Prefix", "PrefixLength", "Preference"}},
	} {
		f := c.needFunc("R-C12-6", "internal/corerad", spec.fn)
		if f == nil {
			continue
		}
		fn := c.fname(f)
		n := 0
		for _, p := range c.pathsO("R-C12-6", f, an.PathOpts{EmitCut: true}) {
			pushes := callsOnPath(p, func(cc *ssa.CallCommon) bool { return an.CallIs(cc, PkgCorerad, "problems", "push") })
			if len(pushes) == 0 {
				continue
			}
			n++
			eq := map[string]bool{}
			for _, a := range p.Atoms {
				x, y, op, ok := effCmp(a)
				if !ok || op != token.EQL {
					continue
				}
				fx, fy := terminalField(x), terminalField(y)
				if fx == fy && sideOf(x) >= 0 && sideOf(y) >= 0 && sideOf(x) != sideOf(y) {
					eq[fx] = true
				}
			}
			var missing []string
			for _, k := range spec.need {
				if !eq[k] {
					missing = append(missing, k)
				}
			}
			c.R.Check(len(missing) == 0, "R-C12-6", fn+":reports-only-for-matching-pair@"+lastAtomName(p), fn, c.pos(pushes[0].Pos()),
				fmt.Sprintf("equalities established before the report: %v; missing: %v", keysOf(eq), missing),
				"a lifetime inconsistency is reported only for options with equal "+strings.Join(spec.need, ", "),
				"lifetimes of different prefixes/routes are compared: a consistent router is reported (or the matching pair is skipped)")
		}
		c.R.Check(n >= 1, "R-C12-6", fn+":report-paths", fn, c.pos(f.Pos()), fmt.Sprintf("%d reporting path(s)", n), ">= 1", "anchor-missing")
	}
}


// c12NoEarlyExit (R-C12-7): the pair loops of checkPrefixes and checkRoutes
// visit every pair: an iteration that found a matching pair (equal prefix and
// length) goes on with the next element of the same loop. A `break` or
// `return` after the first match hides an inconsistent later copy of the same
// prefix or route in the received RA.
func c12NoEarlyExit(c *Ctx, reach map[*ssa.Function]bool) {
	n := 0
	for fn := range reach {
		name := c.fname(fn)
		if name != "corerad.checkPrefixes" && name != "corerad.checkRoutes" {
			continue
		}
		isHeader := func(h *ssa.BasicBlock) bool {
			for _, pr := range h.Preds {
				if h.Dominates(pr) {
					return true
				}
			}
			return false
		}
		bad := ""
		for _, p := range c.pathsO("R-C12-7", fn, an.PathOpts{EmitCut: true}) {
			// the pair was matched on this path: Prefix (and PrefixLength) established equal
			var at *ssa.BasicBlock
			for _, a := range p.Atoms {
				x, y, op, ok := effCmp(a)
				if ok && op == token.EQL && x.IsField("Prefix") && y.IsField("Prefix") && a.If != nil {
					at = a.If.Block()
				}
			}
			if at == nil {
				continue
			}
			n++
			// innermost loop header around the match test
			var inner *ssa.BasicBlock
			for _, h := range fn.Blocks {
				if isHeader(h) && h.Dominates(at) && (inner == nil || inner.Dominates(h)) {
					inner = h
				}
			}
			if inner == nil {
				continue
			}
			if !(p.Cut && p.CutTo == inner) {
				bad = fmt.Sprintf("after a matching pair the path %s instead of continuing the pair loop at %s", pathKind(p), c.pos(instrPos(inner.Instrs[len(inner.Instrs)-1])))
			}
		}
		c.R.Check(bad == "", "R-C12-7", name+":every-matching-pair-compared", name, c.pos(fn.Pos()), bad,
			"an iteration that matched a pair continues with the next element of the same loop", "an inconsistent later copy of the same prefix/route in the received RA is never compared")
	}
	c.R.Check(n >= 4, "R-C12-7", "corerad.verify:matching-pair-paths", "", "", fmt.Sprintf("%d path(s) through a matched pair", n), ">= 4", "anchor-missing")
}
