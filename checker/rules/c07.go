package rules

import (
	"fmt"
	"go/constant"
	"go/token"
	"go/types"
	"math/big"
	"strings"

	"crverif/internal/an"

	"golang.org/x/tools/go/ssa"
)

func init() {
	register(&RuleSet{
		Property: "C07",
		Explanation: "SEE/PATH/VSA rules on the advertiser: R-C07-1 handle() returns the solicitation's source (all-nodes for ::) and a zero address otherwise; " +
			"R-C07-2 the listener callback forwards each valid destination exactly once; R-C07-3 every request taken from the channel is handed to exactly one schedgroup.Delay whose closure sends to that iteration's own address; " +
			"R-C07-4 the unicast delay is Int63n(maxRADelay) ns with maxRADelay == 500ms; R-C07-5 no WriteTo is reachable under unicast-only ∧ multicast destination and the destination reaches WriteTo unchanged; " +
			"R-C07-6 counters pair with events: one received-counter per handled message, one transmit-error per failed send, one sent-counter (typed by IsMulticast) per path on which WriteTo was actually executed R-C07-5 suppression is complete: send guards, or every caller of send establishes ¬UnicastOnly or a non-multicast destination; task closures are followed through factories to the Delay call. R-C07-3 also: no function value made in schedule() captures by reference a variable assigned on every loop iteration. R-C07-5 also: a path of send on which WriteTo failed returns an error (sendWorker counts from send's result). R-C07-7 (decided on the scheduler library's own SSA): Schedule's notification of the monitor goroutine cannot be lost (known finding F26: it is a non-blocking send on an unbuffered channel).",
		Assumptions: []string{
			"Go type checker and go/ssa construction are correct",
			"schedgroup.Group.Delay runs its closure exactly once after the delay unless the group context is cancelled first — except for the lost wake-up recorded as known finding F26 (R-C07-7), the one part of this assumption decided on the library's own code",
			"rand.Int63n(n) returns a value in [0,n) for n > 0",
		},
		NotCovered: []string{"the 500 ms bound in real time", "loss when the 16-slot request channel is full", "answers lost to re-initialisation", "goroutine interleavings"},
		Run:        runC07,
	})
}

func runC07(c *Ctx) {
	// the source address reaches handle() without its zone, so that `::%if` is recognised as unspecified
	if l := c.needMethod("R-C07-1", "internal/corerad", "listener", "Listen"); l != nil {
		restore := c.opaque(c.P.Method("internal/corerad", "listener", "receiveRetry"))
		checkListenDelivery(c, "R-C07-1", l, c.pathsO("R-C07-1", l, an.PathOpts{EmitCut: true}))
		restore()
	}
	if cb := listenerCallback(c, "R-C07-1", "Advertiser", "advertise"); cb != nil {
		for _, ci := range an.CallsIn(cb) {
			if an.CallIs(ci.Common(), PkgCorerad, "Advertiser", "handle") {
				m, h := c.XO.Of(ci.Common().Args[1]), c.XO.Of(ci.Common().Args[2])
				c.R.Check(m.IsField("Message") && h.IsField("Host") && h.Args[0].Op == an.OpParam, "R-C07-1", c.fname(cb)+":handle-args", c.fname(cb), c.pos(ci.Pos()), fmt.Sprintf("handle(%s, %s)", m, h), "handle(msg.Message, msg.Host)", "handler sees another source address than the listener delivered")
			}
		}
	}
	c07Handle(c)
	c07Callback(c)
	c07Schedule(c)
	c07Send(c)
	c07SendWorker(c)
	taskOwnsItsVariables(c, "R-C07-3")
	schedulerWakeupLatched(c, "R-C07-7")
}

func c07Handle(c *Ctx) {
	h := c.needMethod("R-C07-1", "internal/corerad", "Advertiser", "handle")
	if h == nil {
		return
	}
	fn := c.fname(h)
	ps := c.pathsO("R-C07-1", h, an.PathOpts{EmitCut: true})
	nRS := 0
	for _, p := range ps {
		if p.Ret == nil {
			continue
		}
		// R-C07-6 (received counter): exactly one per path
		em := metricEmits(p)
		c.R.Check(len(em["AdvMessagesReceivedTotal"]) == 1, "R-C07-6", fn+":received-counter@"+typeSwitchArm(p)+":"+pathShape(p), fn, c.pos(h.Pos()),
			fmt.Sprintf("AdvMessagesReceivedTotal emitted %d time(s)", len(em["AdvMessagesReceivedTotal"])), "exactly once per handled message", "received-by-type counter does not equal the number of validated messages")
		for _, ci := range em["AdvMessagesReceivedTotal"] {
			args := ci.Common().Args
			lbl := p.Of(args[len(args)-1])
			ok := lbl.Contains(func(e *an.Expr) bool { return e.Op == an.OpCall && shortCallName(e) == "String" }) && lbl.Contains(func(e *an.Expr) bool { return e.Op == an.OpCall && shortCallName(e) == "Type" })
			nameOK := lbl.Contains(func(e *an.Expr) bool { return e.IsField("Name") })
			c.R.Check(ok && nameOK, "R-C07-6", fn+":received-counter-labels", fn, c.pos(ci.Pos()), "labels "+lbl.String(), "(a.cfg.Name, m.Type().String())", "received counter labelled with something other than interface and message type")
		}
		arm := typeSwitchArm(p)
		if !strings.HasSuffix(arm, "RouterSolicitation") {
			if exprIsNil(p.Results[1]) {
				c.R.Check(exprIsZero(p.Results[0]), "R-C07-1", fn+":no-destination@"+arm+":"+pathShape(p), fn, c.pos(p.Ret.Pos()),
					"returns "+p.Results[0].String(), "zero Addr for anything but a router solicitation", "a non-solicitation message triggers a router advertisement")
			}
			continue
		}
		nRS++
		unspec, tested := false, false
		for _, a := range p.Atoms {
			e := a.Cond
			if e.Op == an.OpCall && e.Fn != nil && e.Fn.String() == "(net/netip.Addr).IsUnspecified" && e.Args[0].Op == an.OpParam {
				unspec, tested = a.Pos, true
			}
		}
		var ok bool
		want := "the host parameter"
		if unspec {
			want = "netip.IPv6LinkLocalAllNodes()"
			ok = isAllNodesCall(p.Results[0])
		} else {
			ok = p.Results[0].Op == an.OpParam && p.Results[0].Name == "host"
		}
		c.R.Check(ok && tested && exprIsNil(p.Results[1]), "R-C07-1", fmt.Sprintf("%s:rs-destination@unspecified=%v", fn, unspec), fn, c.pos(p.Ret.Pos()),
			fmt.Sprintf("returns (%s, %s)", p.Results[0], p.Results[1]), want+", nil error", "solicitation answered to the wrong destination")
	}
	c.R.Check(nRS == 2, "R-C07-1", fn+":rs-arms", fn, c.pos(h.Pos()), fmt.Sprintf("%d RS path(s)", nRS), "2 (specified source, unspecified source)", "router solicitation handling has an unexpected shape")
}

// listenerCallback finds the closure passed to (*listener).Listen inside the
// goroutines of method typ.loop.
func listenerCallback(c *Ctx, rule, typ, loop string) *ssa.Function {
	adv := c.needMethod(rule, "internal/corerad", typ, loop)
	if adv == nil {
		return nil
	}
	for _, f := range an.WithAnon(adv) {
		for _, ci := range an.CallsIn(f) {
			if an.CallIs(ci.Common(), PkgCorerad, "listener", "Listen") {
				args := ci.Common().Args
				if mc, ok := args[len(args)-1].(*ssa.MakeClosure); ok {
					return mc.Fn.(*ssa.Function)
				}
			}
		}
	}
	c.R.Fail(rule, c.fname(adv)+":listener-callback", c.fname(adv), c.pos(adv.Pos()), "no closure passed to listener.Listen", "", "anchor-missing")
	return nil
}

func c07Callback(c *Ctx) {
	cb := listenerCallback(c, "R-C07-2", "Advertiser", "advertise")
	if cb == nil {
		return
	}
	fn := c.fname(cb)
	ps := c.pathsO("R-C07-2", cb, an.PathOpts{EmitCut: true})
	for _, p := range ps {
		if p.Ret == nil {
			c.R.Fail("R-C07-2", fn+":exit@"+pathShape(p), fn, c.pos(cb.Pos()), "ends in "+pathKind(p), "returns", "callback does not return")
			continue
		}
		sends := sendsOn(p)
		stopped := stoppedBySelect(p)
		failed, valid := false, false
		var hcall *an.Expr
		for _, a := range p.Atoms {
			x, y, op, ok := effCmp(a)
			if ok && exprIsNil(y) {
				if b, idx := stripExtract(x); idx == 1 && exprCallIs(b, PkgCorerad, "Advertiser", "handle") {
					failed = op == token.NEQ
					hcall = b
				}
			}
			if a.Cond.Op == an.OpCall && a.Cond.Fn != nil && a.Cond.Fn.String() == "(net/netip.Addr).IsValid" {
				valid = a.Pos
				if b, idx := stripExtract(a.Cond.Args[0]); idx == 0 {
					hcall = b
				}
			}
		}
		key := fmt.Sprintf("%s:forward@error=%v,valid=%v", fn, failed, valid)
		switch {
		case failed:
			c.R.Check(len(sends) == 0 && !exprIsNil(p.Results[0]), "R-C07-2", key, fn, c.pos(p.Ret.Pos()), fmt.Sprintf("%d send(s), returns %s", len(sends), p.Results[0]),
				"a handler error is returned and nothing is requested", "handler failure swallowed")
		case valid && stopped:
			// the task is stopping: the request is abandoned
			key += ",stopping"
			c.R.Check(len(sends) == 0 && exprIsNil(p.Results[0]), "R-C07-2", key, fn, c.pos(p.Ret.Pos()), fmt.Sprintf("%d send(s), returns %s", len(sends), p.Results[0]),
				"a request abandoned because ctx is done sends nothing and reports no error", "a stopping listener reports a spurious error")
		case valid:
			ok := len(sends) == 1
			if ok {
				v := p.Of(sends[0].X)
				b, idx := stripExtract(v)
				ok = idx == 0 && hcall != nil && sameValue(b, hcall) && exprIsNil(p.Results[0])
			}
			c.R.Check(ok, "R-C07-2", key, fn, c.pos(p.Ret.Pos()), fmt.Sprintf("%d send(s) on the request channel", len(sends)),
				"exactly one request carrying handle()'s destination", "a solicitation is lost or answered twice")
		default:
			c.R.Check(len(sends) == 0 && exprIsNil(p.Results[0]), "R-C07-2", key, fn, c.pos(p.Ret.Pos()), fmt.Sprintf("%d send(s)", len(sends)),
				"no request when handle() returned no destination", "an RA is requested for a message that needs no answer")
		}
	}
	c.R.Floor("R-C07-2", 3)
}

func c07Schedule(c *Ctx) {
	sch := c.needMethod("R-C07-3", "internal/corerad", "Advertiser", "schedule")
	if sch == nil {
		return
	}
	fn := c.fname(sch)
	ps := c.pathsO("R-C07-3", sch, an.PathOpts{EmitCut: true})
	// constant
	if k := c.P.TypesPkg("internal/corerad").Types.Scope().Lookup("maxRADelay"); k != nil {
		v := constVal(k)
		c.R.Check(v == 500000000, "R-C07-4", "corerad.maxRADelay", "", c.pos(k.Pos()), fmt.Sprintf("maxRADelay = %dns", v), "500ms (RFC 4861 MAX_RA_DELAY_TIME)", "solicited RA delay bound differs from the RFC constant")
	} else {
		c.R.Fail("R-C07-4", "corerad.maxRADelay", "", "", "constant missing", "", "anchor-missing")
	}
	nReq := 0
	for _, p := range ps {
		isReq := false
		for _, a := range selectArmsOf(p) {
			if strings.Contains(a.chanExpr, "ipC") || strings.HasSuffix(a.chanExpr, "$ipC") {
				isReq = true
			}
		}
		if !isReq {
			continue
		}
		nReq++
		multicast := false
		for _, a := range p.Atoms {
			if a.Cond.Op == an.OpCall && a.Cond.Fn != nil && a.Cond.Fn.String() == "(net/netip.Addr).IsMulticast" {
				multicast = a.Pos
			}
		}
		key := fmt.Sprintf("%s:request@multicast=%v:%s", fn, multicast, lastAtomName(p))
		delays := callsOnPath(p, func(cc *ssa.CallCommon) bool {
			f := an.CalleeObj(cc)
			return f != nil && f.Name() == "Delay" && f.Pkg() != nil && f.Pkg().Path() == "github.com/mdlayher/schedgroup"
		})
		ok := len(delays) == 1 && p.Cut
		fact := fmt.Sprintf("%d Delay call(s), path ends in %s", len(delays), pathKind(p))
		if ok {
			args := delays[0].Common().Args
			// the task: a closure created on this path (directly, or by a factory enumerated in line)
			var task *an.Expr
			p.Instrs(func(in ssa.Instruction) {
				if in == ssa.Instruction(delays[0]) {
					task = p.Of(args[len(args)-1])
				}
			})
			okWorker := false
			isCl := task != nil && task.Op == an.OpClosure && task.Fn != nil
			var ipBinding ssa.Value
			if isCl {
				cl := task.Fn
				cps := c.pathsO("R-C07-3", cl, an.PathOpts{})
				okWorker = len(cps) > 0
				nSending := 0
				for _, cp := range cps {
					sw := callsOnPath(cp, func(cc *ssa.CallCommon) bool { return an.CallIs(cc, PkgCorerad, "Advertiser", "sendWorker") })
					if len(sw) == 0 && cp.Ret != nil && ctxErrTested(cp) {
						continue // the scheduler is stopping: nothing is sent
					}
					if len(sw) != 1 {
						okWorker = false
						continue
					}
					nSending++
					ip := cp.Of(sw[0].Common().Args[2])
					// the closure's ip is this iteration's received value: the captured variable,
					// as bound when the closure was created on the scheduling path
					if ld, isLd := sw[0].Common().Args[2].(*ssa.UnOp); isLd && ld.Op == token.MUL {
						if fv, isFV := ld.X.(*ssa.FreeVar); isFV {
							for bi, v := range cl.FreeVars {
								if v == fv && bi < len(task.Args) {
									ip = task.Args[bi]
									if ip.Op == an.OpNew && len(ip.Args) == 1 {
										ipBinding, _ = ip.V.(ssa.Value)
										ip = ip.Args[0]
									}
								}
							}
						}
					}
					if !(ip.Op == an.OpRecv && strings.Contains(ip.String(), "ipC")) {
						okWorker = false
					}
					// error, if any, is reported on the error channel
					for _, a := range cp.Atoms {
						x, y, op, okc := effCmp(a)
						if okc && exprIsNil(y) && op == token.NEQ && exprCallIs(x, PkgCorerad, "Advertiser", "sendWorker") {
							nSend := 0
							cp.Instrs(func(in ssa.Instruction) {
								if _, ok := in.(*ssa.Send); ok {
									nSend++
								}
								if sel, ok := in.(*ssa.Select); ok {
									for _, st := range sel.States {
										if st.Dir == types.SendOnly {
											nSend++
										}
									}
								}
							})
							if nSend != 1 {
								okWorker = false
							}
						}
					}
				}
				if nSending == 0 {
					okWorker = false
				}
				// per-iteration variable: the captured ip alloc lives inside the loop
				if al, ok := ipBinding.(*ssa.Alloc); ok && al.Parent() == sch {
					hdr := p.CutTo
					if !hdr.Dominates(al.Block()) {
						okWorker = false
						fact += "; ip is a loop-carried variable shared between iterations"
					}
				}
			}
			ok = okWorker
			fact += fmt.Sprintf("; closure sends to this iteration's own address exactly once=%v", okWorker)
			// R-C07-4 delay range
			d := p.Of(args[1])
			if !multicast {
				nf, okN := an.Norm(d)
				okDelay := false
				if okN && nf.Mode == an.ModeNone && nf.Lin.C.Sign() == 0 && len(nf.Lin.T) == 1 {
					for sym, coef := range nf.Lin.T {
						if coef.Cmp(big.NewRat(1, 1)) == 0 && strings.Contains(sym, "Int63n") {
							// argument of Int63n
							d.Walk(func(e *an.Expr) bool {
								if e.Op == an.OpCall && e.Fn != nil && e.Fn.Name() == "Int63n" {
									if k, isC := e.Args[len(e.Args)-1].ConstInt(); isC && k == 500000000 {
										okDelay = true
									}
									if an2, ok2 := an.Norm(e.Args[len(e.Args)-1]); ok2 {
										if cv, isC := an2.IsConst(); isC && cv.Cmp(big.NewRat(500000000, 1)) == 0 {
											okDelay = true
										}
									}
								}
								return true
							})
						}
					}
				}
				c.R.Check(okDelay, "R-C07-4", fn+":unicast-delay", fn, c.pos(delays[0].Pos()), "delay = "+d.String(),
					"Int63n(maxRADelay in ns) nanoseconds, i.e. uniform in [0, 500ms)", "solicited unicast RA delayed outside [0, MAX_RA_DELAY_TIME)")
			}
		}
		c.R.Check(ok, "R-C07-3", key, fn, c.pos(sch.Pos()), fact,
			"every request received from the channel is handed to exactly one schedgroup.Delay whose closure calls sendWorker(conn, <that request>) and then the loop continues",
			"a solicitation is answered twice, never, or to another request's address")
	}
	c.R.Check(nReq >= 2, "R-C07-3", fn+":request-paths", fn, c.pos(sch.Pos()), fmt.Sprintf("%d request path(s)", nReq), ">= 2 (unicast, multicast)", "anchor-missing")
}

func constVal(o types.Object) int64 {
	k, ok := o.(*types.Const)
	if !ok {
		return -1
	}
	v, _ := constant.Int64Val(constant.ToInt(k.Val()))
	return v
}

func c07Send(c *Ctx) {
	send := c.needMethod("R-C07-5", "internal/corerad", "Advertiser", "send")
	if send == nil {
		return
	}
	fn := c.fname(send)
	ps := c.pathsO("R-C07-5", send, an.PathOpts{EmitCut: true})
	nW := 0
	for _, p := range ps {
		writes := callsOnPath(p, func(cc *ssa.CallCommon) bool { return an.CallIs(cc, PkgSystem, "Conn", "WriteTo") })
		uo, mc := false, false
		for _, a := range p.Atoms {
			if a.Cond.IsField("UnicastOnly") {
				uo = a.Pos
			}
			if a.Cond.Op == an.OpCall && a.Cond.Fn != nil && a.Cond.Fn.String() == "(net/netip.Addr).IsMulticast" && a.Cond.Args[0].Op == an.OpParam {
				mc = a.Pos
			}
		}
		if uo && mc {
			c.R.Check(len(writes) == 0, "R-C07-5", fn+":unicast-only-multicast", fn, c.pos(send.Pos()), fmt.Sprintf("%d WriteTo call(s) under UnicastOnly ∧ dst.IsMulticast()", len(writes)),
				"no transmission", "a unicast-only interface transmits to a multicast destination")
		}
		// a transmission that failed is reported to the caller: sendWorker counts from send's result, so an
		// error swallowed here is counted as an RA sent and the solicitation stays unanswered
		if p.Ret != nil && len(p.Results) == 1 {
			for _, w := range writes {
				wv, _ := w.(ssa.Value)
				for _, a := range p.Atoms {
					x, y, op, ok := effCmp(a)
					if ok && exprIsNil(y) && op == token.NEQ && x.V == wv && wv != nil {
						c.R.Check(!exprIsNil(p.Results[0]), "R-C07-5", fn+":write-error-returned@"+pathShape(p), fn, c.pos(p.Ret.Pos()), "WriteTo failed and send returns "+p.Results[0].String(),
							"a failed WriteTo makes send return an error", "a failed transmission is counted as sent and its solicitation is lost silently")
					}
				}
			}
		}
		for _, w := range writes {
			nW++
			args := w.Common().Args
			dst := p.Of(args[len(args)-1])
			msg := p.Of(args[len(args)-3])
			b, idx := stripExtract(msg)
			c.R.Check(dst.Op == an.OpParam && dst.Name == "dst" && idx == 0 && exprCallIs(b, PkgCorerad, "Advertiser", "buildRA"), "R-C07-5", fn+":write-args", fn, c.pos(w.Pos()),
				fmt.Sprintf("WriteTo(%s, nil, %s)", msg, dst), "WriteTo(buildRA(cfg)#0, nil, dst)", "RA sent to an address other than the requested destination, or not the freshly built RA")
		}
	}
	// suppression is complete: every WriteTo in send happens with ¬UnicastOnly or ¬dst.IsMulticast()
	// established, or — if send leaves the decision to its callers — every call of send does
	excluded := func(p *an.Path, upTo ssa.Instruction, dstIs func(*an.Expr) bool) bool {
		for _, a := range p.Atoms {
			if a.Cond.IsField("UnicastOnly") && !a.Pos {
				return true
			}
			if a.Cond.Op == an.OpCall && a.Cond.Fn != nil && a.Cond.Fn.String() == "(net/netip.Addr).IsMulticast" && !a.Pos && dstIs(a.Cond.Args[0]) {
				return true
			}
		}
		return false
	}
	sendGuards := true
	for _, p := range ps {
		writes := callsOnPath(p, func(cc *ssa.CallCommon) bool { return an.CallIs(cc, PkgSystem, "Conn", "WriteTo") })
		if len(writes) > 0 && !excluded(p, nil, func(e *an.Expr) bool { return e.Op == an.OpParam }) {
			sendGuards = false
		}
	}
	if !sendGuards {
		for _, s := range an.FindCalls(c.srcFuncs(), func(cc *ssa.CallCommon) bool { return an.CallIs(cc, PkgCorerad, "Advertiser", "send") }) {
			root := s.Fn
			for root.Parent() != nil {
				root = root.Parent()
			}
			okSite := true
			nOn := 0
			for _, cp := range c.pathsO("R-C07-5", root, an.PathOpts{EmitCut: true}) {
				var dst *an.Expr
				cp.Instrs(func(in ssa.Instruction) {
					if ci, ok := in.(ssa.CallInstruction); ok && an.CallIs(ci.Common(), PkgCorerad, "Advertiser", "send") {
						args := ci.Common().Args
						dst = cp.Of(args[2])
					}
				})
				if dst == nil {
					continue
				}
				nOn++
				d := dst
				if !excluded(cp, nil, func(e *an.Expr) bool { return sameValue(e, d) }) {
					okSite = false
				}
			}
			c.R.Check(okSite && nOn > 0, "R-C07-5", c.fname(s.Fn)+":send-call-suppressed-in-unicast-only", c.fname(s.Fn), c.pos(s.Pos()),
				fmt.Sprintf("send() does not suppress multicast in unicast-only mode itself; this caller establishes ¬UnicastOnly or a unicast destination on every path: %v", okSite),
				"every transmission happens with UnicastOnly false or a non-multicast destination", "a unicast-only interface transmits to a multicast destination")
		}
	}
	// some path must carry the suppression atoms, otherwise the rule above is vacuous
	c.R.Check(nW >= 1, "R-C07-5", fn+":write-sites", fn, c.pos(send.Pos()), fmt.Sprintf("%d WriteTo path(s)", nW), ">= 1", "anchor-missing")
	// only Advertiser.send writes to the connection
	for _, s := range an.FindCalls(c.srcFuncs(), func(cc *ssa.CallCommon) bool { return an.CallIs(cc, PkgSystem, "Conn", "WriteTo") }) {
		c.R.Check(s.Fn == send, "R-C07-5", c.fname(s.Fn)+":calls-WriteTo", c.fname(s.Fn), c.pos(s.Pos()), "caller "+c.fname(s.Fn), "only Advertiser.send transmits", "a transmission path bypasses the unicast-only suppression")
	}
}

func c07SendWorker(c *Ctx) {
	sw := c.needMethod("R-C07-6", "internal/corerad", "Advertiser", "sendWorker")
	send := c.P.Method("internal/corerad", "Advertiser", "send")
	if sw == nil || send == nil {
		return
	}
	fn := c.fname(sw)
	// enumerate with send inlined path by path, so that "was WriteTo executed" is visible
	ps := c.pathsO("R-C07-6", sw, an.PathOpts{EmitCut: true, InlinePaths: func(f *ssa.Function) bool { return f == send || c.helperInline(sw)(f) }})
	seen := map[string]bool{}
	for _, p := range ps {
		if p.Ret == nil {
			continue
		}
		em := metricEmits(p)
		writes := callsOnPath(p, func(cc *ssa.CallCommon) bool { return an.CallIs(cc, PkgSystem, "Conn", "WriteTo") })
		failed := !exprIsNil(p.Results[0])
		nSent, nErr := len(em["AdvRouterAdvertisementsTotal"]), len(em["AdvErrorsTotal"])
		var key, fact string
		var ok bool
		if failed {
			key = fn + ":failed-send"
			ok = nErr == 1 && nSent == 0
			if ok {
				args := em["AdvErrorsTotal"][0].Common().Args
				lbl := p.Of(args[len(args)-1])
				ok = lbl.Contains(func(e *an.Expr) bool { return e.IsConst(`"transmit"`) })
			}
			fact = fmt.Sprintf("errors-counter×%d sent-counter×%d", nErr, nSent)
		} else {
			mc := false
			for _, a := range p.Atoms {
				if a.Cond.Op == an.OpCall && a.Cond.Fn != nil && a.Cond.Fn.String() == "(net/netip.Addr).IsMulticast" && a.Cond.Args[0].Op == an.OpParam && a.Cond.Args[0].Name == "ip" {
					mc = a.Pos
				}
			}
			key = fmt.Sprintf("%s:success@transmitted=%v", fn, len(writes) > 0)
			fact = fmt.Sprintf("WriteTo executed %d time(s); sent-counter×%d errors-counter×%d; path %s", len(writes), nSent, nErr, atomsString(p))
			if len(writes) == 0 {
				ok = nSent == 0 && nErr == 0 && len(em["AdvLastMulticastTime"]) == 0
			} else {
				ok = len(writes) == 1 && nSent == 1 && nErr == 0
				if ok {
					args := em["AdvRouterAdvertisementsTotal"][0].Common().Args
					lbl := p.Of(args[len(args)-1])
					want := `"unicast"`
					if mc {
						want = `"multicast"`
					}
					ok = lbl.Contains(func(e *an.Expr) bool { return e.IsConst(want) }) && !lbl.Contains(func(e *an.Expr) bool {
						return e.Op == an.OpConst && (e.Name == `"unicast"` || e.Name == `"multicast"`) && e.Name != want
					})
					ok = ok && (len(em["AdvLastMulticastTime"]) == 1) == mc
					key += fmt.Sprintf(",multicast=%v", mc)
				}
			}
		}
		if seen[key] && ok {
			continue
		}
		seen[key] = true
		c.R.Check(ok, "R-C07-6", key, fn, c.pos(p.Ret.Pos()), fact,
			"failed send: one AdvErrorsTotal(\"transmit\"), no sent-counter; success: exactly one AdvRouterAdvertisementsTotal typed by ip.IsMulticast() iff WriteTo was executed, none otherwise",
			"sent/transmit-error counters do not equal the transmissions actually made")
	}
	c.R.Floor("R-C07-6", 6)
	// destination reaches send unchanged
	for _, ci := range an.CallsIn(sw) {
		if an.CallIs(ci.Common(), PkgCorerad, "Advertiser", "send") {
			args := ci.Common().Args
			dst, cfg := c.XO.Of(args[2]), c.XO.Of(args[3])
			c.R.Check(dst.Op == an.OpParam && dst.Name == "ip" && cfg.IsField("cfg"), "R-C07-5", fn+":send-args", fn, c.pos(ci.Pos()), fmt.Sprintf("send(conn, %s, %s)", dst, cfg),
				"send(conn, ip, a.cfg)", "worker sends to another address or with another configuration")
		}
	}
}

// ctxErrTested reports whether the path decides on a non-nil ctx.Err().
func ctxErrTested(p *an.Path) bool {
	for _, a := range p.Atoms {
		x, y, op, ok := effCmp(a)
		if ok && exprIsNil(y) && op == token.NEQ && x.Op == an.OpCall && x.Name == "Err" {
			return true
		}
	}
	return false
}

// taskOwnsItsVariables (shared; R-C07-3 / R-C06-2): a scheduled task runs later,
// so whatever it reads through a captured variable is read when it fires. A
// variable that schedule() assigns on every loop iteration (the destination
// taken from the request channel) must therefore not be captured by
// reference by a function value: every pending task would send to whichever
// destination was dequeued last. Structural form: no closure value made in
// schedule() (or below) that is used as a value binds a variable which is
// allocated outside the loop and stored to inside it.
func taskOwnsItsVariables(c *Ctx, rule string) {
	sch := c.needMethod(rule, "internal/corerad", "Advertiser", "schedule")
	if sch == nil {
		return
	}
	inCycle := func(b *ssa.BasicBlock) bool {
		seen := map[*ssa.BasicBlock]bool{}
		var st []*ssa.BasicBlock
		st = append(st, b.Succs...)
		for len(st) > 0 {
			x := st[len(st)-1]
			st = st[:len(st)-1]
			if x == b {
				return true
			}
			if seen[x] {
				continue
			}
			seen[x] = true
			st = append(st, x.Succs...)
		}
		return false
	}
	n := 0
	for _, f := range an.WithAnon(sch) {
		for _, b := range f.Blocks {
			for _, in := range b.Instrs {
				mc, ok := in.(*ssa.MakeClosure)
				if !ok {
					continue
				}
				n++
				cl, _ := mc.Fn.(*ssa.Function)
				if cl == nil || usedAsValue(c, cl) == "" {
					continue // only ever called directly: runs now, not later
				}
				for _, bnd := range mc.Bindings {
					al, ok := bnd.(*ssa.Alloc)
					if !ok || al.Referrers() == nil || inCycle(al.Block()) {
						continue
					}
					for _, r := range *al.Referrers() {
						st, ok := r.(*ssa.Store)
						if !ok || st.Addr != ssa.Value(al) || !inCycle(st.Block()) {
							continue
						}
						c.R.Fail(rule, c.fname(cl)+":captures-loop-assigned:"+al.Comment, c.fname(cl), c.pos(mc.Pos()),
							fmt.Sprintf("the function value captures variable %q by reference; schedule assigns it on every iteration (%s)", al.Comment, c.pos(st.Pos())),
							"a task is handed the value of its request (parameter of a factory, or a variable declared inside the iteration)",
							"pending tasks read the shared variable when they fire: they all transmit to the destination dequeued last")
					}
				}
			}
		}
	}
	c.R.Check(n >= 1, rule, c.fname(sch)+":closures", c.fname(sch), c.pos(sch.Pos()), fmt.Sprintf("%d closure value(s) made in schedule", n), ">= 1", "anchor-missing")
}

// schedulerWakeupLatched (R-C07-7, decided on the library's own SSA): a task
// handed to the scheduler is noticed by its monitor goroutine. In
// schedgroup.(*Group).Schedule the notification is a select with a send and a
// default arm; that only works when the channel can hold the notification
// while the monitor is busy (capacity >= 1). With an unbuffered channel a
// Schedule call that lands between the monitor's trigger() and its select is
// not noticed: the task runs at the monitor's next wake-up (the next
// scheduled task, up to MaxRtrAdvInterval later), not after its delay.
func schedulerWakeupLatched(c *Ctx, rule string) {
	var sched *ssa.Function
	var pkg *ssa.Package
	for _, p := range c.P.SSA.AllPackages() {
		if p.Pkg.Path() != "github.com/mdlayher/schedgroup" {
			continue
		}
		pkg = p
		if t := p.Type("Group"); t != nil {
			sched = c.P.SSA.LookupMethod(types.NewPointer(t.Type()), p.Pkg, "Schedule")
		}
	}
	if sched == nil || sched.Blocks == nil {
		c.R.Fail(rule, "schedgroup.(*Group).Schedule", "", "", "not found in the loaded program", "the scheduler library is part of the analysed program", "anchor-missing")
		return
	}
	n := 0
	for _, b := range sched.Blocks {
		for _, in := range b.Instrs {
			sel, ok := in.(*ssa.Select)
			if !ok || sel.Blocking {
				continue
			}
			for _, st := range sel.States {
				if st.Dir != types.SendOnly {
					continue
				}
				// the channel: a field of Group; its capacity is that of the make stored into the field
				u, ok := st.Chan.(*ssa.UnOp)
				if !ok {
					continue
				}
				fa, ok := u.X.(*ssa.FieldAddr)
				if !ok {
					continue
				}
				_, tn, field := an.FieldAddrName(fa)
				capK := int64(-1)
				for _, m := range pkg.Members {
					f, ok := m.(*ssa.Function)
					if !ok {
						continue
					}
					for _, fs := range an.FindFieldStores(an.WithAnon(f), "github.com/mdlayher/schedgroup", tn, field) {
						if mk, ok := fs.Store.Val.(*ssa.MakeChan); ok {
							if k, isC := mk.Size.(*ssa.Const); isC {
								capK = k.Int64()
							}
						}
					}
				}
				n++
				c.R.Check(capK >= 1, rule, "schedgroup.(*Group).Schedule:wakeup-latched", "schedgroup.(*Group).Schedule", c.pos(sel.Pos()),
					fmt.Sprintf("non-blocking notification on Group.%s, a channel of capacity %d", field, capK),
					"the notification of a new task cannot be lost: the channel holds it while the monitor is busy (capacity >= 1), or the send blocks",
					"a request scheduled while the monitor goroutine is between two waits is not noticed: its RA is sent at the monitor's next wake-up, not after its delay")
			}
		}
	}
	c.R.Check(n >= 1, rule, "schedgroup.(*Group).Schedule:notification", "", "", fmt.Sprintf("%d non-blocking notification(s)", n), ">= 1", "anchor-missing")
}
