package rules

import (
	"fmt"
	"go/ast"
	"go/constant"
	"go/token"
	"go/types"
	"math/big"
	"sort"
	"strings"

	"crverif/internal/an"
	"crverif/internal/load"

	"golang.org/x/tools/go/ssa"
)

// paths enumerates paths of fn; an enumeration failure is recorded as an
// undecided obligation of rule.
func (c *Ctx) paths(rule string, fn *ssa.Function, opts an.PathOpts) []*an.Path {
	if opts.InlinePaths == nil {
		opts.InlinePaths = c.helperInline(fn)
	}
	ps, err := c.X.Paths(fn, opts)
	if err != nil {
		c.R.Undecided(rule, "paths:"+c.fname(fn), c.fname(fn), c.pos(fn.Pos()), err.Error())
	}
	return ps
}

// pathsO enumerates paths with every call kept opaque.
func (c *Ctx) pathsO(rule string, fn *ssa.Function, opts an.PathOpts) []*an.Path {
	if opts.InlinePaths == nil {
		opts.InlinePaths = c.helperInline(fn)
	}
	ps, err := c.XO.Paths(fn, opts)
	if err != nil {
		c.R.Undecided(rule, "paths:"+c.fname(fn), c.fname(fn), c.pos(fn.Pos()), err.Error())
	}
	c.notePaths(fn, len(ps))
	return ps
}

// notePaths accumulates how much was enumerated, for the evidence file.
func (c *Ctx) notePaths(fn *ssa.Function, n int) {
	cur, _ := c.R.Stats["paths_enumerated"].(int)
	c.R.Stats["paths_enumerated"] = cur + n
	m, _ := c.R.Stats["functions_path_enumerated"].(map[string]int)
	if m == nil {
		m = map[string]int{}
		c.R.Stats["functions_path_enumerated"] = m
	}
	if n > m[c.fname(fn)] {
		m[c.fname(fn)] = n
	}
}

// inlineAllModule enumerates module-local loop-free callees path by path.
func inlineLoopFree(f *ssa.Function) bool {
	if !load.InModule(f) {
		return false
	}
	for _, b := range f.Blocks {
		for _, p := range b.Preds {
			if b.Dominates(p) {
				return false
			}
		}
	}
	return true
}

func atomsString(p *an.Path) string {
	var as []string
	for _, a := range p.Atoms {
		as = append(as, a.String())
	}
	return strings.Join(as, " ∧ ")
}

// pathKind renders how a path ends.
func pathKind(p *an.Path) string {
	switch {
	case p.Cut:
		return fmt.Sprintf("loop-back→b%d", p.CutTo.Index)
	case p.Panic != nil:
		return "panic"
	}
	return "return"
}

// cmpAtom matches an atom `X op K` (either operand order, polarity folded)
// and returns the effective operator such that the atom asserts `x effOp k`.
func effCmp(a an.PathAtom) (x, y *an.Expr, op token.Token, ok bool) {
	e := a.Cond
	if e.Op != an.OpBin {
		return nil, nil, 0, false
	}
	switch e.Tok {
	case token.EQL, token.NEQ, token.LSS, token.LEQ, token.GTR, token.GEQ:
	default:
		return nil, nil, 0, false
	}
	op = e.Tok
	if !a.Pos {
		op = negate(op)
	}
	x, y = e.Args[0], e.Args[1]
	// a length is a non-negative integer: len < 1, len <= 0 say len == 0; len >= 1, len > 0 say len != 0
	// (either operand order); one spelling for all of them
	if y.Op == an.OpLen && x.Op != an.OpLen {
		if _, isC := x.ConstInt(); isC {
			x, y, op = y, x, flip(op)
		}
	}
	if x.Op == an.OpLen {
		if k, isC := y.ConstInt(); isC {
			zero := &an.Expr{Op: an.OpConst, Cval: constant.MakeInt64(0), Typ: y.Typ}
			switch {
			case k == 1 && op == token.LSS, k == 0 && op == token.LEQ:
				y, op = zero, token.EQL
			case k == 1 && op == token.GEQ, k == 0 && op == token.GTR:
				y, op = zero, token.NEQ
			}
		}
	}
	// len(s) == 0 for a string s says s == ""
	if x.Op == an.OpLen && len(x.Args) == 1 && x.Args[0].Typ != nil && (op == token.EQL || op == token.NEQ) {
		if b, isBasic := x.Args[0].Typ.Underlying().(*types.Basic); isBasic && b.Info()&types.IsString != 0 {
			if k, isC := y.ConstInt(); isC && k == 0 {
				x, y = x.Args[0], &an.Expr{Op: an.OpConst, Name: `""`, Cval: constant.MakeString(""), Typ: x.Args[0].Typ}
			}
		}
	}
	return x, y, op, true
}

func negate(op token.Token) token.Token {
	switch op {
	case token.EQL:
		return token.NEQ
	case token.NEQ:
		return token.EQL
	case token.LSS:
		return token.GEQ
	case token.GEQ:
		return token.LSS
	case token.GTR:
		return token.LEQ
	case token.LEQ:
		return token.GTR
	}
	return op
}

func flip(op token.Token) token.Token {
	switch op {
	case token.LSS:
		return token.GTR
	case token.GTR:
		return token.LSS
	case token.LEQ:
		return token.GEQ
	case token.GEQ:
		return token.LEQ
	}
	return op
}

// metricEmits returns the metric emissions (field name → instructions) executed on a path
// (emissions inside helpers are visible because helpers are enumerated in line).
func metricEmits(p *an.Path) map[string][]ssa.CallInstruction {
	out := map[string][]ssa.CallInstruction{}
	p.Instrs(func(in ssa.Instruction) {
		if ci, ok := in.(ssa.CallInstruction); ok {
			if name, ok := an.MetricCall(ci.Common()); ok {
				out[name] = append(out[name], ci)
			}
		}
	})
	return out
}

// callsOnPath returns calls on the path for which pred holds.
func callsOnPath(p *an.Path, pred func(*ssa.CallCommon) bool) []ssa.CallInstruction {
	var out []ssa.CallInstruction
	p.Instrs(func(in ssa.Instruction) {
		if ci, ok := in.(ssa.CallInstruction); ok && pred(ci.Common()) {
			out = append(out, ci)
		}
	})
	return out
}

// isNilConst reports whether e is the constant nil.
func exprIsNil(e *an.Expr) bool { return e.Op == an.OpConst && e.Name == "nil" }

// isZeroValue reports whether e is a zero value / zero constant.
func exprIsZero(e *an.Expr) bool {
	if e.Op == an.OpZero {
		return true
	}
	if e.Op == an.OpConst && (e.Name == "0" || e.Name == "nil" || e.Name == `""` || e.Name == "false") {
		return true
	}
	if e.Op == an.OpStruct && e.Name == "" {
		for _, a := range e.Args {
			if a != nil && !exprIsZero(a) {
				return false
			}
		}
		return true
	}
	return false
}

// isCallObj reports whether e is a call expression to pkg.[recv.]name
// (static or invoke).
func exprCallIs(e *an.Expr, pkgPath, recv, name string) bool {
	if e.Op != an.OpCall {
		return false
	}
	if e.Fn != nil {
		return an.ObjIs(an.FuncObj(e.Fn), pkgPath, recv, name)
	}
	if f, ok := e.Obj.(interface{ Name() string }); ok && f.Name() == name {
		if fo := asFunc(e.Obj); fo != nil {
			return an.IfaceMethodIs(fo, pkgPath, recv, name)
		}
	}
	return false
}

// stripExtract returns the call under an Extract (or e itself) and the index.
func stripExtract(e *an.Expr) (*an.Expr, int) {
	if e.Op == an.OpExtract {
		return e.Args[0], e.Idx
	}
	return e, -1
}

// containsCallTo reports whether e mentions a call to pkg.[recv.]name.
func containsCallTo(e *an.Expr, pkgPath, recv, name string) bool {
	return e.Contains(func(x *an.Expr) bool { return exprCallIs(x, pkgPath, recv, name) })
}

// sameValue reports whether two expressions denote the same SSA value or are
// pure and structurally equal.
func sameValue(a, b *an.Expr) bool {
	if a == nil || b == nil {
		return false
	}
	if a.V != nil && a.V == b.V {
		return true
	}
	return a.String() == b.String()
}

func sortStrings(s []string) { sort.Strings(s) }

// opaque keeps the given functions as opaque calls (not inlined by SEE) until
// the returned restore function is called.
func (c *Ctx) opaque(fns ...*ssa.Function) func() {
	var added []*ssa.Function
	for _, f := range fns {
		if f != nil && !c.X.NoInline[f] {
			c.X.NoInline[f] = true
			added = append(added, f)
		}
	}
	return func() {
		for _, f := range added {
			delete(c.X.NoInline, f)
		}
	}
}

// helperInline is the default InlinePaths policy when enumerating root.
func (c *Ctx) helperInline(root *ssa.Function) func(*ssa.Function) bool {
	return func(f *ssa.Function) bool {
		if f == root || f.Blocks == nil || !load.InModule(f) {
			return false
		}
		base := f
		for base.Parent() != nil {
			base = base.Parent()
		}
		if o := base.Origin(); o != nil {
			base = o
		}
		name := load.FuncName(base)
		if f.Parent() != nil {
			// closures are inlined when called directly (e.g. a local dispatch helper)
			return true
		}
		if strings.HasSuffix(name, "$bound") || strings.HasSuffix(name, "$thunk") {
			return true
		}
		return !anchorFuncs[name]
	}
}

// callersOf returns, for every module function, the functions that call it
// statically or mention it as a value (a method value or function value is
// attributed to the function that creates it).
func (c *Ctx) callersOf() map[*ssa.Function][]*ssa.Function {
	if c.callers != nil {
		return c.callers
	}
	m := map[*ssa.Function][]*ssa.Function{}
	add := func(callee, caller *ssa.Function) {
		if callee == nil || !load.InModule(callee) {
			return
		}
		if o := callee.Origin(); o != nil {
			callee = o
		}
		for _, x := range m[callee] {
			if x == caller {
				return
			}
		}
		m[callee] = append(m[callee], caller)
	}
	var visit func(fn *ssa.Function)
	visit = func(fn *ssa.Function) {
		for _, b := range fn.Blocks {
			for _, in := range b.Instrs {
				if ci, ok := in.(ssa.CallInstruction); ok {
					add(an.StaticCallee(ci.Common()), fn)
				}
				for _, op := range in.Operands(nil) {
					if op == nil || *op == nil {
						continue
					}
					if f, ok := (*op).(*ssa.Function); ok {
						if f.Parent() == nil {
							add(f, fn)
						}
					}
					if mc, ok := (*op).(*ssa.MakeClosure); ok {
						if f, ok := mc.Fn.(*ssa.Function); ok && strings.HasSuffix(f.Name(), "$bound") {
							// method value: attribute the underlying method
							for _, ci := range an.CallsIn(f) {
								add(an.StaticCallee(ci.Common()), fn)
							}
						}
					}
				}
			}
		}
		for _, a := range fn.AnonFuncs {
			visit(a)
		}
	}
	for _, fn := range c.srcFuncs() {
		if fn.Parent() == nil {
			visit(fn)
		}
	}
	c.callers = m
	return m
}

// reachedOnlyFrom reports whether fn (a function containing a restricted call)
// is one of the allowed functions, a closure of one, or a helper (a function
// outside the frozen anchor table) all of whose callers are, transitively.
// The second result names the offending function.
func (c *Ctx) reachedOnlyFrom(fn *ssa.Function, allowed func(root *ssa.Function) bool) (bool, string) {
	seen := map[*ssa.Function]bool{}
	var rec func(f *ssa.Function) (bool, string)
	rec = func(f *ssa.Function) (bool, string) {
		root := f
		for root.Parent() != nil {
			root = root.Parent()
		}
		if o := root.Origin(); o != nil {
			root = o
		}
		if allowed(root) {
			return true, ""
		}
		if anchorFuncs[load.FuncName(root)] || seen[root] {
			return seen[root], c.fname(root)
		}
		seen[root] = true
		for _, caller := range c.callersOf()[root] {
			if ok, who := rec(caller); !ok {
				return false, who
			}
		}
		return true, ""
	}
	return rec(fn)
}

// loopTrip matches a loop-continuation test on a counter — `L + c < K` with L
// the loop symbol of a header phi that starts at a constant i0 and K constant —
// and returns the number of iterations the loop performs when it runs to
// exhaustion (K − c − i0 for a test at the top of the loop, one more for a
// test at the bottom: the rotated form go/ssa emits for `for i := range K`),
// the counter, and whether the atom takes the exit. The classic
// `for i := 0; i < K; i++` and `for i := range K` both give K.
func loopTrip(a an.PathAtom) (n int64, ph *ssa.Phi, exit bool, ok bool) {
	x, y, op, isCmp := effCmp(a)
	if !isCmp || (op != token.LSS && op != token.GEQ && op != token.LEQ && op != token.GTR) {
		return 0, nil, false, false
	}
	k, isC := y.ConstInt()
	if !isC {
		return 0, nil, false, false
	}
	nf, okN := an.Norm(x)
	if !okN || nf.Mode != an.ModeNone || len(nf.Lin.T) != 1 || !nf.Lin.C.IsInt() {
		return 0, nil, false, false
	}
	var sym string
	for s, coef := range nf.Lin.T {
		if coef.Cmp(big.NewRat(1, 1)) != 0 {
			return 0, nil, false, false
		}
		sym = s
	}
	if !strings.HasPrefix(sym, "loop:") {
		return 0, nil, false, false
	}
	x.Walk(func(e *an.Expr) bool {
		if e.Op == an.OpLoop {
			if p, isPhi := e.V.(*ssa.Phi); isPhi && an.LoopSym(p) == sym {
				ph = p
			}
		}
		return true
	})
	if ph == nil {
		return 0, nil, false, false
	}
	// the constant the counter starts at (its value on the edges that enter the loop) and its step
	// (+1 or -1 on every back edge)
	i0, haveInit := int64(0), false
	step := int64(0)
	for i, pred := range ph.Block().Preds {
		if ph.Block().Dominates(pred) {
			if ph.Edges[i] == ssa.Value(ph) {
				continue // an iteration that does not advance the counter (it bounds only some of the iterations)
			}
			bo, isBin := ph.Edges[i].(*ssa.BinOp)
			if !isBin || (bo.Op != token.ADD && bo.Op != token.SUB) || bo.X != ssa.Value(ph) {
				return 0, nil, false, false
			}
			cst, isConst := bo.Y.(*ssa.Const)
			if !isConst || cst.Value == nil {
				return 0, nil, false, false
			}
			v, exact := constant.Int64Val(constant.ToInt(cst.Value))
			if !exact || v != 1 {
				return 0, nil, false, false
			}
			st := int64(1)
			if bo.Op == token.SUB {
				st = -1
			}
			if step != 0 && step != st {
				return 0, nil, false, false
			}
			step = st
			continue
		}
		cst, isConst := ph.Edges[i].(*ssa.Const)
		if !isConst || cst.Value == nil {
			return 0, nil, false, false
		}
		v, exact := constant.Int64Val(constant.ToInt(cst.Value))
		if !exact || (haveInit && v != i0) {
			return 0, nil, false, false
		}
		i0, haveInit = v, true
	}
	if !haveInit || step == 0 {
		return 0, nil, false, false
	}
	c := nf.Lin.C.Num().Int64()
	if step > 0 {
		// continues while x < K (x <= K is x < K+1)
		if op == token.LEQ || op == token.GTR {
			k++
		}
		exit = op == token.GEQ || op == token.GTR
		n = k - c - i0
	} else {
		// counting down: continues while x > K (x >= K is x > K-1)
		if op == token.GEQ || op == token.LSS {
			k--
		}
		exit = op == token.LEQ || op == token.LSS
		n = i0 + c - k
	}
	// rotated loop: the entry is guarded by its own test against the same bound and the body runs once
	// before the first continuation test
	for _, pred := range ph.Block().Preds {
		if ph.Block().Dominates(pred) {
			continue
		}
		if ifi, isIf := pred.Instrs[len(pred.Instrs)-1].(*ssa.If); isIf {
			if bo, isBin := ifi.Cond.(*ssa.BinOp); isBin && (bo.Op == token.LSS || bo.Op == token.GTR || bo.Op == token.LEQ || bo.Op == token.GEQ) {
				if cy, isConst := bo.Y.(*ssa.Const); isConst && cy.Value != nil {
					if v, exact := constant.Int64Val(constant.ToInt(cy.Value)); exact && (v == k || v == k-1 || v == k+1) {
						if _, xConst := bo.X.(*ssa.Const); xConst {
							n++
						}
					}
				}
			}
		}
	}
	return n, ph, exit, true
}

// loopInit returns the constant a loop counter (the header phi behind loop
// symbol sym, found in e) has on entry to its loop.
func loopInit(e *an.Expr, sym string) (int64, bool) {
	var ph *ssa.Phi
	e.Walk(func(x *an.Expr) bool {
		if x.Op == an.OpLoop {
			if p, isPhi := x.V.(*ssa.Phi); isPhi && an.LoopSym(p) == sym {
				ph = p
			}
		}
		return true
	})
	if ph == nil {
		return 0, false
	}
	i0, have := int64(0), false
	for i, pred := range ph.Block().Preds {
		if ph.Block().Dominates(pred) {
			continue
		}
		cst, isConst := ph.Edges[i].(*ssa.Const)
		if !isConst || cst.Value == nil {
			return 0, false
		}
		v, exact := constant.Int64Val(constant.ToInt(cst.Value))
		if !exact || (have && v != i0) {
			return 0, false
		}
		i0, have = v, true
	}
	return i0, have
}

// globalIntTable returns the constant elements of a package-level slice or
// array variable of integers that is written only by its package initialiser
// (`var lengths = []int{32, 40, …}`), given an expression that denotes it
// (the variable, or a slice of it).
func (c *Ctx) globalIntTable(e *an.Expr) ([]int64, bool) {
	for e != nil && (e.Op == an.OpSlice || e.Op == an.OpConv) && len(e.Args) > 0 {
		e = e.Args[0]
	}
	if e == nil || e.Op != an.OpGlobal {
		return nil, false
	}
	var g *ssa.Global
	for _, pkg := range c.P.SSA.AllPackages() {
		if !load.InModulePkg(pkg) {
			continue
		}
		for _, m := range pkg.Members {
			if gv, ok := m.(*ssa.Global); ok && pkg.Pkg.Name()+"."+gv.Name() == e.Name {
				g = gv
			}
		}
	}
	if g == nil {
		return nil, false
	}
	// every instruction that mentions g outside the package initialiser must be a plain load
	for _, fn := range c.srcFuncs() {
		if fn.Synthetic != "" && fn.Name() == "init" {
			continue
		}
		for _, b := range fn.Blocks {
			for _, in := range b.Instrs {
				for _, op := range in.Operands(nil) {
					if op == nil || *op != ssa.Value(g) {
						continue
					}
					if u, ok := in.(*ssa.UnOp); ok && u.Op == token.MUL {
						continue
					}
					if sl, ok := in.(*ssa.Slice); ok && sl.X == ssa.Value(g) {
						// slicing the array: elements could be written through the slice; require read-only uses
						if sl.Referrers() != nil {
							for _, r := range *sl.Referrers() {
								if _, isCall := r.(ssa.CallInstruction); !isCall {
									return nil, false
								}
							}
						}
						continue
					}
					return nil, false
				}
			}
		}
	}
	init := g.Pkg.Func("init")
	if init == nil {
		return nil, false
	}
	var out []int64
	elems := map[int64]int64{}
	collectIA := func(ia *ssa.IndexAddr) bool {
		idx, ok := ia.Index.(*ssa.Const)
		if !ok || ia.Referrers() == nil {
			return false
		}
		for _, u := range *ia.Referrers() {
			st, ok := u.(*ssa.Store)
			if !ok {
				continue
			}
			cv, ok := st.Val.(*ssa.Const)
			if !ok || cv.Value == nil {
				return false
			}
			v, exact := constant.Int64Val(constant.ToInt(cv.Value))
			if !exact {
				return false
			}
			elems[idx.Int64()] = v
		}
		return true
	}
	collect := func(base ssa.Value) bool {
		if base.Referrers() == nil {
			return false
		}
		for _, r := range *base.Referrers() {
			if ia, ok := r.(*ssa.IndexAddr); ok {
				if !collectIA(ia) {
					return false
				}
			}
		}
		return true
	}
	found := false
	for _, b := range init.Blocks {
		for _, in := range b.Instrs {
			switch x := in.(type) {
			case *ssa.Store:
				if x.Addr == ssa.Value(g) {
					// slice variable: *g = slice(new [n]int)
					if sl, ok := x.Val.(*ssa.Slice); ok {
						if !collect(sl.X) {
							return nil, false
						}
						found = true
					} else if ld, ok := x.Val.(*ssa.UnOp); ok && ld.Op == token.MUL {
						// array variable: *g = *local, the local filled element by element
						if !collect(ld.X) {
							return nil, false
						}
						found = true
					} else {
						return nil, false
					}
				}
			case *ssa.IndexAddr:
				// array variable initialised element by element
				if x.X == ssa.Value(g) {
					if !collectIA(x) {
						return nil, false
					}
					found = true
				}
			}
		}
	}
	if !found {
		return nil, false
	}
	if len(elems) == 0 {
		return nil, false
	}
	for i := int64(0); i < int64(len(elems)); i++ {
		v, ok := elems[i]
		if !ok {
			return nil, false
		}
		out = append(out, v)
	}
	return out, true
}

// memberAtom matches an atom that decides membership of a value in a constant
// set: `x == k` (set {k}) or `slices.Contains(table, x)` with table a
// constant package-level table. It returns the value, the set and whether the
// path takes the "member" outcome.
func (c *Ctx) memberAtom(a an.PathAtom) (x *an.Expr, set []int64, member bool, ok bool) {
	if l, r, op, isCmp := effCmp(a); isCmp && (op == token.EQL || op == token.NEQ) {
		if k, isC := r.ConstInt(); isC {
			return l, []int64{k}, op == token.EQL, true
		}
	}
	e := a.Cond
	if e.Op == an.OpCall && len(e.Args) == 2 {
		name := ""
		if e.Fn != nil {
			name = e.Fn.String()
			if o := e.Fn.Origin(); o != nil {
				name = o.String()
			}
		}
		if name == "slices.Contains" {
			if tbl, okT := c.globalIntTable(e.Args[0]); okT {
				return e.Args[1], tbl, a.Pos, true
			}
			// a literal table written at the call: slices.Contains([]int{32, 40, …}, x)
			if lit := e.Args[0]; lit.Op == an.OpStruct && lit.Name == "list" && len(lit.Args) > 0 {
				var tbl []int64
				for _, el := range lit.Args {
					k, isC := el.ConstInt()
					if !isC {
						tbl = nil
						break
					}
					tbl = append(tbl, k)
				}
				if tbl != nil {
					return e.Args[1], tbl, a.Pos, true
				}
			}
		}
	}
	return nil, nil, false, false
}

// monitorPath reports whether a path of parseInterface takes the monitor-mode
// short circuit (its result carries no advertising settings; R-C02-4 owns it).
func monitorPath(p *an.Path) bool {
	for _, a := range p.Atoms {
		if a.Cond.IsField("Monitor") && a.Pos {
			return true
		}
	}
	return false
}

// shadowedErrorResults finds, in function f (by its syntax), a named result of
// type error that is shadowed by a short variable declaration in an inner
// block while a return statement outside that block still returns the named
// result: the inner failure is then lost (the function reports success). It
// returns a description per finding.
func (c *Ctx) shadowedErrorResults(f *ssa.Function) []string {
	if f.Pkg == nil {
		if o := f.Origin(); o != nil {
			f = o // an instantiation of a generic helper: look at its declaration
		}
	}
	if f.Pkg == nil || f.Syntax() == nil {
		return nil
	}
	decl, ok := f.Syntax().(*ast.FuncDecl)
	if !ok || decl.Type.Results == nil || decl.Body == nil {
		return nil
	}
	var info *types.Info
	for _, pkg := range c.P.Pkgs {
		if pkg.Types == f.Pkg.Pkg {
			info = pkg.TypesInfo
		}
	}
	if info == nil {
		return nil
	}
	// named error results
	named := map[types.Object]string{}
	for _, fld := range decl.Type.Results.List {
		for _, nm := range fld.Names {
			if o := info.Defs[nm]; o != nil && types.TypeString(o.Type(), nil) == "error" {
				named[o] = nm.Name
			}
		}
	}
	if len(named) == 0 {
		return nil
	}
	var out []string
	for res, name := range named {
		// inner := declarations of the same name (a different object) assigned from a call
		var shadows []*ast.AssignStmt
		ast.Inspect(decl.Body, func(n ast.Node) bool {
			as, ok := n.(*ast.AssignStmt)
			if !ok || as.Tok != token.DEFINE {
				return true
			}
			for _, lhs := range as.Lhs {
				id, ok := lhs.(*ast.Ident)
				if !ok || id.Name != name {
					continue
				}
				if o := info.Defs[id]; o != nil && o != res {
					hasCall := false
					for _, r := range as.Rhs {
						ast.Inspect(r, func(m ast.Node) bool {
							if _, isCall := m.(*ast.CallExpr); isCall {
								hasCall = true
							}
							return true
						})
					}
					if hasCall {
						shadows = append(shadows, as)
					}
				}
			}
			return true
		})
		if len(shadows) == 0 {
			continue
		}
		// is the named result ever assigned? if it is never written, every return of it yields nil
		written := false
		ast.Inspect(decl.Body, func(n ast.Node) bool {
			if as, ok := n.(*ast.AssignStmt); ok && as.Tok != token.DEFINE {
				for _, lhs := range as.Lhs {
					if id, ok := lhs.(*ast.Ident); ok && info.Uses[id] == res {
						written = true
					}
				}
			}
			return true
		})
		// a return that yields the named result
		returnsNamed := false
		ast.Inspect(decl.Body, func(n ast.Node) bool {
			rs, ok := n.(*ast.ReturnStmt)
			if !ok {
				return true
			}
			if len(rs.Results) == 0 {
				returnsNamed = true
			}
			for _, r := range rs.Results {
				if id, ok := r.(*ast.Ident); ok && info.Uses[id] == res {
					returnsNamed = true
				}
			}
			return true
		})
		if returnsNamed && !written {
			out = append(out, fmt.Sprintf("named result %q is shadowed by `%s :=` at %s and never assigned, yet returned: the failure is reported as success", name, name, c.pos(shadows[0].Pos())))
		}
	}
	return out
}

// globalFuncTable returns the functions, in index order, that the package
// initialiser stores into a package-level array or slice variable of function
// values (`var classes = [...]func(netip.Addr) bool{a, b, c}`), given an
// expression that denotes the variable (or an element / slice of it). The
// variable must not be written anywhere else.
func (c *Ctx) globalFuncTable(e *an.Expr) ([]string, bool) {
	for e != nil && (e.Op == an.OpSlice || e.Op == an.OpConv || e.Op == an.OpElem) && len(e.Args) > 0 {
		e = e.Args[0]
	}
	if e == nil || e.Op != an.OpGlobal {
		return nil, false
	}
	var g *ssa.Global
	for _, pkg := range c.P.SSA.AllPackages() {
		if !load.InModulePkg(pkg) {
			continue
		}
		for _, m := range pkg.Members {
			if gv, ok := m.(*ssa.Global); ok && pkg.Pkg.Name()+"."+gv.Name() == e.Name {
				g = gv
			}
		}
	}
	if g == nil {
		return nil, false
	}
	for _, fn := range c.srcFuncs() {
		for _, b := range fn.Blocks {
			for _, in := range b.Instrs {
				if st, ok := in.(*ssa.Store); ok {
					if st.Addr == ssa.Value(g) {
						return nil, false
					}
					if ia, ok := st.Addr.(*ssa.IndexAddr); ok && ia.X == ssa.Value(g) {
						return nil, false
					}
				}
			}
		}
	}
	init := g.Pkg.Func("init")
	if init == nil {
		return nil, false
	}
	elems := map[int64]string{}
	nameOf := func(v ssa.Value) string {
		for {
			if ct, ok := v.(*ssa.ChangeType); ok {
				v = ct.X
				continue
			}
			break
		}
		switch f := v.(type) {
		case *ssa.Function:
			n := f.Name()
			return strings.TrimSuffix(n[strings.LastIndex(n, ".")+1:], "$thunk")
		case *ssa.MakeClosure:
			n := f.Fn.(*ssa.Function).Name()
			return strings.TrimSuffix(n[strings.LastIndex(n, ".")+1:], "$thunk")
		}
		return ""
	}
	collectIA := func(ia *ssa.IndexAddr) bool {
		idx, ok := ia.Index.(*ssa.Const)
		if !ok || ia.Referrers() == nil {
			return false
		}
		for _, u := range *ia.Referrers() {
			if st, ok := u.(*ssa.Store); ok {
				n := nameOf(st.Val)
				if n == "" {
					return false
				}
				elems[idx.Int64()] = n
			}
		}
		return true
	}
	for _, b := range init.Blocks {
		for _, in := range b.Instrs {
			switch x := in.(type) {
			case *ssa.IndexAddr:
				root := x.X
				if root == ssa.Value(g) {
					if !collectIA(x) {
						return nil, false
					}
				}
			case *ssa.Store:
				if x.Addr == ssa.Value(g) {
					var base ssa.Value
					switch v := x.Val.(type) {
					case *ssa.Slice:
						base = v.X
					case *ssa.UnOp:
						base = v.X
					}
					if base == nil || base.Referrers() == nil {
						return nil, false
					}
					for _, r := range *base.Referrers() {
						if ia, ok := r.(*ssa.IndexAddr); ok {
							if !collectIA(ia) {
								return nil, false
							}
						}
					}
				}
			}
		}
	}
	if len(elems) == 0 {
		return nil, false
	}
	var out []string
	for i := int64(0); i < int64(len(elems)); i++ {
		n, ok := elems[i]
		if !ok {
			return nil, false
		}
		out = append(out, n)
	}
	return out, true
}

// globalConstMap returns the constant integer entries the package initialiser
// puts into a package-level map variable that nothing else writes, given an
// expression denoting the variable.
func (c *Ctx) globalConstMap(e *an.Expr) (map[int64]int64, bool) {
	if e == nil || e.Op != an.OpGlobal {
		return nil, false
	}
	var g *ssa.Global
	for _, pkg := range c.P.SSA.AllPackages() {
		if !load.InModulePkg(pkg) {
			continue
		}
		for _, m := range pkg.Members {
			if gv, ok := m.(*ssa.Global); ok && pkg.Pkg.Name()+"."+gv.Name() == e.Name {
				g = gv
			}
		}
	}
	if g == nil {
		return nil, false
	}
	// no writer outside the initialiser: no store to g, no map update or delete on a value loaded from g
	for _, fn := range c.srcFuncs() {
		for _, b := range fn.Blocks {
			for _, in := range b.Instrs {
				switch x := in.(type) {
				case *ssa.Store:
					if x.Addr == ssa.Value(g) {
						return nil, false
					}
				case *ssa.MapUpdate:
					if ld, ok := x.Map.(*ssa.UnOp); ok && ld.X == ssa.Value(g) {
						return nil, false
					}
				case ssa.CallInstruction:
					if bi, ok := x.Common().Value.(*ssa.Builtin); ok && (bi.Name() == "delete" || bi.Name() == "clear") {
						for _, a := range x.Common().Args {
							if ld, ok := a.(*ssa.UnOp); ok && ld.X == ssa.Value(g) {
								return nil, false
							}
						}
					}
				}
			}
		}
	}
	init := g.Pkg.Func("init")
	if init == nil {
		return nil, false
	}
	out := map[int64]int64{}
	found := false
	for _, b := range init.Blocks {
		for _, in := range b.Instrs {
			st, ok := in.(*ssa.Store)
			if !ok || st.Addr != ssa.Value(g) {
				continue
			}
			mm, ok := st.Val.(*ssa.MakeMap)
			if !ok || mm.Referrers() == nil {
				return nil, false
			}
			found = true
			for _, r := range *mm.Referrers() {
				mu, ok := r.(*ssa.MapUpdate)
				if !ok {
					continue
				}
				k, okK := mu.Key.(*ssa.Const)
				v, okV := mu.Value.(*ssa.Const)
				if !okK || !okV || k.Value == nil || v.Value == nil {
					return nil, false
				}
				kv, e1 := constant.Int64Val(constant.ToInt(k.Value))
				vv, e2 := int64(0), true
				if v.Value.Kind() == constant.Int || v.Value.Kind() == constant.Float {
					vv, e2 = constant.Int64Val(constant.ToInt(v.Value))
				} // values of another kind (strings, …): only the key set is of interest
				if !e1 || !e2 {
					return nil, false
				}
				if _, dup := out[kv]; dup {
					return nil, false
				}
				out[kv] = vv
			}
		}
	}
	return out, found
}

// globalStructTable returns, as struct expressions, the rows the package
// initialiser stores into a package-level slice or array of structs that
// nothing else writes (`var routes = []route{{"/a", h1}, {"/b", h2}}`).
func (c *Ctx) globalStructTable(e *an.Expr) ([]*an.Expr, bool) {
	for e != nil && (e.Op == an.OpSlice || e.Op == an.OpConv) && len(e.Args) > 0 {
		e = e.Args[0]
	}
	if e == nil || e.Op != an.OpGlobal {
		return nil, false
	}
	var g *ssa.Global
	for _, pkg := range c.P.SSA.AllPackages() {
		if !load.InModulePkg(pkg) {
			continue
		}
		for _, m := range pkg.Members {
			if gv, ok := m.(*ssa.Global); ok && pkg.Pkg.Name()+"."+gv.Name() == e.Name {
				g = gv
			}
		}
	}
	if g == nil {
		return nil, false
	}
	for _, fn := range c.srcFuncs() {
		for _, b := range fn.Blocks {
			for _, in := range b.Instrs {
				if st, ok := in.(*ssa.Store); ok {
					addr := st.Addr
					for {
						switch x := addr.(type) {
						case *ssa.FieldAddr:
							addr = x.X
							continue
						case *ssa.IndexAddr:
							addr = x.X
							continue
						}
						break
					}
					if addr == ssa.Value(g) {
						return nil, false
					}
				}
			}
		}
	}
	init := g.Pkg.Func("init")
	if init == nil {
		return nil, false
	}
	// the backing array: the global itself (array variable) or the array sliced into it
	var base ssa.Value
	for _, b := range init.Blocks {
		for _, in := range b.Instrs {
			switch x := in.(type) {
			case *ssa.Store:
				if x.Addr == ssa.Value(g) {
					switch v := x.Val.(type) {
					case *ssa.Slice:
						base = v.X
					case *ssa.UnOp:
						base = v.X
					}
				}
			case *ssa.IndexAddr:
				if x.X == ssa.Value(g) && base == nil {
					base = g
				}
			}
		}
	}
	if base == nil {
		return nil, false
	}
	// element struct type
	var elemT types.Type
	switch t := base.Type().Underlying().(type) {
	case *types.Pointer:
		if arr, ok := t.Elem().Underlying().(*types.Array); ok {
			elemT = arr.Elem()
		}
	}
	if elemT == nil {
		return nil, false
	}
	st, ok := elemT.Underlying().(*types.Struct)
	if !ok {
		return nil, false
	}
	x := &an.Extractor{InModule: load.InModule, MaxDepth: 0, NoInline: map[*ssa.Function]bool{}}
	rows := map[int64]*an.Expr{}
	scan := func(ia *ssa.IndexAddr) bool {
		idx, ok := ia.Index.(*ssa.Const)
		if !ok || ia.Referrers() == nil {
			return false
		}
		row := rows[idx.Int64()]
		if row == nil {
			row = &an.Expr{Op: an.OpStruct, Typ: elemT, Args: make([]*an.Expr, st.NumFields())}
			rows[idx.Int64()] = row
		}
		for _, r := range *ia.Referrers() {
			fa, ok := r.(*ssa.FieldAddr)
			if !ok || fa.Referrers() == nil {
				continue
			}
			for _, u := range *fa.Referrers() {
				if s, ok := u.(*ssa.Store); ok && fa.Field < len(row.Args) {
					row.Args[fa.Field] = x.Of(s.Val)
				}
			}
		}
		return true
	}
	if base == ssa.Value(g) {
		for _, b := range init.Blocks {
			for _, in := range b.Instrs {
				if ia, ok := in.(*ssa.IndexAddr); ok && ia.X == ssa.Value(g) {
					if !scan(ia) {
						return nil, false
					}
				}
			}
		}
	} else if base.Referrers() != nil {
		for _, r := range *base.Referrers() {
			if ia, ok := r.(*ssa.IndexAddr); ok {
				if !scan(ia) {
					return nil, false
				}
			}
		}
	}
	if len(rows) == 0 {
		return nil, false
	}
	var out []*an.Expr
	for i := int64(0); i < int64(len(rows)); i++ {
		r, ok := rows[i]
		if !ok {
			return nil, false
		}
		for k, a := range r.Args {
			if a == nil {
				r.Args[k] = &an.Expr{Op: an.OpZero, Typ: st.Field(k).Type(), Name: "zero"}
			}
		}
		out = append(out, r)
	}
	return out, true
}

// isLoopFlagAtom reports whether an atom tests a boolean that is carried from
// one loop iteration to the next under the given name: a loop-header phi (a
// local variable), or a load of a like-named field / local variable that is
// stored inside the loop (state kept in a struct).
func isLoopFlagAtom(a an.PathAtom, name string) bool {
	if a.Cond.Op == an.OpLoop && strings.Contains(a.Cond.String(), name) {
		return true
	}
	if a.If == nil {
		return false
	}
	ld, ok := a.If.Cond.(*ssa.UnOp)
	if !ok || ld.Op != token.MUL {
		return false
	}
	switch x := ld.X.(type) {
	case *ssa.FieldAddr:
		_, _, f := an.FieldAddrName(x)
		return f == name
	case *ssa.Alloc:
		return x.Comment == name
	}
	return false
}


// laterElementPair matches the Overlaps test of a pair loop that visits each
// unordered pair once: x.Overlaps(y) where x is element i of a collection and
// y an element of the sub-slice of the same collection that starts at i+1
// (`for i, a := range s { for _, b := range s[i+1:] {…} }`): the two are
// different elements by construction, no identity test is needed.
func (c *Ctx) laterElementPair(a an.PathAtom) bool {
	e := a.Cond
	if !a.Pos || e.Op != an.OpCall || e.Fn == nil || !strings.HasSuffix(e.Fn.String(), ".Overlaps") || len(e.Args) != 2 {
		return false
	}
	elemOf := func(x *an.Expr) *an.Expr {
		// (…).Prefix of an element
		for x != nil && x.Op == an.OpField && len(x.Args) == 1 {
			x = x.Args[0]
		}
		if x != nil && x.Op == an.OpElem && len(x.Args) == 2 {
			return x
		}
		return nil
	}
	e1, e2 := elemOf(e.Args[0]), elemOf(e.Args[1])
	if e1 == nil || e2 == nil {
		return false
	}
	try := func(outer, inner *an.Expr) bool {
		if inner.Args[0].Op != an.OpSlice || len(inner.Args[0].Args) != 1 {
			return false
		}
		sl, ok := inner.Args[0].V.(*ssa.Slice)
		if !ok || sl.Low == nil || sl.High != nil {
			return false
		}
		if inner.Args[0].Args[0].String() != outer.Args[0].String() {
			return false // not the same collection
		}
		// low is "index of the outer element" + 1, as SSA values
		bo, ok := sl.Low.(*ssa.BinOp)
		if !ok || bo.Op != token.ADD {
			return false
		}
		one := func(v ssa.Value) bool {
			k, isC := v.(*ssa.Const)
			return isC && k.Value != nil && k.Int64() == 1
		}
		idx := outer.Args[1].V
		return idx != nil && ((bo.X == idx && one(bo.Y)) || (bo.Y == idx && one(bo.X)))
	}
	return try(e1, e2) || try(e2, e1)
}

// parallelElem resolves an element S[i] of a local slice that was built as a
// parallel "map" of another one,
//
//	S := make([]T, 0, …); for _, x := range X { S = append(S, g(x)) }
//
// to g(X[i]). Conditions (all on the SSA form): S's loop-carried φ starts from
// an empty make/nil, its back-edge value is the append itself (so every
// iteration that continues appended exactly one element), the appended value
// depends on the loop only through the range index of that same loop, and the
// range index starts at -1 and advances by one. Anything else returns e.
func parallelElem(c *Ctx, e *an.Expr) *an.Expr {
	if e == nil || e.Op != an.OpElem || len(e.Args) != 2 || e.Args[0].Op != an.OpLoop {
		return e
	}
	ph, ok := e.Args[0].V.(*ssa.Phi)
	if !ok || len(ph.Edges) != 2 {
		return e
	}
	hdr := ph.Block()
	var initV, backV ssa.Value
	for k, pr := range hdr.Preds {
		if hdr.Dominates(pr) {
			backV = ph.Edges[k]
		} else {
			initV = ph.Edges[k]
		}
	}
	if initV == nil || backV == nil {
		return e
	}
	switch iv := initV.(type) {
	case *ssa.MakeSlice:
		if k, isC := iv.Len.(*ssa.Const); !isC || k.Int64() != 0 {
			return e
		}
	case *ssa.Const:
		if !iv.IsNil() {
			return e
		}
	default:
		return e
	}
	call, ok := backV.(*ssa.Call)
	if !ok {
		return e
	}
	if b, isB := call.Call.Value.(*ssa.Builtin); !isB || b.Name() != "append" || len(call.Call.Args) != 2 || call.Call.Args[0] != ssa.Value(ph) {
		return e
	}
	sl, ok := call.Call.Args[1].(*ssa.Slice)
	if !ok {
		return e
	}
	al, ok := sl.X.(*ssa.Alloc)
	if !ok || al.Referrers() == nil {
		return e
	}
	arr, ok := al.Type().Underlying().(*types.Pointer).Elem().Underlying().(*types.Array)
	if !ok || arr.Len() != 1 {
		return e
	}
	var stored ssa.Value
	for _, r := range *al.Referrers() {
		if ia, ok := r.(*ssa.IndexAddr); ok && ia.Referrers() != nil {
			for _, rr := range *ia.Referrers() {
				if st, ok := rr.(*ssa.Store); ok && st.Addr == ssa.Value(ia) {
					if stored != nil {
						return e
					}
					stored = st.Val
				}
			}
		}
	}
	if stored == nil {
		return e
	}
	// the range index of the same loop: φ(-1, φ+1) in the same header
	var ridx *ssa.Phi
	for _, in := range hdr.Instrs {
		p2, ok := in.(*ssa.Phi)
		if !ok {
			break
		}
		if p2 == ph || len(p2.Edges) != 2 {
			continue
		}
		okInit, okStep := false, false
		for k, pr := range hdr.Preds {
			if hdr.Dominates(pr) {
				if bo, ok := p2.Edges[k].(*ssa.BinOp); ok && bo.Op == token.ADD && bo.X == ssa.Value(p2) {
					if k1, isC := bo.Y.(*ssa.Const); isC && k1.Int64() == 1 {
						okStep = true
					}
				}
			} else if k0, isC := p2.Edges[k].(*ssa.Const); isC && k0.Value != nil && k0.Int64() == -1 {
				okInit = true
			}
		}
		if okInit && okStep {
			ridx = p2
		}
	}
	if ridx == nil {
		return e
	}
	// the appended value depends on the loop only through X[rangeindex+1]: in the backward slice of
	// the stored value (within the loop) the range index is used by nothing but its own increment,
	// and the increment by nothing but element addresses
	var step ssa.Value
	for k, pr := range hdr.Preds {
		if hdr.Dominates(pr) {
			step = ridx.Edges[k]
		}
	}
	seenV := map[ssa.Value]bool{}
	okSlice := true
	var back func(v ssa.Value)
	back = func(v ssa.Value) {
		if v == nil || seenV[v] || !okSlice {
			return
		}
		seenV[v] = true
		in, isInstr := v.(ssa.Instruction)
		if !isInstr || in.Block() == nil || !hdr.Dominates(in.Block()) {
			return // defined before the loop
		}
		if v == ssa.Value(ridx) || v == ssa.Value(ph) {
			okSlice = false
			return
		}
		if ia, ok := v.(*ssa.IndexAddr); ok && ia.Index == step {
			back(ia.X)
			return
		}
		if v == step {
			okSlice = false // used other than as an element index
			return
		}
		if _, isPhi := v.(*ssa.Phi); isPhi {
			okSlice = false
			return
		}
		for _, op := range in.Operands(nil) {
			if *op != nil {
				back(*op)
			}
		}
	}
	back(stored)
	if !okSlice {
		return e
	}
	// the stand-alone evaluation resolves the range index to its first value: elements read at
	// "(-1 + 1)" are the elements at the range index
	g := c.XO.Of(stored)
	bad := false
	var subst func(x *an.Expr) *an.Expr
	subst = func(x *an.Expr) *an.Expr {
		if x == nil {
			return nil
		}
		if x.Op == an.OpLoop {
			bad = true
			return x
		}
		cp := *x
		cp.Args = make([]*an.Expr, len(x.Args))
		for i, a := range x.Args {
			cp.Args[i] = subst(a)
		}
		if cp.Op == an.OpElem && len(cp.Args) == 2 && x.Args[1].String() == "(-1 + 1)" {
			cp.Args[1] = e.Args[1]
		}
		// an element of φ(nil, X) is an element of X: nil has none
		if cp.Op == an.OpElem && len(cp.Args) >= 1 && cp.Args[0].Op == an.OpPhi {
			var only *an.Expr
			nNonNil := 0
			for _, alt := range cp.Args[0].Args {
				if !exprIsNil(alt) {
					only = alt
					nNonNil++
				}
			}
			if nNonNil == 1 {
				cp.Args[0] = only
			}
		}
		return &cp
	}
	out := subst(g)
	if bad {
		return e
	}
	return out
}
