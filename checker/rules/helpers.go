package rules

import (
	"fmt"
	"go/token"
	"sort"
	"strings"

	"crverif/internal/an"
	"crverif/internal/load"

	"golang.org/x/tools/go/ssa"
)

// paths enumerates paths of fn; an enumeration failure is recorded as an
// undecided obligation of rule.
func (c *Ctx) paths(rule string, fn *ssa.Function, opts an.PathOpts) []*an.Path {
	ps, err := c.X.Paths(fn, opts)
	if err != nil {
		c.R.Undecided(rule, "paths:"+c.fname(fn), c.fname(fn), c.pos(fn.Pos()), err.Error())
	}
	return ps
}

// pathsO enumerates paths with every call kept opaque.
func (c *Ctx) pathsO(rule string, fn *ssa.Function, opts an.PathOpts) []*an.Path {
	ps, err := c.XO.Paths(fn, opts)
	if err != nil {
		c.R.Undecided(rule, "paths:"+c.fname(fn), c.fname(fn), c.pos(fn.Pos()), err.Error())
	}
	c.notePaths(fn, len(ps))
	return ps
}

// notePaths accumulates how much was enumerated, for the evidence file.
func (c *Ctx) notePaths(fn *ssa.Function, n int) {
	cur, _ := c.R.Stats["paths_enumerated"].(int)
	c.R.Stats["paths_enumerated"] = cur + n
	m, _ := c.R.Stats["functions_path_enumerated"].(map[string]int)
	if m == nil {
		m = map[string]int{}
		c.R.Stats["functions_path_enumerated"] = m
	}
	if n > m[c.fname(fn)] {
		m[c.fname(fn)] = n
	}
}

// inlineAllModule enumerates module-local loop-free callees path by path.
func inlineLoopFree(f *ssa.Function) bool {
	if !load.InModule(f) {
		return false
	}
	for _, b := range f.Blocks {
		for _, p := range b.Preds {
			if b.Dominates(p) {
				return false
			}
		}
	}
	return true
}

func atomsString(p *an.Path) string {
	var as []string
	for _, a := range p.Atoms {
		as = append(as, a.String())
	}
	return strings.Join(as, " ∧ ")
}

// pathKind renders how a path ends.
func pathKind(p *an.Path) string {
	switch {
	case p.Cut:
		return fmt.Sprintf("loop-back→b%d", p.CutTo.Index)
	case p.Panic != nil:
		return "panic"
	}
	return "return"
}

// cmpAtom matches an atom `X op K` (either operand order, polarity folded)
// and returns the effective operator such that the atom asserts `x effOp k`.
func effCmp(a an.PathAtom) (x, y *an.Expr, op token.Token, ok bool) {
	e := a.Cond
	if e.Op != an.OpBin {
		return nil, nil, 0, false
	}
	switch e.Tok {
	case token.EQL, token.NEQ, token.LSS, token.LEQ, token.GTR, token.GEQ:
	default:
		return nil, nil, 0, false
	}
	op = e.Tok
	if !a.Pos {
		op = negate(op)
	}
	return e.Args[0], e.Args[1], op, true
}

func negate(op token.Token) token.Token {
	switch op {
	case token.EQL:
		return token.NEQ
	case token.NEQ:
		return token.EQL
	case token.LSS:
		return token.GEQ
	case token.GEQ:
		return token.LSS
	case token.GTR:
		return token.LEQ
	case token.LEQ:
		return token.GTR
	}
	return op
}

func flip(op token.Token) token.Token {
	switch op {
	case token.LSS:
		return token.GTR
	case token.GTR:
		return token.LSS
	case token.LEQ:
		return token.GEQ
	case token.GEQ:
		return token.LEQ
	}
	return op
}

// metricEmits returns the metric emissions (field name → instructions) executed on a path.
// A call to a small module-local helper that emits the same metrics on each of
// its return paths counts as those emissions (the call instruction stands for them).
func metricEmits(p *an.Path) map[string][]ssa.CallInstruction {
	out := map[string][]ssa.CallInstruction{}
	p.Instrs(func(in ssa.Instruction) {
		ci, ok := in.(ssa.CallInstruction)
		if !ok {
			return
		}
		if name, ok := an.MetricCall(ci.Common()); ok {
			out[name] = append(out[name], ci)
			return
		}
		if callee := an.StaticCallee(ci.Common()); callee != nil && load.InModule(callee) {
			for name, n := range emissionSummary(callee, 0) {
				for i := 0; i < n; i++ {
					out[name] = append(out[name], ci)
				}
			}
		}
	})
	return out
}

var emitSummaries = map[*ssa.Function]map[string]int{}

// emissionSummary returns the metric emissions a loop-free helper performs on
// every return path (nil when paths differ, the helper loops, or it emits nothing).
func emissionSummary(fn *ssa.Function, depth int) map[string]int {
	if s, ok := emitSummaries[fn]; ok {
		return s
	}
	emitSummaries[fn] = nil
	if fn.Blocks == nil || depth > 2 || !inlineLoopFree(fn) || len(fn.Blocks) > 12 {
		return nil
	}
	// quick reject: no metric call reachable syntactically
	any := false
	for _, b := range fn.Blocks {
		for _, in := range b.Instrs {
			if ci, ok := in.(ssa.CallInstruction); ok {
				if _, ok := an.MetricCall(ci.Common()); ok {
					any = true
				}
				if callee := an.StaticCallee(ci.Common()); callee != nil && callee != fn && load.InModule(callee) && emissionSummary(callee, depth+1) != nil {
					any = true
				}
			}
		}
	}
	if !any {
		return nil
	}
	var common map[string]int
	first := true
	okAll := true
	// enumerate block paths (no SEE needed)
	var walk func(b *ssa.BasicBlock, acc map[string]int, seen map[*ssa.BasicBlock]bool)
	walk = func(b *ssa.BasicBlock, acc map[string]int, seen map[*ssa.BasicBlock]bool) {
		if seen[b] {
			okAll = false
			return
		}
		seen[b] = true
		defer delete(seen, b)
		cur := map[string]int{}
		for k, v := range acc {
			cur[k] = v
		}
		for _, in := range b.Instrs {
			if ci, ok := in.(ssa.CallInstruction); ok {
				if name, ok := an.MetricCall(ci.Common()); ok {
					cur[name]++
				} else if callee := an.StaticCallee(ci.Common()); callee != nil && callee != fn && load.InModule(callee) {
					for k, v := range emissionSummary(callee, depth+1) {
						cur[k] += v
					}
				}
			}
		}
		if len(b.Succs) == 0 {
			if _, isRet := b.Instrs[len(b.Instrs)-1].(*ssa.Return); !isRet {
				return // panic exit
			}
			if first {
				common, first = cur, false
			} else if !sameCounts(common, cur) {
				okAll = false
			}
			return
		}
		for _, s := range b.Succs {
			walk(s, cur, seen)
		}
	}
	walk(fn.Blocks[0], map[string]int{}, map[*ssa.BasicBlock]bool{})
	if !okAll || len(common) == 0 {
		return nil
	}
	emitSummaries[fn] = common
	return common
}

func sameCounts(a, b map[string]int) bool {
	if len(a) != len(b) {
		return false
	}
	for k, v := range a {
		if b[k] != v {
			return false
		}
	}
	return true
}

// callsOnPath returns calls on the path for which pred holds.
func callsOnPath(p *an.Path, pred func(*ssa.CallCommon) bool) []ssa.CallInstruction {
	var out []ssa.CallInstruction
	p.Instrs(func(in ssa.Instruction) {
		if ci, ok := in.(ssa.CallInstruction); ok && pred(ci.Common()) {
			out = append(out, ci)
		}
	})
	return out
}

// isNilConst reports whether e is the constant nil.
func exprIsNil(e *an.Expr) bool { return e.Op == an.OpConst && e.Name == "nil" }

// isZeroValue reports whether e is a zero value / zero constant.
func exprIsZero(e *an.Expr) bool {
	if e.Op == an.OpZero {
		return true
	}
	if e.Op == an.OpConst && (e.Name == "0" || e.Name == "nil" || e.Name == `""` || e.Name == "false") {
		return true
	}
	if e.Op == an.OpStruct && e.Name == "" {
		for _, a := range e.Args {
			if a != nil && !exprIsZero(a) {
				return false
			}
		}
		return true
	}
	return false
}

// isCallObj reports whether e is a call expression to pkg.[recv.]name
// (static or invoke).
func exprCallIs(e *an.Expr, pkgPath, recv, name string) bool {
	if e.Op != an.OpCall {
		return false
	}
	if e.Fn != nil {
		return an.ObjIs(an.FuncObj(e.Fn), pkgPath, recv, name)
	}
	if f, ok := e.Obj.(interface{ Name() string }); ok && f.Name() == name {
		if fo := asFunc(e.Obj); fo != nil {
			return an.IfaceMethodIs(fo, pkgPath, recv, name)
		}
	}
	return false
}

// stripExtract returns the call under an Extract (or e itself) and the index.
func stripExtract(e *an.Expr) (*an.Expr, int) {
	if e.Op == an.OpExtract {
		return e.Args[0], e.Idx
	}
	return e, -1
}

// containsCallTo reports whether e mentions a call to pkg.[recv.]name.
func containsCallTo(e *an.Expr, pkgPath, recv, name string) bool {
	return e.Contains(func(x *an.Expr) bool { return exprCallIs(x, pkgPath, recv, name) })
}

// sameValue reports whether two expressions denote the same SSA value or are
// pure and structurally equal.
func sameValue(a, b *an.Expr) bool {
	if a == nil || b == nil {
		return false
	}
	if a.V != nil && a.V == b.V {
		return true
	}
	return a.String() == b.String()
}

func sortStrings(s []string) { sort.Strings(s) }

// opaque keeps the given functions as opaque calls (not inlined by SEE) until
// the returned restore function is called.
func (c *Ctx) opaque(fns ...*ssa.Function) func() {
	var added []*ssa.Function
	for _, f := range fns {
		if f != nil && !c.X.NoInline[f] {
			c.X.NoInline[f] = true
			added = append(added, f)
		}
	}
	return func() {
		for _, f := range added {
			delete(c.X.NoInline, f)
		}
	}
}
