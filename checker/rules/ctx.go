// Package rules contains the per-property rule sets (R-Cxx-n of DESIGN.md).
package rules

import (
	"fmt"
	"go/token"
	"sort"

	"crverif/internal/an"
	"crverif/internal/load"
	"crverif/internal/ob"

	"golang.org/x/tools/go/ssa"
)

// Import paths used by the rules.
const (
	Mod        = load.ModulePath
	PkgConfig  = Mod + "/internal/config"
	PkgCorerad = Mod + "/internal/corerad"
	PkgCrhttp  = Mod + "/internal/crhttp"
	PkgPlugin  = Mod + "/internal/plugin"
	PkgSystem  = Mod + "/internal/system"
	PkgNet     = Mod + "/internal/netstate"
	PkgNDP     = "github.com/mdlayher/ndp"
)

// Ctx is what a rule set works with.
type Ctx struct {
	P  *load.Program
	R  *ob.Run
	X  *an.Extractor // inlines module-local callees (depth 4)
	XO *an.Extractor // keeps anchored functions opaque, looks through helpers

	callers map[*ssa.Function][]*ssa.Function
	Tier    string
}

// A RuleSet evaluates all rules of one property on one loaded configuration.
type RuleSet struct {
	Property    string
	Technique   string
	Explanation string
	Assumptions []string
	NotCovered  []string
	Run         func(*Ctx)
	// Configs lists extra build configurations worth loading in the
	// thorough tier (linux/amd64 is always loaded).
	AllConfigs bool
}

var Registry = map[string]*RuleSet{}

func register(rs *RuleSet) { Registry[rs.Property] = rs }

// Properties returns registered property ids, sorted.
func Properties() []string {
	var out []string
	for k := range Registry {
		out = append(out, k)
	}
	sort.Strings(out)
	return out
}

// NewCtx builds a rule context.
func NewCtx(p *load.Program, r *ob.Run, tier string) *Ctx {
	c := &Ctx{P: p, R: r, Tier: tier,
		X:  &an.Extractor{InModule: load.InModule, MaxDepth: 4, NoInline: map[*ssa.Function]bool{}},
		XO: &an.Extractor{InModule: load.InModule, MaxDepth: 4, NoInline: map[*ssa.Function]bool{}}}
	c.XO.Inline = c.helperInline(nil)
	return c
}

func (c *Ctx) pos(p token.Pos) string { return c.P.Pos(p) }

func (c *Ctx) fname(fn *ssa.Function) string { return load.FuncName(fn) }

// need returns the function or records an anchor-missing violation.
func (c *Ctx) needFunc(rule, rel, name string) *ssa.Function {
	fn := c.P.Func(rel, name)
	if fn == nil || fn.Blocks == nil {
		c.R.Fail(rule, "anchor:"+rel+"."+name, "", "", "function not found", "function "+rel+"."+name+" exists", "anchor-missing")
		return nil
	}
	return fn
}

func (c *Ctx) needMethod(rule, rel, typ, name string) *ssa.Function {
	fn := c.P.Method(rel, typ, name)
	if fn == nil || fn.Blocks == nil {
		c.R.Fail(rule, fmt.Sprintf("anchor:%s.(%s).%s", rel, typ, name), "", "", "method not found", "method exists", "anchor-missing")
		return nil
	}
	return fn
}

// nonTest filters functions defined outside _test.go files (the loader does
// not load tests, so this is a safety net).
func (c *Ctx) srcFuncs() []*ssa.Function { return c.P.SrcFuncs() }

// instrPos finds a usable position for an instruction.
func instrPos(in ssa.Instruction) token.Pos {
	if p := in.Pos(); p.IsValid() {
		return p
	}
	if v, ok := in.(ssa.Value); ok {
		if refs := v.Referrers(); refs != nil {
			for _, r := range *refs {
				if r.Pos().IsValid() {
					return r.Pos()
				}
			}
		}
	}
	// fall back to any positioned instruction in the block
	if b := in.Block(); b != nil {
		for _, x := range b.Instrs {
			if x.Pos().IsValid() {
				return x.Pos()
			}
		}
	}
	return token.NoPos
}
