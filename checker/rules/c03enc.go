package rules

import (
	"fmt"
	"go/token"
	"strings"

	"crverif/internal/an"
	"crverif/internal/load"

	"golang.org/x/tools/go/ssa"
)

// c03Encodable (R-C03-6): the options whose size depends on the configuration
// (DNSSL names, RDNSS servers, the captive-portal URI) are encoded once by the
// parser, and a configuration whose option does not encode is rejected. The
// size limit itself belongs to package ndp; what is decided here is that
//   - the value handed to the trial encoding is an option of the right kind
//     built from the very values the plugin stores (for RDNSS: one more server
//     when the :: wildcard is present), and
//   - the plugin is returned / appended only on the branch where the encoding
//     succeeded.
func c03Encodable(c *Ctx) {
	// functions that encode their ndp.Option argument with ndp.MarshalMessage
	encoders := map[*ssa.Function]bool{}
	for _, f := range c.srcFuncs() {
		if f.Pkg == nil || !strings.HasSuffix(f.Pkg.Pkg.Path(), "internal/config") || f.Signature.Params().Len() != 1 {
			continue
		}
		if !strings.HasSuffix(typeStr(f.Signature.Params().At(0).Type()), "ndp.Option") {
			continue
		}
		for _, ci := range an.CallsIn(f) {
			if fo := an.CalleeObj(ci.Common()); fo != nil && fo.Name() == "MarshalMessage" && fo.Pkg() != nil && fo.Pkg().Path() == PkgNDP {
				// the error of MarshalMessage is what the function returns
				for _, r := range an.Returns(f) {
					if len(r.Results) == 1 {
						if ex, ok := r.Results[0].(*ssa.Extract); ok && ex.Tuple == ci.(ssa.Value) && ex.Index == 1 {
							encoders[f] = true
						}
					}
				}
			}
		}
	}
	isEnc := func(e *an.Expr) bool {
		return e != nil && e.Op == an.OpCall && e.Fn != nil && (encoders[e.Fn] || e.Fn.String() == PkgNDP+".MarshalMessage")
	}
	// encoded(p): the option expressions that were encoded successfully on the path
	encoded := func(p *an.Path) []*an.Expr {
		var out []*an.Expr
		for _, a := range p.Atoms {
			x, y, op, ok := effCmp(a)
			if !ok || !exprIsNil(y) || op != token.EQL {
				continue
			}
			b, _ := stripExtract(x)
			if b == nil {
				b = x
			}
			if isEnc(b) && len(b.Args) >= 1 {
				out = append(out, b.Args[0])
			}
		}
		return out
	}
	optFields := func(e *an.Expr, typ string) map[string]*an.Expr {
		var lit *an.Expr
		e.Walk(func(x *an.Expr) bool {
			if lit == nil && x.Op == an.OpStruct && strings.HasSuffix(typeStr(x.Typ), typ) {
				lit = x
			}
			return lit == nil
		})
		if lit == nil {
			return nil
		}
		return raHeader(lit)
	}
	inl := map[*ssa.Function]bool{}

	// DNSSL
	if f := c.needFunc("R-C03-6", "internal/config", "parseDNSSL"); f != nil {
		n, bad := 0, ""
		for _, p := range successPaths(c, "R-C03-6", f, inl) {
			flds := raHeader(p.Results[0])
			if flds == nil || flds["DomainNames"] == nil {
				continue
			}
			n++
			ok := false
			for _, o := range encoded(p) {
				if of := optFields(o, "ndp.DNSSearchList"); of != nil && of["DomainNames"] != nil && of["DomainNames"].String() == flds["DomainNames"].String() {
					ok = true
				}
			}
			if !ok {
				bad = "a DNSSL plugin is returned with DomainNames = " + shortExpr(flds["DomainNames"]) + " that were not encoded successfully on that path"
			}
		}
		c.R.Check(n >= 1 && bad == "", "R-C03-6", c.fname(f)+":option-encodable", c.fname(f), c.pos(f.Pos()), fmt.Sprintf("%d accepting path(s); %s", n, bad),
			"the stored domain names were encoded as one DNSSL option and the encoding succeeded", "a DNSSL stanza too large for one option is accepted: the first RA cannot be sent and the daemon exits")
	}
	// RDNSS
	if f := c.needFunc("R-C03-6", "internal/config", "parseRDNSS"); f != nil {
		n, bad := 0, ""
		for _, p := range successPaths(c, "R-C03-6", f, inl) {
			flds := raHeader(p.Results[0])
			if flds == nil || flds["Servers"] == nil {
				continue
			}
			srv := flds["Servers"]
			if exprIsNil(srv) || exprIsZero(srv) {
				continue // the wildcard alone: one server
			}
			n++
			// is the wildcard present on this path? (the branch on the value stored in Auto)
			autoKnown, auto := false, false
			if av := flds["Auto"]; av != nil {
				if av.IsConst("true") {
					autoKnown, auto = true, true
				} else if av.IsConst("false") {
					autoKnown, auto = true, false
				}
				for _, a := range p.Atoms {
					if a.Cond.String() == av.String() {
						autoKnown, auto = true, a.Pos
					}
				}
			}
			ok := false
			why := "no successful trial encoding of a RecursiveDNSServer option on this path"
			for _, o := range encoded(p) {
				of := optFields(o, "ndp.RecursiveDNSServer")
				if of == nil || of["Servers"] == nil {
					continue
				}
				items, fresh := flattenAppend(of["Servers"])
				switch {
				case of["Servers"].String() == srv.String():
					ok = autoKnown && !auto
					why = "the static servers alone were encoded although the wildcard may add one more"
				case fresh && len(items) == 2 && !items[0].spread && items[1].spread && items[1].e.String() == srv.String():
					ok = true // one more than the static servers: covers both cases
				default:
					why = "encoded servers " + shortExpr(of["Servers"]) + " are not the stored ones"
				}
			}
			// nothing to encode: the path established that the list is empty
			for _, a := range p.Atoms {
				x, y, op, okc := effCmp(a)
				if okc && x.Op == an.OpLen && op == token.EQL {
					if k, isC := y.ConstInt(); isC && k == 0 && strings.Contains(x.Args[0].String(), srv.String()) {
						ok = true
					}
				}
			}
			if !ok {
				bad = why
			}
		}
		c.R.Check(n >= 1 && bad == "", "R-C03-6", c.fname(f)+":option-encodable", c.fname(f), c.pos(f.Pos()), fmt.Sprintf("%d accepting path(s) with static servers; %s", n, bad),
			"the stored servers (plus one for the :: wildcard) were encoded as one RDNSS option and the encoding succeeded", "an RDNSS stanza with too many servers for one option is accepted: the first RA cannot be sent and the daemon exits")
	}
	// captive portal: the plugin is appended only where the trial encoding of its option succeeded
	// (in parsePlugins, or in whichever function of package config builds the plugin)
	pp := c.needFunc("R-C03-6", "internal/config", "parsePlugins")
	if pp != nil {
		var mk ssa.CallInstruction
		host := pp
		for _, f := range fnsInPkgs(c, "internal/config") {
			for _, ci := range an.CallsIn(f) {
				if an.CallIs(ci.Common(), PkgPlugin, "", "NewCaptivePortal") {
					mk = ci
					host = f
				}
			}
		}
		pp = host
		fact, ok := "no call of plugin.NewCaptivePortal", false
		if mk != nil {
			fact = "the captive-portal plugin is used without a successful trial encoding of its option"
			mkv := mk.(ssa.Value)
			for _, ci := range an.CallsIn(pp) {
				callee := an.StaticCallee(ci.Common())
				direct := false
				if fo := an.CalleeObj(ci.Common()); fo != nil && fo.Name() == "MarshalMessage" && fo.Pkg() != nil && fo.Pkg().Path() == PkgNDP {
					direct = true
				}
				if !(direct || (callee != nil && encoders[callee] && load.InModule(callee))) || len(ci.Common().Args) < 1 {
					continue
				}
				// the argument is the Portal of NewCaptivePortal's result
				arg := c.XO.Of(ci.Common().Args[0])
				fromMk := arg.Contains(func(x *an.Expr) bool { return x.V == mkv })
				if !fromMk || !strings.Contains(arg.String(), "Portal") {
					continue
				}
				// the nil branch of the test of its error dominates every use of the plugin as an ndp plugin
				encv, _ := ci.(ssa.Value)
				var errv ssa.Value = encv
				if direct {
					for _, r := range *encv.Referrers() {
						if ex, isEx := r.(*ssa.Extract); isEx && ex.Index == 1 {
							errv = ex
						}
					}
				}
				var okBlock *ssa.BasicBlock
				for _, r := range *errv.Referrers() {
					bo, isBin := r.(*ssa.BinOp)
					if !isBin || (bo.Op != token.NEQ && bo.Op != token.EQL) {
						continue
					}
					for _, rr := range *bo.Referrers() {
						if ifi, isIf := rr.(*ssa.If); isIf {
							if bo.Op == token.NEQ {
								okBlock = ifi.Block().Succs[1]
							} else {
								okBlock = ifi.Block().Succs[0]
							}
						}
					}
				}
				if okBlock == nil {
					fact = "the result of the trial encoding is not tested"
					continue
				}
				// uses of the plugin value: MakeInterface to plugin.Plugin (appended to the plugin list)
				used, guarded := 0, 0
				for _, b := range pp.Blocks {
					for _, in := range b.Instrs {
						mi, isMI := in.(*ssa.MakeInterface)
						if !isMI || !strings.HasSuffix(typeStr(mi.X.Type()), "plugin.CaptivePortal") {
							continue
						}
						used++
						if okBlock.Dominates(b) {
							guarded++
						}
					}
				}
				if used >= 1 && used == guarded {
					ok = true
					fact = fmt.Sprintf("%d use(s) of the captive-portal plugin, all dominated by the successful trial encoding of its Portal option", used)
				}
			}
		}
		c.R.Check(ok, "R-C03-6", c.fname(pp)+":captive-portal-encodable", c.fname(pp), c.pos(pp.Pos()), fact,
			"the captive-portal option is encoded once by the parser and the plugin is kept only when that succeeded", "a captive-portal URI too long for one option is accepted: the first RA cannot be sent and the daemon exits")
	}
}
