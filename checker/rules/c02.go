package rules

import (
	"fmt"
	"math/big"
	"os"
	"path/filepath"
	"reflect"
	"sort"
	"strings"

	"go/constant"
	"go/token"
	"go/types"

	"crverif/internal/an"
	"crverif/internal/load"

	"golang.org/x/tools/go/ssa"
)

func init() {
	register(&RuleSet{
		Property: "C02",
		Explanation: "VSA/GUARD/SEE/STRUCT rules on package config: R-C02-1 for every numeric key, the value set accepted on the success paths of the parser (constants, normal forms over max_interval, range-checked user values with both bounds) equals the documented set, per trigger class (absent/auto/empty/infinite/user) and over the whole max_interval domain, including relational bounds (min ≤ 0.75·max truncated, default lifetime ≥ max, preferred ≤ valid); " +
			"R-C02-2 every documented non-numeric constraint appears as the deciding condition of an error return; every error result inside the parser is tested and propagated; R-C02-3 the decoder is strict and the TOML tags of the raw structs equal the keys of reference.toml; " +
			"R-C02-4 non-numeric defaults (on_link/autonomous/source_lla true when omitted, empty prefix/route/servers = wildcard, monitor interfaces carry only name/monitor/verbose); R-C02-5 totality of the module's own code (no panic, unchecked assertion or unguarded nil dereference reachable from Parse)",
		Assumptions: []string{
			"Go type checker and go/ssa construction are correct",
			"go-toml's strict decoder rejects every key that no struct field consumes (go-toml v1.9.5 also consumes the title-case and all-upper-case spellings of a tag, e.g. NAME for name: such keys are aliases to it, not unknown keys — observed by a sub-agent, a property of the library); go-toml, net/netip and time parsers do not panic",
			"float64 arithmetic (0.33·max, 0.75·max) is treated as exact rational arithmetic on the float64 constants",
		},
		NotCovered: []string{"that the documented set is what the RFC wants", "panics inside third-party parsers / arbitrary byte strings through go-toml", "validity of interface names and of the debug address beyond net.ResolveTCPAddr"},
		Run:        runC02,
	})
	register(&RuleSet{
		Property: "C03",
		Explanation: "VSA/PATH rules: R-C03-1 the accepted value set of every duration that reaches an RA header or option field (computed from the parser's success paths, independently of the documentation) lies within [0, max of the wire field] (router lifetime uint16 s, reachable/retransmit uint32 ms, option lifetimes uint32 s with Infinity = 2^32-1 s, PREF64 scaled lifetime ≤ 8191·8 s); " +
			"R-C03-2 narrowing conversions on those flows (uint8(hop limit), uint32(MTU), uint8(prefix bits)) have operands inside the target range; R-C03-3 a PREF64 prefix reaching the option is an IPv6, canonical prefix of NAT64 length; R-C03-4 deprecated countdown results are 0 or a positive remainder (from C16's shape); R-C03-5 build/encode errors are returned, never ignored R-C03-3 also: every accepting path of parseIPPrefix establishes Is6 ∧ ¬Is4In6; R-C03-4 the source link-layer address option is appended only under len(Addr) == 6; R-C03-6 the options whose size depends on the configuration (DNSSL names, RDNSS servers plus one for the wildcard, captive-portal URI) are encoded once by the parser with the very values the plugin stores, and the plugin is kept only where that encoding succeeded; R-C03-3 visits every store to ndp.PREF64.Lifetime in the module: a writer other than NewPREF64 must bound the value to [0, 65528s] by its own expression (constants, min/max).",
		Assumptions: []string{
			"Go type checker and go/ssa construction are correct",
			"ndp v1.1.0 encodes lifetimes by truncating to whole seconds/milliseconds into the unsigned field (read from its source; frozen range table)",
			"the wall clock is at or after the daemon start (for the upper bound of deprecated countdowns)",
		},
		NotCovered: []string{"DNS name well-formedness (excluded by the property's quantifier)", "the size limit itself and the codec (package ndp); R-C03-6 recognises the trial-encoding idiom only, a parser that compared sizes with constants instead would be reported"},
		Run:        runC03,
	})
}

var float033 = new(big.Rat).SetFloat64(0.33)
var float075 = new(big.Rat).SetFloat64(0.75)

type sinkSpec struct {
	sink    string // display name, e.g. Interface.MaxInterval
	raw     string // raw stanza field (or parameter) whose atoms give the trigger class
	pieces  []piece
	wireMax *big.Rat // C03: maximum the wire field can carry (nil: not a wire duration)
	wire    string
}

func identity(max *an.NF) *an.NF { return max }

// documented value sets (reference.toml / property C02)
var (
	specMaxInterval = sinkSpec{"Interface.MaxInterval", "MaxInterval", []piece{
		{classes: "absent", exact: kf(ratS(600)), doc: "max_interval omitted ⇒ 600s"},
		{classes: "user", ranges: [][2]func(*an.NF) *an.NF{{kf(ratS(4)), kf(ratS(1800))}}, doc: "4s <= max_interval <= 1800s"},
	}, nil, ""}
	specMinInterval = sinkSpec{"Interface.MinInterval", "s", []piece{
		{classes: "absent,auto", domLo: ratS(9), domHi: ratS(1800), exact: scaleMax(float033, true), doc: "min_interval omitted/auto ⇒ 0.33·max truncated to 1s (max >= 9s)"},
		{classes: "absent,auto", domLo: ratS(4), domHi: new(big.Rat).Sub(ratS(9), big.NewRat(1, 1)), exact: identity, doc: "min_interval omitted/auto ⇒ max (max < 9s)"},
		{classes: "user", ranges: [][2]func(*an.NF) *an.NF{{kf(ratS(3)), scaleMax(float075, true)}}, doc: "3s <= min_interval <= 0.75·max truncated to 1s"},
	}, nil, ""}
	specDefaultLifetime = sinkSpec{"Interface.DefaultLifetime", "s", []piece{
		{classes: "absent,auto", exact: scaleMax(big.NewRat(3, 1), false), doc: "default_lifetime omitted/auto ⇒ 3·max"},
		{classes: "empty", exact: kf(new(big.Rat)), doc: "default_lifetime \"\" ⇒ 0"},
		{classes: "infinite", reject: true, doc: "default_lifetime \"infinite\" is not permitted"},
		{classes: "user", ranges: [][2]func(*an.NF) *an.NF{{kf(new(big.Rat)), kf(new(big.Rat))}, {identity, kf(ratS(9000))}}, doc: "default_lifetime 0 or within [max_interval, 9000s]"},
	}, ratS(65535), "RouterLifetime uint16 seconds"}
	specReachable = sinkSpec{"Interface.ReachableTime", "ReachableTime", []piece{
		{classes: "absent", exact: kf(new(big.Rat)), doc: "reachable_time omitted ⇒ 0"},
		{classes: "user", ranges: [][2]func(*an.NF) *an.NF{{kf(new(big.Rat)), kf(ratS(3600))}}, doc: "0 <= reachable_time <= 1h"},
	}, new(big.Rat).SetInt64(4294967295 * 1000000), "ReachableTime uint32 milliseconds"}
	specRetransmit = sinkSpec{"Interface.RetransmitTimer", "RetransmitTimer", []piece{
		{classes: "absent", exact: kf(new(big.Rat)), doc: "retransmit_timer omitted ⇒ 0"},
		{classes: "user", ranges: [][2]func(*an.NF) *an.NF{{kf(new(big.Rat)), kf(ratS(3600))}}, doc: "0 <= retransmit_timer <= 1h"},
	}, new(big.Rat).SetInt64(4294967295 * 1000000), "RetransmitTimer uint32 milliseconds"}
	specHopLimit = sinkSpec{"Interface.HopLimit", "HopLimit", []piece{
		{classes: "absent", exact: kf(big.NewRat(64, 1)), doc: "hop_limit omitted ⇒ 64"},
		{classes: "user", ranges: [][2]func(*an.NF) *an.NF{{kf(new(big.Rat)), kf(big.NewRat(255, 1))}}, doc: "0 <= hop_limit <= 255"},
	}, big.NewRat(255, 1), "CurrentHopLimit uint8"}
)

func lifetimeSpec(sink, raw string, def func(*an.NF) *an.NF, defDoc string, zeroOK bool) sinkSpec {
	lo := big.NewRat(1, 1)
	pieces := []piece{
		{classes: "absent,auto", exact: def, doc: raw + " omitted/auto ⇒ " + defDoc},
		{classes: "infinite", exact: kf(ratInfinity), doc: raw + " \"infinite\" ⇒ ndp.Infinity"},
	}
	if zeroOK {
		lo = new(big.Rat)
		pieces = append(pieces, piece{classes: "empty", exact: kf(new(big.Rat)), doc: raw + " \"\" ⇒ 0"})
	} else {
		pieces = append(pieces, piece{classes: "empty", reject: true, doc: raw + " \"\" (zero) is rejected"})
	}
	lod := "positive"
	if zeroOK {
		lod = "not negative"
	}
	rgs := [][2]func(*an.NF) *an.NF{{kf(lo), kf(ratInfinity)}}
	if !zeroOK {
		// prefixes and routes can be deprecated, which excludes the infinite value
		rgs = append(rgs, [2]func(*an.NF) *an.NF{kf(lo), kf(new(big.Rat).Sub(ratInfinity, big.NewRat(1, 1)))})
	}
	pieces = append(pieces, piece{classes: "user", ranges: rgs, doc: raw + " " + lod + " and at most infinite (finite when deprecated)"})
	return sinkSpec{sink, raw, pieces, ratInfinity, "lifetime uint32 seconds"}
}

type sinkResult struct {
	spec sinkSpec
	fn   *ssa.Function
	obs  []*sinkObs
}

var cfgCache = map[*Ctx][]sinkResult{}

// configSinks runs the value-set analysis of the parser once per context.
func configSinks(c *Ctx, rule string) []sinkResult {
	if r, ok := cfgCache[c]; ok {
		return r
	}
	var out []sinkResult
	// the domain of max_interval that the dependent sinks are evaluated under: the documented one for
	// C02 (which checks separately that the parser accepts exactly that domain); for C03 the domain the
	// parser itself accepts (derived below from the MaxInterval observations), so that widening the
	// accepted intervals is seen to push derived lifetimes out of their wire fields
	maxLo, maxHi := ratS(4), ratS(1800)
	maxEnv := func(sym string) an.Env { return an.Env{sym: an.Rng{Lo: maxLo, Hi: maxHi}} }
	pd := c.P.Func("internal/config", "parseDuration")
	inlinePD := map[*ssa.Function]bool{pd: true}

	// parseInterface: direct sinks
	if pi := c.needFunc(rule, "internal/config", "parseInterface"); pi != nil {
		ps := successPaths(c, rule, pi, inlineHelpers(c))
		specs := []sinkSpec{specMaxInterval, specReachable, specRetransmit, specHopLimit}
		res := make([]sinkResult, len(specs))
		for i, sp := range specs {
			res[i] = sinkResult{spec: sp, fn: pi}
		}
		for _, p := range ps {
			flds := raHeader(p.Results[0])
			if flds == nil {
				continue // e.g. the monitor-mode literal is handled by R-C02-4
			}
			if flds["MaxInterval"] == nil || monitorPath(p) {
				continue
			}
			for i, sp := range specs {
				name := strings.TrimPrefix(sp.sink, "Interface.")
				v := flds[name]
				if v == nil {
					continue
				}
				var maxE *an.Expr
				if name != "MaxInterval" {
					maxE = nil
				}
				if o := observe(p, v, sp.raw, maxE, an.Env{}, nil); o != nil {
					res[i].obs = append(res[i].obs, o)
				}
			}
		}
		out = append(out, res...)
		if strings.HasPrefix(rule, "R-C03") {
			var lo, hi *big.Rat
			for _, o := range res[0].obs {
				if rg, ok := obsRange(o); ok {
					if lo == nil || rg.Lo.Cmp(lo) < 0 {
						lo = rg.Lo
					}
					if hi == nil || rg.Hi.Cmp(hi) > 0 {
						hi = rg.Hi
					}
				}
			}
			if lo != nil && hi != nil {
				maxLo, maxHi = lo, hi
			}
		}
	}
	// parseMinInterval / parseDefaultLifetime: standalone with the max contract
	if f := c.needFunc(rule, "internal/config", "parseMinInterval"); f != nil {
		r := sinkResult{spec: specMinInterval, fn: f}
		r.spec.raw = f.Params[0].Name()
		maxP := &an.Expr{Op: an.OpParam, Name: f.Params[1].Name(), Idx: 1, Fn: f, Typ: f.Params[1].Type()}
		for _, p := range successPaths(c, rule, f, nil) {
			if o := observe(p, p.Results[0], r.spec.raw, maxP, maxEnv("$"+f.Params[1].Name()), nil); o != nil {
				r.obs = append(r.obs, o)
			}
		}
		out = append(out, r)
	}
	if f := c.needFunc(rule, "internal/config", "parseDefaultLifetime"); f != nil {
		r := sinkResult{spec: specDefaultLifetime, fn: f}
		r.spec.raw = f.Params[0].Name()
		maxP := &an.Expr{Op: an.OpParam, Name: f.Params[1].Name(), Idx: 1, Fn: f, Typ: f.Params[1].Type()}
		for _, p := range successPaths(c, rule, f, inlinePD) {
			if o := observe(p, p.Results[0], r.spec.raw, maxP, maxEnv("$"+f.Params[1].Name()), nil); o != nil {
				r.obs = append(r.obs, o)
			}
		}
		out = append(out, r)
	}
	h24 := kf(ratS(24 * 3600))
	h4 := kf(ratS(4 * 3600))
	type plug struct {
		fn     string
		fields []sinkSpec
		maxPar int // index of the maxInterval parameter, -1 if none
	}
	for _, pl := range []plug{
		{"parsePrefix", []sinkSpec{lifetimeSpec("Prefix.ValidLifetime", "ValidLifetime", h24, "24h", false), lifetimeSpec("Prefix.PreferredLifetime", "PreferredLifetime", h4, "4h", false)}, -1},
		{"parseRoute", []sinkSpec{lifetimeSpec("Route.Lifetime", "Lifetime", h24, "24h", false)}, -1},
		{"parseRDNSS", []sinkSpec{lifetimeSpec("RDNSS.Lifetime", "Lifetime", scaleMax(big.NewRat(3, 1), false), "3·max_interval", true)}, 1},
		{"parseDNSSL", []sinkSpec{lifetimeSpec("DNSSL.Lifetime", "Lifetime", scaleMax(big.NewRat(3, 1), false), "3·max_interval", true)}, 1},
	} {
		f := c.needFunc(rule, "internal/config", pl.fn)
		if f == nil {
			continue
		}
		res := make([]sinkResult, len(pl.fields))
		for i, sp := range pl.fields {
			res[i] = sinkResult{spec: sp, fn: f}
		}
		var maxP *an.Expr
		env := an.Env{}
		if pl.maxPar >= 0 {
			maxP = &an.Expr{Op: an.OpParam, Name: f.Params[pl.maxPar].Name(), Idx: pl.maxPar, Fn: f, Typ: f.Params[pl.maxPar].Type()}
			env = maxEnv("$" + f.Params[pl.maxPar].Name())
		}
		for _, p := range successPaths(c, rule, f, inlinePD) {
			flds := raHeader(p.Results[0])
			if flds == nil {
				continue
			}
			for i, sp := range pl.fields {
				name := strings.SplitN(sp.sink, ".", 2)[1]
				v := flds[name]
				if v == nil {
					continue
				}
				// SSA values stored into the other sink fields of this literal (for relational checks)
				oth := map[string]ssa.Value{}
				for _, sp2 := range pl.fields {
					n2 := strings.SplitN(sp2.sink, ".", 2)[1]
					if n2 == name {
						continue
					}
					for _, fs := range an.FindFieldStores([]*ssa.Function{f}, PkgPlugin, strings.SplitN(sp2.sink, ".", 2)[0], n2) {
						oth[n2] = fs.Store.Val
					}
				}
				if o := observe(p, v, sp.raw, maxP, env, oth); o != nil {
					res[i].obs = append(res[i].obs, o)
				}
			}
		}
		out = append(out, res...)
	}
	cfgCache[c] = out
	return out
}

func runC02(c *Ctx) {
	for _, r := range configSinks(c, "R-C02-1") {
		checkAgainst(c, "R-C02-1", r.spec.sink, c.fname(r.fn), c.pos(r.fn.Pos()), r.obs, r.spec.pieces)
	}
	c.R.Floor("R-C02-1", 40)
	c02Glue(c)
	c02Relational(c)
	c02MTU(c)
	c02Reject(c)
	rdnssEveryServerChecked(c, "R-C02-2")
	c02Strict(c)
	c02Defaults(c)
	c02Totality(c)
}

// c02Glue: parseInterface threads the validated max interval and the raw keys
// into the helper parsers, and stores their results in the like-named fields.
func c02Glue(c *Ctx) { configGlue(c, "R-C02-1") }

// configGlue is shared with C05: the interval pair stored in the Interface is the pair the helper
// parsers validated against each other.
func configGlue(c *Ctx, glueRule string) {
	pi := c.P.Func("internal/config", "parseInterface")
	if pi == nil {
		return
	}
	fn := c.fname(pi)
	done := map[string]bool{}
	for _, p := range successPaths(c, glueRule, pi, nil) {
		flds := raHeader(p.Results[0])
		if flds == nil || flds["MaxInterval"] == nil || monitorPath(p) {
			continue
		}
		maxV := flds["MaxInterval"]
		type glue struct {
			field, callee, rawArg string
			maxArg                int
		}
		for _, g := range []glue{
			{"MinInterval", "parseMinInterval", "MinInterval", 1},
			{"DefaultLifetime", "parseDefaultLifetime", "DefaultLifetime", 1},
			{"Preference", "parsePreference", "Preference", -1},
			{"Plugins", "parsePlugins", "", 1},
		} {
			v := flds[g.field]
			ok := v != nil
			fact := fmt.Sprintf("%s ⇐ %v", g.field, v)
			if ok {
				b, idx := stripExtract(v)
				ok = idx == 0 && exprCallIs(b, PkgConfig, "", g.callee)
				if ok && g.rawArg != "" {
					ok = b.Args[0].IsField(g.rawArg) && b.Args[0].Args[0].Op == an.OpParam
				}
				if ok && g.rawArg == "" {
					ok = b.Args[0].Op == an.OpParam
				}
				if ok && g.maxArg >= 0 {
					ok = sameValue(b.Args[g.maxArg], maxV)
				}
			}
			key := fn + ":glue:" + g.field
			if done[key] && ok {
				continue
			}
			done[key] = true
			c.R.Check(ok, glueRule, key, fn, c.pos(p.Ret.Pos()), fact,
				fmt.Sprintf("%s(<raw %s>, <the validated max interval>)#0", g.callee, g.rawArg), "a derived default or bound is computed from something other than the configured, validated max_interval / the key's own raw value")
		}
	}
	// parsePlugins hands its own maxInterval parameter to the stanza parsers and NewPREF64
	if pp := c.P.Func("internal/config", "parsePlugins"); pp != nil {
		for _, ci := range an.CallsIn(pp) {
			f := an.CalleeObj(ci.Common())
			if f == nil {
				continue
			}
			if an.ObjIs(f, PkgConfig, "", "parseRDNSS") || an.ObjIs(f, PkgConfig, "", "parseDNSSL") || an.ObjIs(f, PkgPlugin, "", "NewPREF64") {
				e := c.XO.Of(ci.Common().Args[1])
				c.R.Check(e.Op == an.OpParam && e.Idx == 1, glueRule, c.fname(pp)+":max-to-"+f.Name(), c.fname(pp), c.pos(ci.Pos()), f.Name()+"(_, "+e.String()+")", "its maxInterval parameter", "3·max defaults computed from another value")
			}
		}
	}
}

// c02Relational: preferred <= valid on every accepted prefix.
func c02Relational(c *Ctx) {
	f := c.P.Func("internal/config", "parsePrefix")
	pd := c.P.Func("internal/config", "parseDuration")
	if f == nil {
		return
	}
	fn := c.fname(f)
	bad := ""
	n := 0
	for _, p := range successPaths(c, "R-C02-1", f, map[*ssa.Function]bool{pd: true}) {
		flds := raHeader(p.Results[0])
		if flds == nil {
			continue
		}
		v, pr := flds["ValidLifetime"], flds["PreferredLifetime"]
		if v == nil || pr == nil {
			continue
		}
		n++
		ok := false
		for _, a := range p.Atoms {
			x, y, op, okc := effCmp(a)
			if !okc {
				continue
			}
			if sameValue(x, pr) && sameValue(y, v) && (op == token.LEQ || op == token.LSS || op == token.EQL) {
				ok = true
			}
			if sameValue(x, v) && sameValue(y, pr) && (op == token.GEQ || op == token.GTR || op == token.EQL) {
				ok = true
			}
		}
		if !ok {
			// both constants?
			vn, ok1 := an.Norm(v)
			pn, ok2 := an.Norm(pr)
			if ok1 && ok2 {
				env, _ := pathEnv(p, an.Env{})
				ok = env.Compare(pn, token.LEQ, vn) == an.TriTrue
			}
		}
		if !ok {
			bad = fmt.Sprintf("preferred=%s valid=%s under %s", pr, v, atomsString(p))
		}
	}
	c.R.Check(bad == "" && n > 0, "R-C02-1", fn+":preferred<=valid", fn, c.pos(f.Pos()), fmt.Sprintf("%d accepted path(s) checked; counterexample: %q", n, bad),
		"preferred_lifetime <= valid_lifetime on every accepted prefix", "a prefix whose preferred lifetime exceeds its valid lifetime is accepted")
}

// c02MTU: the MTU handed to NewMTU is within [1, 65536]; 0 ⇒ no plugin.
func c02MTU(c *Ctx) {
	pp := c.P.Func("internal/config", "parsePlugins")
	if pp == nil {
		return
	}
	fn := c.fname(pp)
	var obs []*sinkObs
	noPluginOK := true
	for _, p := range successPaths(c, "R-C02-1", pp, nil) {
		calls := callsOnPath(p, func(cc *ssa.CallCommon) bool { return an.CallIs(cc, PkgPlugin, "", "NewMTU") })
		if len(calls) == 0 {
			// must be the mtu == 0 path
			zero := false
			for _, a := range p.Atoms {
				x, y, op, ok := effCmp(a)
				if ok && x.IsField("MTU") && op == token.EQL {
					if k, isC := y.ConstInt(); isC && k == 0 {
						zero = true
					}
				}
			}
			if !zero {
				noPluginOK = false
			}
			continue
		}
		if o := observe(p, p.Of(calls[0].Common().Args[0]), "MTU", nil, an.Env{}, nil); o != nil {
			obs = append(obs, o)
		}
	}
	spec := []piece{{classes: "user", ranges: [][2]func(*an.NF) *an.NF{{kf(big.NewRat(1, 1)), kf(big.NewRat(65536, 1))}}, doc: "0 <= mtu <= 65536, 0 meaning no MTU option"}}
	checkAgainst(c, "R-C02-1", "plugin.MTU", fn, c.pos(pp.Pos()), obs, spec)
	c.R.Check(noPluginOK, "R-C02-1", fn+":mtu-zero-means-none", fn, c.pos(pp.Pos()), fmt.Sprintf("paths without an MTU plugin all have mtu == 0: %v", noPluginOK), "mtu = 0 ⇒ no MTU option; otherwise an option", "MTU option dropped for a non-zero value")
}

// ---- R-C02-2 ----------------------------------------------------------------

// A rejection is an error-return path summarised by its deciding atoms.
type rejection struct {
	fn    *ssa.Function
	path  *an.Path
	atoms []an.PathAtom // trailing atoms since the last passed check
}

// rejections enumerates error-return paths of fn and trims each to the atoms
// after the last "passed check" (an atom whose other branch was an error exit).
func rejections(c *Ctx, fn *ssa.Function) []rejection {
	var out []rejection
	ps, _ := c.XO.Paths(fn, an.PathOpts{MaxPaths: 400000, InlinePaths: c.helperInline(fn)})
	for _, p := range ps {
		if p.Ret == nil || len(p.Results) == 0 || exprIsNil(p.Results[len(p.Results)-1]) || exprIsZero(p.Results[len(p.Results)-1]) {
			continue
		}
		out = append(out, rejection{fn: fn, path: p, atoms: p.Atoms})
	}
	return out
}

// hasAtom reports whether some atom of the rejection satisfies pred (with polarity folded).
func (r rejection) has(pred func(a an.PathAtom) bool) bool {
	for _, a := range r.atoms {
		if pred(a) {
			return true
		}
	}
	return false
}

func atomCall(name string, pos bool) func(an.PathAtom) bool {
	return func(a an.PathAtom) bool {
		return a.Pos == pos && a.Cond.Op == an.OpCall && a.Cond.Fn != nil && strings.HasSuffix(a.Cond.Fn.String(), name)
	}
}

func lastIs(r rejection, pred func(an.PathAtom) bool) bool {
	// last non-loop atom
	for i := len(r.atoms) - 1; i >= 0; i-- {
		if filterKind(r.atoms[i]) == "loop" {
			continue
		}
		return pred(r.atoms[i])
	}
	return false
}

// rejectRule/rejectOnly let another property share selected rejection obligations.
var (
	rejectRule = "R-C02-2"
	rejectOnly map[string]bool
)

// sharedRejections evaluates the listed rejection obligations of package config under another rule id.
func sharedRejections(c *Ctx, rule string, ids ...string) {
	rejectRule, rejectOnly = rule, map[string]bool{}
	for _, id := range ids {
		rejectOnly[id] = true
	}
	defer func() { rejectRule, rejectOnly = "R-C02-2", nil }()
	c02Reject(c)
}

func c02Reject(c *Ctx) {
	fnames := []string{"Parse", "parseInterfaces", "parseInterface", "parsePreference", "parseIPPrefix", "parsePrefix", "parseRoute", "parsePlugins", "parseRDNSS", "parseDNSSL"}
	rej := map[string][]rejection{}
	for _, n := range fnames {
		if f := c.needFunc("R-C02-2", "internal/config", n); f != nil {
			rej[n] = rejections(c, f)
		}
	}
	cmpAtom := func(a an.PathAtom, match func(x, y *an.Expr, op token.Token) bool) bool {
		x, y, op, ok := effCmp(a)
		if !ok {
			return false
		}
		return match(x, y, op) || match(y, x, flip(op))
	}
	isLenOf := func(e *an.Expr, field string) bool { return e.Op == an.OpLen && e.Args[0].IsField(field) }
	isK := func(e *an.Expr, k int64) bool { v, ok := e.ConstInt(); return ok && v == k }
	isBits := func(e *an.Expr) bool {
		return e.Op == an.OpCall && e.Fn != nil && e.Fn.String() == "(net/netip.Prefix).Bits"
	}
	type oblig struct {
		id, fn, doc string
		match       func(r rejection) bool
	}
	obs := []oblig{
		{"no-interfaces", "Parse", "at least one interface", func(r rejection) bool {
			return lastIs(r, func(a an.PathAtom) bool {
				return cmpAtom(a, func(x, y *an.Expr, op token.Token) bool {
					return isLenOf(x, "Interfaces") && isK(y, 0) && op == token.EQL
				})
			})
		}},
		{"bad-debug-address", "Parse", "valid debug address", func(r rejection) bool {
			return r.has(func(a an.PathAtom) bool {
				return cmpAtom(a, func(x, y *an.Expr, op token.Token) bool {
					return x.IsField("Address") && y.IsConst(`""`) && op == token.NEQ
				})
			}) && lastIs(r, func(a an.PathAtom) bool {
				return cmpAtom(a, func(x, y *an.Expr, op token.Token) bool {
					b, i := stripExtract(x)
					return i == 1 && b.Op == an.OpCall && b.Fn != nil && b.Fn.String() == "net.ResolveTCPAddr" && exprIsNil(y) && op == token.NEQ
				})
			})
		}},
		{"duplicate-interface", "Parse", "every interface name unique", func(r rejection) bool {
			return lastIs(r, func(a an.PathAtom) bool {
				k := seenKey(a)
				return a.Pos && filterKind(a) == "Seen" && k != nil && k.IsField("Name")
			})
		}},
		{"name-and-names", "parseInterfaces", "exactly one of name/names", func(r rejection) bool {
			return r.has(func(a an.PathAtom) bool {
				return cmpAtom(a, func(x, y *an.Expr, op token.Token) bool {
					return x.IsField("Name") && y.IsConst(`""`) && op == token.NEQ
				})
			}) && r.has(func(a an.PathAtom) bool {
				return cmpAtom(a, func(x, y *an.Expr, op token.Token) bool { return isLenOf(x, "Names") && isK(y, 0) && op == token.NEQ })
			})
		}},
		{"neither-name-nor-names", "parseInterfaces", "exactly one of name/names", func(r rejection) bool {
			return r.has(func(a an.PathAtom) bool {
				return cmpAtom(a, func(x, y *an.Expr, op token.Token) bool {
					return x.IsField("Name") && y.IsConst(`""`) && op == token.EQL
				})
			}) && r.has(func(a an.PathAtom) bool {
				return cmpAtom(a, func(x, y *an.Expr, op token.Token) bool { return isLenOf(x, "Names") && isK(y, 0) && op == token.EQL })
			})
		}},
		{"monitor-and-advertise", "parseInterface", "monitor and advertise not both", func(r rejection) bool {
			return len(r.atoms) == 2 && r.atoms[0].Pos && r.atoms[0].Cond.IsField("Monitor") && r.atoms[1].Pos && r.atoms[1].Cond.IsField("Advertise")
		}},
		{"bad-preference", "parsePreference", "preferences in {low,medium,high}", func(r rejection) bool {
			lits := map[string]bool{}
			for _, a := range r.atoms {
				cmpAtom(a, func(x, y *an.Expr, op token.Token) bool {
					if x.Op == an.OpParam && y.Op == an.OpConst && op == token.NEQ {
						lits[y.Name] = true
					}
					return false
				})
			}
			return len(lits) == 4 && lits[`""`] && lits[`"low"`] && lits[`"medium"`] && lits[`"high"`]
		}},
		{"prefix-not-canonical", "parseIPPrefix", "canonical CIDR", func(r rejection) bool {
			return lastIs(r, func(a an.PathAtom) bool {
				return cmpAtom(a, func(x, y *an.Expr, op token.Token) bool {
					return op == token.NEQ && y.Op == an.OpCall && y.Fn != nil && y.Fn.String() == "(net/netip.Prefix).Masked" && sameValue(y.Args[0], x)
				})
			})
		}},
		{"prefix-not-ipv6", "parseIPPrefix", "IPv6 CIDR", func(r rejection) bool { return lastIs(r, atomCall(".Is6", false)) }},
		{"prefix-4in6", "parseIPPrefix", "IPv6 CIDR (not IPv4-mapped)", func(r rejection) bool { return lastIs(r, atomCall(".Is4In6", true)) }},
		{"prefix-single-ip", "parsePrefix", "no /128 prefix", func(r rejection) bool {
			return lastIs(r, atomCall(".IsSingleIP", true)) || lastIs(r, func(a an.PathAtom) bool {
				// equivalent formulation: Bits() == 128 (IPv6 is established by parseIPPrefix)
				return cmpAtom(a, func(x, y *an.Expr, op token.Token) bool {
					return isBits(x) && (isK(y, 128) && (op == token.EQL || op == token.GEQ) || isK(y, 127) && op == token.GTR)
				})
			})
		}},
		{"prefix-wildcard-length", "parsePrefix", "only ::/64 as prefix wildcard", func(r rejection) bool {
			return r.has(atomCall(".IsUnspecified", true)) && lastIs(r, func(a an.PathAtom) bool {
				return cmpAtom(a, func(x, y *an.Expr, op token.Token) bool { return isBits(x) && isK(y, 64) && op == token.NEQ })
			})
		}},
		{"prefix-deprecated-infinite-preferred", "parsePrefix", "deprecated implies finite", func(r rejection) bool {
			// (the two tests in either order: the rejection is decided by the later one)
			dep := func(a an.PathAtom) bool { return a.Pos && a.Cond.IsField("Deprecated") }
			inf := func(a an.PathAtom) bool {
				return cmpAtom(a, func(x, y *an.Expr, op token.Token) bool { return isK(y, 4294967295*nsS) && op == token.EQL })
			}
			return r.has(dep) && r.has(inf) && (lastIs(r, inf) || lastIs(r, dep))
		}},
		{"route-wildcard-length", "parseRoute", "only ::/0 as route wildcard", func(r rejection) bool {
			return r.has(atomCall(".IsUnspecified", true)) && lastIs(r, func(a an.PathAtom) bool {
				return cmpAtom(a, func(x, y *an.Expr, op token.Token) bool { return isBits(x) && isK(y, 0) && op == token.NEQ })
			})
		}},
		{"route-deprecated-infinite", "parseRoute", "deprecated implies finite", func(r rejection) bool {
			// (the two tests in either order: the rejection is decided by the later one)
			dep := func(a an.PathAtom) bool { return a.Pos && a.Cond.IsField("Deprecated") }
			inf := func(a an.PathAtom) bool {
				return cmpAtom(a, func(x, y *an.Expr, op token.Token) bool { return isK(y, 4294967295*nsS) && op == token.EQL })
			}
			return r.has(dep) && r.has(inf) && (lastIs(r, inf) || lastIs(r, dep))
		}},
		{"prefixes-overlap", "parsePlugins", "no overlapping prefixes", func(r rejection) bool {
			return bodyOnly(r, func(a an.PathAtom) bool {
				k := filterKind(a)
				return k == "Overlaps" || isPtrCompare(a, "*plugin.Prefix")
			}) && lastIs(r, func(a an.PathAtom) bool {
				return atomCall(".Overlaps", true)(a) && strings.Contains(a.Cond.String(), "plugin.Prefix") == false && a.Cond.Args[0].IsField("Prefix") && a.Cond.Args[1].IsField("Prefix") &&
					strings.Contains(typeStr(a.Cond.Args[0].Args[0].Typ), "plugin.Prefix")
			}) && (r.has(func(a an.PathAtom) bool {
				return cmpAtom(a, func(x, y *an.Expr, op token.Token) bool {
					return op == token.NEQ && x.Typ != nil && strings.HasSuffix(typeStr(x.Typ), "*plugin.Prefix") && y.Typ != nil && strings.HasSuffix(typeStr(y.Typ), "*plugin.Prefix")
				}) || (isIndexCompare(a) && func() bool { _, _, op, _ := effCmp(a); return op == token.NEQ }())
			}) || r.has(func(a an.PathAtom) bool { return c.laterElementPair(a) }))
		}},
		{"routes-wildcard-once", "parsePlugins", "the ::/0 wildcard route is given at most once", func(r rejection) bool {
			// a "routes overlap" rejection that a pair of two wildcard stanzas can reach: the path does not
			// exclude the wildcard for each route separately
			if !lastIs(r, func(a an.PathAtom) bool {
				return atomCall(".Overlaps", true)(a) && a.Cond.Args[0].IsField("Prefix") && strings.Contains(typeStr(a.Cond.Args[0].Args[0].Typ), "plugin.Route")
			}) {
				return false
			}
			for _, a := range r.atoms {
				x, y, op, ok := effCmp(a)
				if !ok || op != token.NEQ {
					continue
				}
				if (x.IsField("Prefix") && y.Op == an.OpGlobal && y.Name == "config.autoRoute") || (y.IsField("Prefix") && x.Op == an.OpGlobal && x.Name == "config.autoRoute") {
					return false
				}
			}
			return true
		}},
		{"routes-overlap", "parsePlugins", "no overlapping routes (wildcard excluded)", func(r rejection) bool {
			return bodyOnly(r, func(a an.PathAtom) bool {
				k := filterKind(a)
				if k == "Overlaps" || isPtrCompare(a, "*plugin.Route") {
					return true
				}
				// rtN.Prefix == autoRoute, or the "exactly one of the two is the wildcard" form
				// (rt1.Prefix == autoRoute) != (rt2.Prefix == autoRoute)
				isAutoCmp := func(e *an.Expr) bool {
					if e == nil || e.Op != an.OpBin || (e.Tok != token.EQL && e.Tok != token.NEQ) {
						return false
					}
					x, y := e.Args[0], e.Args[1]
					return (x.IsField("Prefix") && y.Op == an.OpGlobal && y.Name == "config.autoRoute") || (y.IsField("Prefix") && x.Op == an.OpGlobal && x.Name == "config.autoRoute")
				}
				if isAutoCmp(a.Cond) {
					return true
				}
				return a.Cond.Op == an.OpBin && (a.Cond.Tok == token.NEQ || a.Cond.Tok == token.EQL) && isAutoCmp(a.Cond.Args[0]) && isAutoCmp(a.Cond.Args[1])
			}) && lastIs(r, func(a an.PathAtom) bool {
				return atomCall(".Overlaps", true)(a) && a.Cond.Args[0].IsField("Prefix") && strings.Contains(typeStr(a.Cond.Args[0].Args[0].Typ), "plugin.Route")
			}) && (r.has(func(a an.PathAtom) bool {
				return cmpAtom(a, func(x, y *an.Expr, op token.Token) bool {
					return op == token.NEQ && x.Typ != nil && strings.HasSuffix(typeStr(x.Typ), "*plugin.Route") && y.Typ != nil && strings.HasSuffix(typeStr(y.Typ), "*plugin.Route")
				}) || (isIndexCompare(a) && func() bool { _, _, op, _ := effCmp(a); return op == token.NEQ }())
			}) || r.has(func(a an.PathAtom) bool { return c.laterElementPair(a) }))
		}},
		{"mtu-out-of-range", "parsePlugins", "0 <= mtu <= 65536", func(r rejection) bool {
			return lastIs(r, func(a an.PathAtom) bool {
				return cmpAtom(a, func(x, y *an.Expr, op token.Token) bool {
					return x.IsField("MTU") && (isK(y, 0) && op == token.LSS || isK(y, 65536) && op == token.GTR)
				})
			})
		}},
		{"rdnss-bad-address", "parseRDNSS", "servers are IP addresses", func(r rejection) bool {
			return lastIs(r, func(a an.PathAtom) bool {
				return cmpAtom(a, func(x, y *an.Expr, op token.Token) bool {
					b, i := stripExtract(x)
					return i == 1 && b.Op == an.OpCall && b.Fn != nil && b.Fn.String() == "net/netip.ParseAddr" && op == token.NEQ
				})
			})
		}},
		{"rdnss-not-ipv6", "parseRDNSS", "servers are IPv6", func(r rejection) bool { return lastIs(r, atomCall(".Is6", false)) }},
		{"rdnss-4in6", "parseRDNSS", "servers are IPv6 (not IPv4-mapped)", func(r rejection) bool { return lastIs(r, atomCall(".Is4In6", true)) }},
		{"rdnss-wildcard-twice", "parseRDNSS", "at most one ::", func(r rejection) bool {
			return r.has(atomCall(".IsUnspecified", true)) && lastIs(r, func(a an.PathAtom) bool { return a.Pos && (a.Cond.Op == an.OpLoop || isLoopFlagAtom(a, "auto")) })
		}},
		{"rdnss-zoned", "parseRDNSS", "servers carry no zone (the wildcard and duplicates are recognised on the address alone)", func(r rejection) bool {
			return lastIs(r, func(a an.PathAtom) bool {
				x, y, op, ok := effCmp(a)
				return ok && op == token.NEQ && y.IsConst(`""`) && x.Op == an.OpCall && x.Fn != nil && x.Fn.String() == "(net/netip.Addr).Zone"
			})
		}},
		{"rdnss-duplicate", "parseRDNSS", "servers unique", func(r rejection) bool {
			return lastIs(r, func(a an.PathAtom) bool { return a.Pos && filterKind(a) == "Seen" })
		}},
		{"dnssl-empty-list", "parseDNSSL", "at least one domain name", func(r rejection) bool {
			return lastIs(r, func(a an.PathAtom) bool {
				return cmpAtom(a, func(x, y *an.Expr, op token.Token) bool {
					return isLenOf(x, "DomainNames") && isK(y, 0) && op == token.EQL
				})
			})
		}},
		{"dnssl-empty-name", "parseDNSSL", "domain names non-empty", func(r rejection) bool {
			return lastIs(r, func(a an.PathAtom) bool {
				return cmpAtom(a, func(x, y *an.Expr, op token.Token) bool {
					// the name itself, or the name in wire form (idna.ToUnicode(strings.TrimSuffix(name, ".")))
					isName := x.Op == an.OpElem || x.Contains(func(z *an.Expr) bool {
						return z.Op == an.OpElem && len(z.Args) == 2 && z.Args[0].IsField("DomainNames")
					})
					return isName && y.IsConst(`""`) && op == token.EQL
				})
			})
		}},
		{"dnssl-empty-label", "parseDNSSL", "domain names have no empty label", func(r rejection) bool {
			// all three forms are rejected: a leading dot, two consecutive dots, and a dot still at the end after the single trailing dot was trimmed (checked on the normalised name)
			return lastIs(r, func(a an.PathAtom) bool {
				e := a.Cond
				if !a.Pos || e.Op != an.OpCall || e.Fn == nil || len(e.Args) != 2 {
					return false
				}
				onName := e.Args[0].Contains(func(z *an.Expr) bool { return z.Op == an.OpElem && len(z.Args) == 2 && z.Args[0].IsField("DomainNames") })
				switch e.Fn.String() {
				case "strings.HasPrefix":
					return onName && e.Args[1].IsConst(`"."`)
				case "strings.HasSuffix":
					return onName && e.Args[1].IsConst(`"."`)
				case "strings.Contains":
					return onName && e.Args[1].IsConst(`".."`)
				}
				return false
			}) && emptyLabelBoth(rej["parseDNSSL"])
		}},
		{"dnssl-duplicate", "parseDNSSL", "domain names unique (compared in the form they have on the wire)", func(r rejection) bool {
			return lastIs(r, func(a an.PathAtom) bool {
				if !a.Pos || filterKind(a) != "Seen" {
					return false
				}
				// the set is keyed by the normalised name: two spellings of one name are one name
				key := seenKey(a)
				return key != nil && isWireFormName(key)
			})
		}},
		{"pref64-bad-prefix", "parsePlugins", "pref64 prefix is a canonical IPv6 CIDR", func(r rejection) bool {
			return lastIs(r, func(a an.PathAtom) bool {
				return cmpAtom(a, func(x, y *an.Expr, op token.Token) bool {
					b, i := stripExtract(x)
					if !(i == 1 && exprIsNil(y) && op == token.NEQ) {
						return false
					}
					if exprCallIs(b, PkgConfig, "", "parseIPPrefix") {
						return true
					}
					return false
				})
			})
		}},
		{"pref64-bad-length", "parsePlugins", "pref64 prefix has a NAT64 length", func(r rejection) bool {
			ks := map[int64]bool{}
			for _, a := range r.atoms {
				if x, set, member, ok := c.memberAtom(a); ok && !member && isBits(x) {
					for _, k := range set {
						ks[k] = true
					}
				}
			}
			return len(ks) == 6 && ks[32] && ks[40] && ks[48] && ks[56] && ks[64] && ks[96]
		}},
	}
	for _, ob := range obs {
		if rejectOnly != nil && !rejectOnly[ob.id] {
			continue
		}
		found := false
		for _, r := range rej[ob.fn] {
			if ob.match(r) {
				found = true
				break
			}
		}
		at := ""
		if f := c.P.Func("internal/config", ob.fn); f != nil {
			at = c.pos(f.Pos())
		}
		c.R.Check(found, rejectRule, "config."+ob.fn+":rejects:"+ob.id, "config."+ob.fn, at, fmt.Sprintf("error return decided by this condition found: %v (%d error paths examined)", found, len(rej[ob.fn])),
			"documented constraint: "+ob.doc, "a configuration violating this documented constraint is accepted")
	}
	if rejectOnly != nil {
		return
	}
	// parsePrefix: deprecated with infinite VALID lifetime too (two disjuncts)
	if rs, ok := rej["parsePrefix"]; ok {
		n := 0
		for _, r := range rs {
			if r.has(func(a an.PathAtom) bool { return a.Pos && a.Cond.IsField("Deprecated") }) {
				n++
			}
		}
		c.R.Check(n >= 2, "R-C02-2", "config.parsePrefix:rejects:prefix-deprecated-infinite-either", "config.parsePrefix", "", fmt.Sprintf("%d error path(s) under Deprecated", n), "deprecated ∧ (preferred infinite ∨ valid infinite) rejected", "a deprecated prefix with one infinite lifetime is accepted")
	}

	// generic error discipline inside package config: every call returning an error is tested and a non-nil error leads to a non-nil error return
	nErr := 0
	for _, n := range fnames {
		f := c.P.Func("internal/config", n)
		if f == nil {
			continue
		}
		nErr += errorDiscipline(c, "R-C02-2", f, "config."+n, "every error inside the parser is tested and propagated", "a parse/validation error is ignored: an invalid value is silently replaced")
	}
	c.R.Check(nErr >= 15, "R-C02-2", "config:error-sites", "", "", fmt.Sprintf("%d error-returning call site(s)", nErr), ">= 15", "anchor-missing")
}

// ---- R-C02-3 ----------------------------------------------------------------

func c02Strict(c *Ctx) {
	parse := c.P.Func("internal/config", "Parse")
	if parse == nil {
		return
	}
	okStrict := false
	for _, ci := range an.CallsIn(parse) {
		f := an.CalleeObj(ci.Common())
		if f != nil && f.Name() == "Decode" && f.Pkg() != nil && strings.Contains(f.Pkg().Path(), "go-toml") {
			recv := c.XO.Of(ci.Common().Args[0])
			if recv.Contains(func(e *an.Expr) bool {
				return e.Op == an.OpCall && e.Fn != nil && e.Fn.Name() == "Strict" && len(e.Args) == 2 && e.Args[1].IsConst("true")
			}) {
				okStrict = true
			}
		}
	}
	c.R.Check(okStrict, "R-C02-3", "config.Parse:strict-decoder", "config.Parse", c.pos(parse.Pos()), fmt.Sprintf("Decode on a decoder with Strict(true): %v", okStrict), "unknown keys are rejected", "unknown keys are silently ignored")

	// keys of reference.toml per table vs. toml tags of the raw structs
	ref := filepath.Join(c.P.Cfg.Repo, "internal/config/reference.toml")
	b, err := os.ReadFile(ref)
	if err != nil {
		c.R.Undecided("R-C02-3", "config:reference.toml", "", "", err.Error())
		return
	}
	docKeys := map[string]map[string]bool{}
	table := ""
	for _, line := range strings.Split(string(b), "\n") {
		l := strings.TrimSpace(line)
		commented := false
		if strings.HasPrefix(l, "# ") && strings.Contains(l, " = ") && !strings.Contains(l, ". ") {
			l = strings.TrimPrefix(l, "# ")
			commented = true
		}
		if strings.HasPrefix(l, "[") {
			table = strings.Trim(l, "[]")
			if docKeys[table] == nil {
				docKeys[table] = map[string]bool{}
			}
			continue
		}
		if strings.HasPrefix(l, "#") || !strings.Contains(l, "=") {
			continue
		}
		k := strings.TrimSpace(strings.SplitN(l, "=", 2)[0])
		if k == "" || strings.ContainsAny(k, " \"") {
			continue
		}
		_ = commented
		if docKeys[table] == nil {
			docKeys[table] = map[string]bool{}
		}
		docKeys[table][k] = true
	}
	structs := map[string]string{"interfaces": "rawInterface", "interfaces.prefix": "rawPrefix", "interfaces.route": "rawRoute", "interfaces.rdnss": "rawRDNSS", "interfaces.dnssl": "rawDNSSL", "interfaces.pref64": "rawPREF64", "debug": "Debug"}
	sub := map[string]bool{"prefix": true, "route": true, "rdnss": true, "dnssl": true, "pref64": true}
	var tables []string
	for t := range structs {
		tables = append(tables, t)
	}
	sort.Strings(tables)
	for _, t := range tables {
		n := c.P.Named("internal/config", structs[t])
		if n == nil {
			c.R.Fail("R-C02-3", "config."+structs[t], "", "", "type missing", "", "anchor-missing")
			continue
		}
		st := n.Underlying().(*types.Struct)
		tags := map[string]bool{}
		for i := 0; i < st.NumFields(); i++ {
			tag := reflect.StructTag(st.Tag(i)).Get("toml")
			if tag != "" && !(t == "interfaces" && sub[tag]) {
				tags[tag] = true
			}
		}
		var missing, extra []string
		for k := range docKeys[t] {
			if !tags[k] {
				missing = append(missing, k)
			}
		}
		for k := range tags {
			if !docKeys[t][k] {
				extra = append(extra, k)
			}
		}
		sort.Strings(missing)
		sort.Strings(extra)
		c.R.Check(len(missing) == 0 && len(extra) == 0 && len(tags) > 0, "R-C02-3", "config."+structs[t]+":toml-tags", "", "", fmt.Sprintf("%d tags; documented keys without a tag: %v; tags not documented: %v", len(tags), missing, extra),
			"the TOML tags of "+structs[t]+" are exactly the keys documented under ["+t+"] in reference.toml", "a documented key is rejected as unknown (or an undocumented key is accepted)")
	}
}

// ---- R-C02-4 ----------------------------------------------------------------

func c02Defaults(c *Ctx) {
	pd := c.P.Func("internal/config", "parseDuration")
	inl := map[*ssa.Function]bool{pd: true}
	// parsePrefix: on_link / autonomous default true when omitted; empty prefix ⇒ ::/64, Auto = prefix == autoPrefix
	if f := c.P.Func("internal/config", "parsePrefix"); f != nil {
		fn := c.fname(f)
		seen := map[string]bool{}
		for _, p := range successPaths(c, "R-C02-4", f, inl) {
			flds := raHeader(p.Results[0])
			if flds == nil {
				continue
			}
			for _, pair := range [][2]string{{"OnLink", "OnLink"}, {"Autonomous", "Autonomous"}} {
				v := flds[pair[0]]
				cl := classOf(p, pair[1])
				key := fmt.Sprintf("%s:%s@%s", fn, pair[0], cl)
				var ok bool
				if cl == "absent" {
					ok = v != nil && v.IsConst("true")
				} else {
					ok = v != nil && v.IsField(pair[1])
				}
				if seen[key] && ok {
					continue
				}
				seen[key] = true
				c.R.Check(ok, "R-C02-4", key, fn, c.pos(p.Ret.Pos()), fmt.Sprintf("%s ⇐ %v", pair[0], v), "true when omitted, otherwise the configured value", "flag default differs from the documented `true`")
			}
			// wildcard
			auto, pf := flds["Auto"], flds["Prefix"]
			valid := false
			for _, a := range p.Atoms {
				if a.Cond.Op == an.OpCall && a.Cond.Fn != nil && a.Cond.Fn.String() == "(net/netip.Prefix).IsValid" {
					valid = a.Pos
				}
			}
			okAuto := auto != nil && auto.Op == an.OpBin && auto.Tok == token.EQL && strings.Contains(auto.String(), "config.autoPrefix") && sameValue(auto.Args[0], pf) || (auto != nil && auto.Op == an.OpBin && sameValue(auto.Args[1], pf))
			okPf := pf != nil
			if !valid {
				okPf = pf != nil && pf.Op == an.OpGlobal && pf.Name == "config.autoPrefix"
			}
			key := fmt.Sprintf("%s:wildcard@given=%v", fn, valid)
			if !(seen[key] && okAuto && okPf) {
				seen[key] = true
				c.R.Check(okAuto && okPf, "R-C02-4", key, fn, c.pos(p.Ret.Pos()), fmt.Sprintf("Prefix ⇐ %v, Auto ⇐ %v", pf, auto), "empty prefix means ::/64; Auto iff the prefix is ::/64", "the empty/wildcard prefix does not expand from interface addresses")
			}
		}
	}
	if f := c.P.Func("internal/config", "parseRoute"); f != nil {
		fn := c.fname(f)
		seen := map[string]bool{}
		for _, p := range successPaths(c, "R-C02-4", f, inl) {
			flds := raHeader(p.Results[0])
			if flds == nil {
				continue
			}
			auto, pf := flds["Auto"], flds["Prefix"]
			valid := false
			for _, a := range p.Atoms {
				if a.Cond.Op == an.OpCall && a.Cond.Fn != nil && a.Cond.Fn.String() == "(net/netip.Prefix).IsValid" {
					valid = a.Pos
				}
			}
			okAuto := auto != nil && auto.Op == an.OpBin && auto.Tok == token.EQL && strings.Contains(auto.String(), "config.autoRoute")
			okPf := pf != nil
			if !valid {
				okPf = pf != nil && pf.Op == an.OpGlobal && pf.Name == "config.autoRoute"
			}
			pref := flds["Preference"]
			okPref := pref != nil
			if okPref {
				b, i := stripExtract(pref)
				okPref = i == 0 && exprCallIs(b, PkgConfig, "", "parsePreference") && b.Args[0].IsField("Preference")
			}
			key := fmt.Sprintf("%s:wildcard@given=%v", fn, valid)
			if seen[key] && okAuto && okPf && okPref {
				continue
			}
			seen[key] = true
			c.R.Check(okAuto && okPf && okPref, "R-C02-4", key, fn, c.pos(p.Ret.Pos()), fmt.Sprintf("Prefix ⇐ %v, Auto ⇐ %v, Preference ⇐ %v", pf, auto, pref), "empty route means ::/0; Auto iff ::/0; preference parsed from the stanza (medium when omitted)", "route wildcard/preference default differs")
		}
	}
	// autoPrefix / autoRoute globals
	for _, g := range [][2]string{{"autoPrefix", `"::/64"`}, {"autoRoute", `"::/0"`}} {
		ok := false
		if sp := c.P.Pkg("internal/config"); sp != nil {
			if init := sp.Func("init"); init != nil {
				for _, b := range init.Blocks {
					for _, in := range b.Instrs {
						if st, isSt := in.(*ssa.Store); isSt {
							if gl, isG := st.Addr.(*ssa.Global); isG && gl.Name() == g[0] {
								e := c.XO.Of(st.Val)
								ok = e.Op == an.OpCall && e.Fn != nil && e.Fn.String() == "net/netip.MustParsePrefix" && e.Args[0].IsConst(g[1])
							}
						}
					}
				}
			}
		}
		c.R.Check(ok, "R-C02-4", "config."+g[0], "", "", fmt.Sprintf("%s = MustParsePrefix(%s): %v", g[0], g[1], ok), "the wildcard sentinel is "+g[1], "wildcard sentinel changed")
	}
	// parsePreference table
	if f := c.P.Func("internal/config", "parsePreference"); f != nil {
		want := map[string]int64{`""`: 0, `"medium"`: 0, `"low"`: 3, `"high"`: 1}
		got := map[string]int64{}
		for _, p := range c.pathsO("R-C02-4", f, an.PathOpts{}) {
			if p.Ret == nil || !exprIsNil(p.Results[1]) {
				continue
			}
			for _, a := range p.Atoms {
				x, y, op, ok := effCmp(a)
				if ok && op == token.EQL && x.Op == an.OpParam && y.Op == an.OpConst {
					if k, isC := p.Results[0].ConstInt(); isC {
						got[y.Name] = k
					}
				}
			}
		}
		c.R.Check(reflect.DeepEqual(got, want), "R-C02-4", c.fname(f)+":table", c.fname(f), c.pos(f.Pos()), fmt.Sprintf("%v", got), `"" and "medium" ⇒ Medium(0), "low" ⇒ Low(3), "high" ⇒ High(1)`, "preference keyword mapped to the wrong RFC 4191 value")
	}
	// source_lla default on; monitor interfaces carry nothing else
	if pp := c.P.Func("internal/config", "parsePlugins"); pp != nil {
		okAbsent, okTrue, okFalse := false, false, false
		for _, p := range successPaths(c, "R-C02-4", pp, nil) {
			hasLLA := false
			p.Instrs(func(in ssa.Instruction) {
				if mi, ok := in.(*ssa.MakeInterface); ok && strings.HasSuffix(typeStr(mi.X.Type()), "plugin.LLA") {
					hasLLA = true
				}
			})
			cl := ""
			for _, a := range p.Atoms {
				x, y, op, ok := effCmp(a)
				if ok && x.IsField("SourceLLA") && exprIsNil(y) && op == token.EQL {
					cl = "absent"
				}
				if a.Cond.IsField("SourceLLA") {
					if a.Pos {
						cl = "true"
					} else {
						cl = "false"
					}
				}
			}
			switch cl {
			case "absent":
				okAbsent = hasLLA
			case "true":
				okTrue = hasLLA
			case "false":
				okFalse = !hasLLA
			}
		}
		c.R.Check(okAbsent && okTrue && okFalse, "R-C02-4", c.fname(pp)+":source_lla", c.fname(pp), c.pos(pp.Pos()), fmt.Sprintf("omitted⇒LLA:%v true⇒LLA:%v false⇒none:%v", okAbsent, okTrue, okFalse), "source_lla defaults to on", "source link-layer address option default differs")
	}
	if pi := c.P.Func("internal/config", "parseInterface"); pi != nil {
		n := 0
		for _, p := range successPaths(c, "R-C02-4", pi, nil) {
			mon := false
			for _, a := range p.Atoms {
				if a.Cond.IsField("Monitor") && a.Pos {
					mon = true
				}
			}
			if !mon {
				continue
			}
			n++
			flds := raHeader(p.Results[0])
			var set []string
			for k, v := range flds {
				if !exprIsZero(v) {
					set = append(set, k)
				}
			}
			sort.Strings(set)
			c.R.Check(strings.Join(set, ",") == "Monitor,Name,Verbose", "R-C02-4", c.fname(pi)+":monitor-interface", c.fname(pi), c.pos(p.Ret.Pos()), "fields set: "+strings.Join(set, ","), "monitor interfaces carry only name, monitor, verbose", "a monitoring interface carries advertising settings")
		}
		c.R.Check(n >= 1, "R-C02-4", c.fname(pi)+":monitor-path", c.fname(pi), c.pos(pi.Pos()), fmt.Sprintf("%d monitor path(s)", n), ">= 1", "anchor-missing")
	}
	// parseRDNSS: empty servers ⇒ Auto
	if f := c.P.Func("internal/config", "parseRDNSS"); f != nil {
		ok := false
		for _, p := range successPaths(c, "R-C02-4", f, inl) {
			empty := false
			for _, a := range p.Atoms {
				x, y, op, okc := effCmp(a)
				if okc && x.Op == an.OpLen && x.Args[0].IsField("Servers") && op == token.EQL {
					if k, isC := y.ConstInt(); isC && k == 0 {
						empty = true
					}
				}
			}
			if empty {
				flds := raHeader(p.Results[0])
				ok = flds != nil && flds["Auto"] != nil && flds["Auto"].IsConst("true")
			}
		}
		c.R.Check(ok, "R-C02-4", c.fname(f)+":empty-servers-is-wildcard", c.fname(f), c.pos(f.Pos()), fmt.Sprintf("servers omitted ⇒ Auto: %v", ok), "empty servers mean the :: wildcard", "an RDNSS stanza without servers advertises an empty option")
	}
}

// ---- R-C02-5 ----------------------------------------------------------------

func c02Totality(c *Ctx) {
	parse := c.P.Func("internal/config", "Parse")
	if parse == nil {
		return
	}
	reach := an.ModuleReach([]*ssa.Function{parse}, func(f *ssa.Function) bool {
		return f.Pkg != nil && (f.Pkg.Pkg.Path() == PkgConfig)
	}, nil)
	nFn := 0
	for fn := range reach {
		nFn++
		name := c.fname(fn)
		for _, b := range fn.Blocks {
			for _, in := range b.Instrs {
				switch x := in.(type) {
				case *ssa.Panic:
					c.R.Fail("R-C02-5", name+":panic", name, c.pos(x.Pos()), "panic reachable from Parse", "parsing never panics", "a configuration can crash the parser")
				case *ssa.TypeAssert:
					if !x.CommaOk {
						c.R.Fail("R-C02-5", name+":unchecked-type-assertion", name, c.pos(x.Pos()), "unchecked type assertion", "parsing never panics", "a configuration can crash the parser")
					}
				case *ssa.Index:
					c.R.Fail("R-C02-5", name+":index", name, c.pos(x.Pos()), "index expression on a user-sized value", "no indexing outside range loops", "an empty list can crash the parser")
				case *ssa.IndexAddr:
					// range loops over slices index with a guarded counter; other indexing must be on arrays (varargs)
					if _, isArr := x.X.Type().Underlying().(*types.Pointer); isArr {
						continue
					}
					if ph, ok := x.Index.(*ssa.BinOp); ok && ph.Op == token.ADD {
						if p, ok := ph.X.(*ssa.Phi); ok && p.Comment == "rangeindex" {
							continue
						}
					}
					if boundedIndex(fn, x) {
						continue // for i := k; i < len(s); i++ { s[i] }
					}
					c.R.Fail("R-C02-5", name+":index", name, c.pos(x.Pos()), "index expression on a user-sized slice", "no indexing outside range loops", "an empty list can crash the parser")
				case *ssa.BinOp:
					if (x.Op == token.QUO || x.Op == token.REM) && isIntType(x.Type()) {
						if _, isC := x.Y.(*ssa.Const); !isC {
							c.R.Fail("R-C02-5", name+":integer-division", name, c.pos(x.Pos()), "integer division by a non-constant", "no division by user values", "a configuration can divide by zero")
						}
					}
				}
			}
		}
		// nil-guarded dereferences of pointer-typed raw fields
		ps, _ := c.XO.Paths(fn, an.PathOpts{MaxPaths: 400000, EmitCut: true, InlinePaths: c.helperInline(fn)})
		reported := map[string]bool{}
		for _, p := range ps {
			nonNil := map[string]bool{}
			for _, a := range p.Atoms {
				x, y, op, ok := effCmp(a)
				if ok && exprIsNil(y) && op == token.NEQ {
					nonNil[x.String()] = true
				}
			}
			p.Instrs(func(in ssa.Instruction) {
				u, ok := in.(*ssa.UnOp)
				if !ok || u.Op != token.MUL {
					return
				}
				// load of *T where the pointer itself was loaded from a struct field of pointer type (raw optional key) or is a pointer parameter to a basic type
				ptr := u.X
				var key string
				switch pv := ptr.(type) {
				case *ssa.UnOp:
					if fa, ok := pv.X.(*ssa.FieldAddr); ok {
						pkg, typ, f := an.FieldAddrName(fa)
						if pkg == PkgConfig && strings.HasPrefix(typ, "raw") {
							key = typ + "." + f
						}
					}
				case *ssa.Field:
					key = "field"
				case *ssa.Parameter:
					if pt, ok := pv.Type().Underlying().(*types.Pointer); ok {
						if _, basic := pt.Elem().Underlying().(*types.Basic); basic {
							key = "param." + pv.Name()
						}
					}
				}
				if key == "" {
					return
				}
				e := p.Of(ptr)
				ok2 := nonNil[e.String()]
				id := name + ":deref:" + key
				if reported[id] && ok2 {
					return
				}
				reported[id] = true
				c.R.Check(ok2, "R-C02-5", id, name, c.pos(u.Pos()), fmt.Sprintf("dereference of optional key %s; non-nil established on the path: %v", e, ok2), "optional keys are dereferenced only after a nil test", "an omitted key crashes the parser")
			})
		}
	}
	c.R.Check(nFn >= 10, "R-C02-5", "config:functions-reachable-from-Parse", "", "", fmt.Sprintf("%d function(s)", nFn), ">= 10", "anchor-missing")
}

func isIntType(t types.Type) bool {
	b, ok := t.Underlying().(*types.Basic)
	return ok && b.Info()&types.IsInteger != 0
}

// bodyOnly reports whether every atom after the innermost loop entry of the
// rejection satisfies allowed (no extra condition restricts the check).
func bodyOnly(r rejection, allowed func(an.PathAtom) bool) bool {
	start := 0
	for i, a := range r.atoms {
		if filterKind(a) == "loop" {
			start = i + 1
		}
	}
	for _, a := range r.atoms[start:] {
		if !allowed(a) {
			return false
		}
	}
	return true
}

func isPtrCompare(a an.PathAtom, typ string) bool {
	x, y, op, ok := effCmp(a)
	if !ok || (op != token.EQL && op != token.NEQ) {
		return false
	}
	if x.Typ != nil && y.Typ != nil && strings.HasSuffix(typeStr(x.Typ), typ) && strings.HasSuffix(typeStr(y.Typ), typ) {
		return true
	}
	return isIndexCompare(a)
}

// isIndexCompare matches `i == j` / `i != j` between the counters of two
// loops: the index form of "skip the pair of an element with itself".
func isIndexCompare(a an.PathAtom) bool {
	x, y, op, ok := effCmp(a)
	if !ok || (op != token.EQL && op != token.NEQ) {
		return false
	}
	isIdx := func(e *an.Expr) bool {
		nf, okN := an.Norm(e)
		if !okN || nf.Mode != an.ModeNone || len(nf.Lin.T) != 1 {
			return false
		}
		for s := range nf.Lin.T {
			if !strings.HasPrefix(s, "loop:") {
				return false
			}
		}
		return true
	}
	return isIdx(x) && isIdx(y) && x.String() != y.String()
}

// inlineHelpers: in parseInterface, loop-free module-local helpers (range
// checks factored out, small parsers) are enumerated path by path; the four
// glue callees keep their own analyses.
func inlineHelpers(c *Ctx) map[*ssa.Function]bool {
	skip := map[*ssa.Function]bool{}
	for _, n := range []string{"parseMinInterval", "parseDefaultLifetime", "parsePreference", "parsePlugins"} {
		if f := c.P.Func("internal/config", n); f != nil {
			skip[f] = true
		}
	}
	out := map[*ssa.Function]bool{}
	for _, f := range c.srcFuncs() {
		if f.Pkg != nil && f.Pkg.Pkg.Path() == PkgConfig && !skip[f] && inlineLoopFree(f) && f.Parent() == nil {
			out[f] = true
		}
	}
	return out
}

// boundedIndex reports whether the index of s[i] is a loop counter that starts
// at a non-negative constant, only grows, and is tested `i < len(s)` on every
// way to the access (the classic index loop; range loops have their own form).
func boundedIndex(fn *ssa.Function, x *ssa.IndexAddr) bool {
	ph, ok := x.Index.(*ssa.Phi)
	if !ok {
		return false
	}
	for i, pred := range ph.Block().Preds {
		e := ph.Edges[i]
		if ph.Block().Dominates(pred) {
			// back edge: i + positive constant
			bo, ok := e.(*ssa.BinOp)
			if !ok || bo.Op != token.ADD || bo.X != ssa.Value(ph) {
				return false
			}
			k, ok := bo.Y.(*ssa.Const)
			if !ok || k.Value == nil || constant.Sign(k.Value) <= 0 {
				return false
			}
			continue
		}
		k, ok := e.(*ssa.Const)
		if !ok || k.Value == nil || constant.Sign(k.Value) < 0 {
			return false
		}
	}
	g := an.Info(fn).Guard(x.Block())
	if len(g) == 0 {
		return false
	}
	for _, conj := range g {
		found := false
		for _, a := range conj {
			bo, ok := a.Cond.(*ssa.BinOp)
			if !ok || !a.Pos || bo.Op != token.LSS || bo.X != ssa.Value(ph) {
				continue
			}
			if call, ok := bo.Y.(*ssa.Call); ok {
				if b, ok := call.Call.Value.(*ssa.Builtin); ok && b.Name() == "len" && len(call.Call.Args) == 1 {
					if call.Call.Args[0] == x.X || sameFieldLoad(call.Call.Args[0], x.X) {
						found = true
					}
				}
			}
		}
		if !found {
			return false
		}
	}
	return true
}

var errDiscSeen = map[*ssa.Function]bool{}

// errorDiscipline checks, for every call in f that returns an error: the error
// is tested (or handed straight to the caller), and on every path where it is
// non-nil f returns a non-nil error (it is not swallowed). Returns the number
// of call sites examined.
func errorDiscipline(c *Ctx, rule string, f *ssa.Function, label, oracle, bad string) int {
	n := label
	nErr := 0
	// helpers introduced below f obey the same discipline
	for _, ci := range an.CallsIn(f) {
		if callee := an.StaticCallee(ci.Common()); callee != nil && callee != f && callee.Blocks != nil && callee.Parent() == nil && load.InModule(callee) && !anchorFuncs[c.fname(callee)] && !errDiscSeen[callee] {
			errDiscSeen[callee] = true
			nErr += errorDiscipline(c, rule, callee, c.fname(callee), oracle, bad)
		}
	}
	for _, finding := range c.shadowedErrorResults(f) {
		c.R.Fail(rule, n+":shadowed-error-result", n, c.pos(f.Pos()), finding, oracle, bad)
	}
	ps, _ := c.XO.Paths(f, an.PathOpts{MaxPaths: 400000, EmitCut: true, InlinePaths: c.helperInline(f)})
	type st struct{ tested, swallowed bool }
	sites := map[ssa.Value]*st{}
	for _, b := range f.Blocks {
		for _, in := range b.Instrs {
			call, ok := in.(*ssa.Call)
			if !ok {
				continue
			}
			sig := call.Call.Signature()
			if sig.Results().Len() == 0 || types.TypeString(sig.Results().At(sig.Results().Len()-1).Type(), nil) != "error" {
				continue
			}
			if fo := an.CalleeObj(&call.Call); fo != nil && (fo.Pkg() != nil && fo.Pkg().Path() == "fmt" || fo.Pkg() != nil && fo.Pkg().Path() == "errors") {
				continue // constructors
			}
			sites[call] = &st{}
		}
	}
	// the tests of each site's error: If instructions comparing it with nil (identified by SSA
	// operand, so that a helper whose body is enumerated in line is still seen as tested)
	type errIf struct {
		in     *ssa.If
		nonNil int // successor index taken when the error is non-nil
	}
	tests := map[ssa.Value][]errIf{}
	for _, b := range f.Blocks {
		ifi, ok := b.Instrs[len(b.Instrs)-1].(*ssa.If)
		if !ok {
			continue
		}
		bo, ok := ifi.Cond.(*ssa.BinOp)
		if !ok || (bo.Op != token.NEQ && bo.Op != token.EQL) {
			continue
		}
		for _, pair := range [][2]ssa.Value{{bo.X, bo.Y}, {bo.Y, bo.X}} {
			cst, isC := pair[1].(*ssa.Const)
			if !isC || !cst.IsNil() {
				continue
			}
			src := pair[0]
			if ex, ok := src.(*ssa.Extract); ok {
				src = ex.Tuple
			}
			if st := sites[src]; st != nil {
				st.tested = true
				nn := 0
				if bo.Op == token.EQL {
					nn = 1
				}
				tests[src] = append(tests[src], errIf{ifi, nn})
			}
		}
	}
	// an error handed straight to the caller (`return helper(...)`) is propagated, not ignored
	for v, st := range sites {
		call := v.(*ssa.Call)
		if call.Referrers() == nil {
			continue
		}
		for _, r := range *call.Referrers() {
			var errVal ssa.Value
			if ex, ok := r.(*ssa.Extract); ok && ex.Index == call.Call.Signature().Results().Len()-1 {
				errVal = ex
			} else if _, ok := r.(*ssa.Return); ok && call.Call.Signature().Results().Len() == 1 {
				errVal = call
			}
			if errVal == nil || errVal.Referrers() == nil {
				continue
			}
			for _, rr := range *errVal.Referrers() {
				if ret, ok := rr.(*ssa.Return); ok && len(ret.Results) > 0 && ret.Results[len(ret.Results)-1] == errVal {
					st.tested = true
				}
			}
		}
	}
	for _, p := range ps {
		for v, ts := range tests {
			for _, t := range ts {
				for i, blk := range p.Blocks {
					if blk != t.in.Block() {
						continue
					}
					// the next block of this frame on the path
					var next *ssa.BasicBlock
					for _, nb := range p.Blocks[i+1:] {
						if nb.Parent() == f {
							next = nb
							break
						}
					}
					if next == nil && p.Cut && p.CutTo.Parent() == f {
						next = p.CutTo
					}
					if next != blk.Succs[t.nonNil] {
						continue
					}
					if p.Cut || !(p.Ret != nil && !exprIsNil(p.Results[len(p.Results)-1]) && !exprIsZero(p.Results[len(p.Results)-1])) {
						sites[v].swallowed = true
					}
				}
			}
		}
	}
	for v, s := range sites {
		nErr++
		call := v.(*ssa.Call)
		name := "?"
		if fo := an.CalleeObj(&call.Call); fo != nil {
			name = fo.Name()
		}
		c.R.Check(s.tested && !s.swallowed, rule, fmt.Sprintf("%s:error-of-%s", n, name), n, c.pos(call.Pos()), fmt.Sprintf("error tested=%v, non-nil error reaches a non-nil error return=%v", s.tested, !s.swallowed),
			oracle, bad)
	}
	return nErr
}

// sameFieldLoad reports whether two values are loads of the same field path of
// the same parameter or local struct, none of whose fields the function writes
// (a slice field read once for len() and once for indexing).
func sameFieldLoad(a, b ssa.Value) bool {
	path := func(v ssa.Value) (ssa.Value, string, bool) {
		ld, ok := v.(*ssa.UnOp)
		if !ok || ld.Op != token.MUL {
			return nil, "", false
		}
		s := ""
		cur := ld.X
		for {
			fa, ok := cur.(*ssa.FieldAddr)
			if !ok {
				break
			}
			s = fmt.Sprintf(".%d", fa.Field) + s
			cur = fa.X
		}
		return cur, s, s != ""
	}
	ra, pa, oka := path(a)
	rb, pb, okb := path(b)
	if !oka || !okb || ra != rb || pa != pb {
		return false
	}
	// the root is a spilled value parameter or a local that is only initialised once (no field stores)
	al, ok := ra.(*ssa.Alloc)
	if !ok || al.Referrers() == nil {
		_, isParam := ra.(*ssa.Parameter)
		return isParam
	}
	for _, r := range *al.Referrers() {
		if fa, ok := r.(*ssa.FieldAddr); ok && fa.Referrers() != nil {
			for _, u := range *fa.Referrers() {
				if st, ok := u.(*ssa.Store); ok && st.Addr == ssa.Value(fa) {
					return false
				}
			}
		}
	}
	return true
}

// emptyLabelBoth reports whether the rejections of parseDNSSL include one
// decided by strings.HasPrefix(name, ".") and one by strings.Contains(name, "..").
func emptyLabelBoth(rs []rejection) bool {
	// three places for an empty label: in front (leading dot), inside (two consecutive dots) and at the end
	// (a dot left after the one permitted trailing dot was trimmed; not needed when every trailing dot is
	// trimmed with TrimRight)
	pre, mid, suf := false, false, false
	for _, r := range rs {
		if len(r.atoms) == 0 {
			continue
		}
		a := r.atoms[len(r.atoms)-1]
		e := a.Cond
		if !a.Pos || e.Op != an.OpCall || e.Fn == nil || len(e.Args) != 2 {
			continue
		}
		if e.Args[0].Contains(func(z *an.Expr) bool {
			return z.Op == an.OpCall && z.Fn != nil && z.Fn.String() == "strings.TrimRight" && len(z.Args) == 2 && z.Args[1].IsConst(`"."`)
		}) {
			suf = true
		}
		switch e.Fn.String() {
		case "strings.HasPrefix":
			if e.Args[1].IsConst(`"."`) {
				pre = true
			}
		case "strings.HasSuffix":
			if e.Args[1].IsConst(`"."`) {
				suf = true
			}
		case "strings.Contains":
			if e.Args[1].IsConst(`".."`) {
				mid = true
			}
		}
	}
	return pre && mid && suf
}
