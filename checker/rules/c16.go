package rules

import (
	"fmt"
	"go/token"
	"strings"

	"crverif/internal/an"

	"golang.org/x/tools/go/ssa"
)

func init() {
	register(&RuleSet{
		Property: "C16",
		Explanation: "VSA/SEE rules on plugin.Prefix.lifetimes and plugin.Route.lifetime, per path: R-C16-1 non-deprecated ⇒ the configured constants; deprecated ⇒ with one clock read `now` and T = Epoch.Add(<the like-named configured lifetime>), the result is 0 on paths where now ≥ T (Equal ∨ After / ¬Before) and T.Sub(now) on the complementary paths, same T and same now in test and subtraction " +
			"(hence result = max(0, T−now): non-negative, zero from the deadline on, non-increasing in now; preferred ≤ valid at every instant because both use one now and T_p ≤ T_v by config); " +
			"R-C16-2 Epoch is the epoch parameter threaded from config.Parse, which cmd/corerad calls once with time.Now(); nothing else writes Epoch; R-C16-3 the parser rejects deprecated stanzas with an infinite lifetime R-C16-4 the lifetimes stored into the options are the results of lifetime()/lifetimes() on every path of Apply (static and wildcard); R-C16-5 no module code outside package plugin stores the advertised lifetime fields of prefix and route options; R-C16-6 only the configuration parser writes Prefix.Deprecated / Route.Deprecated. R-C16-4 also (shared): buildRA generates the RA anew on every call, so the countdown is what is advertised.",
		Assumptions: []string{
			"Go type checker and go/ssa construction are correct",
			"time.Time.Equal/After/Before/Sub/Add have their documented meaning; preferred ≤ valid is established by C02",
		},
		NotCovered: []string{"monotonicity of the wall clock", "overflow of Epoch.Add for lifetimes near 292 years"},
		Run:        runC16,
	})
}

// clockCalls counts clock reads on a path: time.Now() or a call through a TimeNow field/local.
func isClockExpr(e *an.Expr) bool {
	if e.Op != an.OpCall {
		return false
	}
	if e.Fn != nil && e.Fn.String() == "time.Now" {
		return true
	}
	return strings.HasPrefix(e.Name, "dyn:") && strings.Contains(e.Name, "TimeNow")
}

// deadlineOf matches T = (time.Time).Add(recv.Epoch, recv.<field>) and returns field.
func deadlineOf(e *an.Expr) (string, bool) {
	if e.Op == an.OpCall && e.Fn != nil && e.Fn.String() == "(time.Time).Add" && len(e.Args) == 2 && e.Args[0].IsField("Epoch") && e.Args[1].Op == an.OpField {
		return e.Args[1].Name, true
	}
	return "", false
}

func c16Lifetimes(c *Ctx, fn *ssa.Function, fields []string) {
	name := c.fname(fn)
	ps := c.pathsO("R-C16-1", fn, an.PathOpts{InlinePaths: func(f *ssa.Function) bool { return (f.Pkg == fn.Pkg && inlineLoopFree(f)) || c.helperInline(fn)(f) }})
	nDep := 0
	for _, p := range ps {
		if p.Panic != nil {
			// only the zero-epoch guard may panic
			okGuard := false
			for _, a := range p.Atoms {
				if a.Pos && a.Cond.Op == an.OpCall && a.Cond.Fn != nil && a.Cond.Fn.String() == "(time.Time).IsZero" && a.Cond.Args[0].IsField("Epoch") {
					okGuard = true
				}
			}
			c.R.Check(okGuard, "R-C16-1", name+":panic@"+pathShape(p), name, c.pos(fn.Pos()), "panic under "+atomsString(p), "only the zero-epoch programming-error guard panics (config.Parse always supplies an epoch)", "lifetime computation can panic")
			continue
		}
		if p.Ret == nil || len(p.Results) != len(fields) {
			continue
		}
		dep, depTested := false, false
		// ordering facts now vs T per deadline field
		type ord struct{ ge, lt bool }
		orders := map[string]*ord{}
		var nows []*an.Expr
		for _, a := range p.Atoms {
			e := a.Cond
			if e.IsField("Deprecated") {
				dep, depTested = a.Pos, true
				continue
			}
			if e.Op != an.OpCall || e.Fn == nil || len(e.Args) != 2 {
				continue
			}
			m := e.Fn.String()
			if m != "(time.Time).Equal" && m != "(time.Time).After" && m != "(time.Time).Before" {
				continue
			}
			now, t := e.Args[0], e.Args[1]
			swapped := false
			if !isClockExpr(now) && isClockExpr(t) {
				now, t = t, now
				swapped = true
			}
			f, ok := deadlineOf(t)
			if !ok || !isClockExpr(now) {
				continue
			}
			nows = append(nows, now)
			o := orders[f]
			if o == nil {
				o = &ord{}
				orders[f] = o
			}
			switch {
			case m == "(time.Time).Equal" && a.Pos:
				o.ge = true
			case m == "(time.Time).After" && !swapped:
				if a.Pos {
					o.ge = true
				} else {
					// now <= T; combined with !Equal gives now < T
					o.lt = true
				}
			case m == "(time.Time).After" && swapped: // T.After(now) ≡ now < T
				if a.Pos {
					o.lt = true
				} else {
					o.ge = true
				}
			case m == "(time.Time).Before" && !swapped: // now.Before(T) ≡ now < T
				if a.Pos {
					o.lt = true
				} else {
					o.ge = true
				}
			case m == "(time.Time).Before" && swapped: // T.Before(now) ≡ now > T
				if a.Pos {
					o.ge = true
				} else {
					o.lt = true
				}
			}
		}
		if !depTested {
			c.R.Fail("R-C16-1", name+":deprecated-untested@"+pathShape(p), name, c.pos(p.Ret.Pos()), "returns "+strings.Join(exprStrings(p.Results), ", "), "the Deprecated flag decides between constants and countdown", "deprecation flag ignored")
			continue
		}
		if !dep {
			ok := true
			for i, f := range fields {
				if !(p.Results[i].IsField(f) && p.Results[i].Args[0].Op == an.OpParam) {
					ok = false
				}
			}
			c.R.Check(ok, "R-C16-1", name+":not-deprecated", name, c.pos(p.Ret.Pos()), "returns "+strings.Join(exprStrings(p.Results), ", "),
				"the configured "+strings.Join(fields, ", ")+" unchanged", "non-deprecated stanzas do not advertise their configured constants")
			continue
		}
		nDep++
		// single clock value on the path
		oneClock := true
		for _, n := range nows {
			if !sameValue(n, nows[0]) {
				oneClock = false
			}
		}
		nCalls := 0
		p.Instrs(func(in ssa.Instruction) {
			if ci, ok := in.(ssa.CallInstruction); ok {
				// the read itself, not a helper call whose (inlined) result is the read
				if v, isV := ci.(ssa.Value); isV {
					if e := p.Of(v); isClockExpr(e) && e.V == v {
						nCalls++
					}
				}
			}
		})
		for i, f := range fields {
			o := orders[f]
			res := p.Results[i]
			key := fmt.Sprintf("%s:%s-countdown", name, f)
			var ok bool
			state := "untested"
			if o != nil && o.ge {
				state = "now>=T"
				k, isC := res.ConstInt()
				ok = isC && k == 0
			} else if o != nil && o.lt {
				state = "now<T"
				ok = res.Op == an.OpCall && res.Fn != nil && res.Fn.String() == "(time.Time).Sub" && len(res.Args) == 2
				if ok {
					tf, okT := deadlineOf(res.Args[0])
					ok = okT && tf == f && isClockExpr(res.Args[1]) && len(nows) > 0 && sameValue(res.Args[1], nows[0])
				}
			}
			if o == nil && res.Op == an.OpCall && res.Fn == nil && res.Name == "max" && len(res.Args) == 2 {
				// max(deadline.Sub(now), 0): both cases at once
				rem, zero := res.Args[0], res.Args[1]
				if _, isC := rem.ConstInt(); isC {
					rem, zero = zero, rem
				}
				if k, isC := zero.ConstInt(); isC && k == 0 && rem.Op == an.OpCall && rem.Fn != nil && rem.Fn.String() == "(time.Time).Sub" && len(rem.Args) == 2 {
					tf, okT := deadlineOf(rem.Args[0])
					if okT && tf == f && isClockExpr(rem.Args[1]) {
						state = "max"
						ok = true
						nows = append(nows, rem.Args[1])
						for _, n := range nows {
							if !sameValue(n, nows[0]) {
								oneClock = false
							}
						}
					}
				}
			}
			key += "@" + state
			c.R.Check(ok && oneClock && nCalls == 1, "R-C16-1", key, name, c.pos(p.Ret.Pos()),
				fmt.Sprintf("result[%d] = %s with %s (clock reads on path: %d, single now: %v)", i, res, state, nCalls, oneClock),
				fmt.Sprintf("0 when now >= Epoch.Add(%s); Epoch.Add(%s).Sub(now) when now < it; one clock read", f, f),
				"advertised lifetime is not max(0, deadline − now) for its own deadline: it can be negative, non-zero after the deadline, increase, or preferred can exceed valid")
		}
	}
	c.R.Check(nDep >= 2, "R-C16-1", name+":deprecated-paths", name, c.pos(fn.Pos()), fmt.Sprintf("%d deprecated path(s)", nDep), ">= 2", "anchor-missing")
}

func runC16(c *Ctx) {
	c16Advertised(c)
	c16OnlyPluginsWriteLifetimes(c)
	c16DeprecatedWriters(c)
	freshRA(c, "R-C16-4") // the countdown is only advertised if every RA is generated anew (shared rule)
	if f := c.needMethod("R-C16-1", "internal/plugin", "Prefix", "lifetimes"); f != nil {
		c16Lifetimes(c, f, []string{"ValidLifetime", "PreferredLifetime"})
	}
	if f := c.needMethod("R-C16-1", "internal/plugin", "Route", "lifetime"); f != nil {
		c16Lifetimes(c, f, []string{"Lifetime"})
	}

	// R-C16-2 epoch threading
	for _, typ := range []string{"Prefix", "Route"} {
		n := 0
		for _, fs := range an.FindFieldStores(c.srcFuncs(), PkgPlugin, typ, "Epoch") {
			n++
			e := c.XO.Of(fs.Store.Val)
			ok := e.Op == an.OpParam && fs.Fn.Pkg != nil && fs.Fn.Pkg.Pkg.Path() == PkgConfig && isFreshObject(fs.FA.X)
			c.R.Check(ok, "R-C16-2", fmt.Sprintf("%s:writes-%s.Epoch", c.fname(fs.Fn), typ), c.fname(fs.Fn), c.pos(fs.Store.Pos()), "Epoch ⇐ "+e.String(),
				"Epoch is set once, at construction by the parser, from its epoch parameter", "deadline base is not the daemon start time")
		}
		c.R.Check(n == 1, "R-C16-2", "plugin."+typ+":Epoch-writers", "", "", fmt.Sprintf("%d writer(s)", n), "exactly one (the parser)", "Epoch rewritten after parsing: deadlines move")
	}
	// each time.Time-typed argument on the chain Parse → … → parsePrefix/parseRoute is the caller's own epoch parameter
	for _, callee := range []string{"parsePrefix", "parseRoute", "parsePlugins", "parseInterface", "parseInterfaces"} {
		for _, s := range an.FindCalls(c.srcFuncs(), func(cc *ssa.CallCommon) bool { return an.CallIs(cc, PkgConfig, "", callee) }) {
			for _, a := range s.Common().Args {
				if strings.HasSuffix(typeStr(a.Type()), "time.Time") {
					e := c.XO.Of(a)
					c.R.Check(e.Op == an.OpParam, "R-C16-2", fmt.Sprintf("%s:passes-epoch-to-%s", c.fname(s.Fn), callee), c.fname(s.Fn), c.pos(s.Pos()), "epoch argument "+e.String(),
						"the caller's own epoch parameter", "epoch re-read below config.Parse: stanzas get different deadlines")
				}
			}
		}
	}
	c.R.Floor("R-C16-2", 7)
	for _, s := range an.FindCalls(c.srcFuncs(), func(cc *ssa.CallCommon) bool { return an.CallIs(cc, PkgConfig, "", "Parse") }) {
		args := s.Common().Args
		e := c.XO.Of(args[len(args)-1])
		inLoop := false
		fi := an.Info(s.Fn)
		if fi.Reaches(s.Instr.Block(), s.Instr.Block()) {
			inLoop = true
		}
		c.R.Check(e.Op == an.OpCall && e.Fn != nil && e.Fn.String() == "time.Now" && !inLoop, "R-C16-2", c.fname(s.Fn)+":epoch-is-start-time", c.fname(s.Fn), c.pos(s.Pos()),
			fmt.Sprintf("config.Parse(_, %s), in a loop: %v", e, inLoop), "time.Now() evaluated once at start-up", "epoch is not the daemon start time")
	}

	// R-C16-3 deprecated ⇒ finite
	pd := c.P.Func("internal/config", "parseDuration")
	for _, spec := range []struct {
		fn     string
		fields []string
	}{{"parsePrefix", []string{"ValidLifetime", "PreferredLifetime"}}, {"parseRoute", []string{"Lifetime"}}} {
		f := c.needFunc("R-C16-3", "internal/config", spec.fn)
		if f == nil {
			continue
		}
		ps := c.pathsO("R-C16-3", f, an.PathOpts{InlinePaths: func(g *ssa.Function) bool { return g == pd || c.helperInline(f)(g) }})
		nOK := 0
		bad := ""
		for _, p := range ps {
			if p.Ret == nil || len(p.Results) != 2 || !exprIsNil(p.Results[1]) {
				continue
			}
			// a path counts as "possibly deprecated" unless it established Deprecated == false (the lifetime
			// tests may come first and make the Deprecated test unnecessary)
			nonDep := false
			for _, a := range p.Atoms {
				if a.Cond.IsField("Deprecated") && !a.Pos {
					nonDep = true
				}
			}
			if nonDep {
				continue
			}
			flds := raHeader(p.Results[0])
			for _, fld := range spec.fields {
				v := flds[fld]
				if v == nil {
					bad = fld + " not set"
					continue
				}
				finite := false
				if k, isC := v.ConstInt(); isC && k != 4294967295000000000 {
					finite = true
				}
				for _, a := range p.Atoms {
					x, y, op, ok := effCmp(a)
					if ok && op == token.NEQ && sameValue(x, v) {
						if k, isC := y.ConstInt(); isC && k == 4294967295000000000 {
							finite = true
						}
					}
				}
				if finite {
					nOK++
				} else {
					bad = fmt.Sprintf("%s = %s may be infinite under %s", fld, v, atomsString(p))
				}
			}
		}
		c.R.Check(bad == "" && nOK >= 1, "R-C16-3", c.fname(f)+":deprecated-implies-finite", c.fname(f), c.pos(f.Pos()), fmt.Sprintf("%d accepted deprecated path×field combination(s) proven finite; %s", nOK, bad),
			"every accepted deprecated stanza has lifetimes != ndp.Infinity", "a deprecated stanza with an infinite lifetime never counts down")
	}
}

// c16Advertised (R-C16-4): the lifetimes written into the options are the
// counted-down ones on every path of Apply (static and wildcard): a Route
// Information option carries r.lifetime(), a Prefix Information option
// p.lifetimes() #0 / #1 — never the configured constants.
func c16Advertised(c *Ctx) {
	for _, spec := range []struct {
		typ, opt string
		want     map[string][2]string // field ⇐ (method, result index or "")
	}{
		{"Route", "RouteInformation", map[string][2]string{"RouteLifetime": {"lifetime", ""}}},
		{"Prefix", "PrefixInformation", map[string][2]string{"ValidLifetime": {"lifetimes", "0"}, "PreferredLifetime": {"lifetimes", "1"}}},
	} {
		ap := c.needMethod("R-C16-4", "internal/plugin", spec.typ, "Apply")
		inner := c.P.Method("internal/plugin", spec.typ, "apply")
		if ap == nil {
			continue
		}
		fn := c.fname(ap)
		n := 0
		ps := c.pathsO("R-C16-4", ap, an.PathOpts{EmitCut: true, InlinePaths: func(g *ssa.Function) bool { return g == inner || c.helperInline(ap)(g) }})
		for _, p := range ps {
			p.Instrs(func(in ssa.Instruction) {
				st, ok := in.(*ssa.Store)
				if !ok {
					return
				}
				fa, ok := st.Addr.(*ssa.FieldAddr)
				if !ok {
					return
				}
				pkg, typ, fld := an.FieldAddrName(fa)
				w, watched := spec.want[fld]
				if !watched || typ != spec.opt || !strings.HasSuffix(pkg, "ndp") {
					return
				}
				n++
				e := p.Of(st.Val)
				b, idx := stripExtract(e)
				ok2 := false
				if w[1] == "" {
					ok2 = exprCallIs(e, PkgPlugin, spec.typ, w[0])
				} else {
					ok2 = exprCallIs(b, PkgPlugin, spec.typ, w[0]) && fmt.Sprint(idx) == w[1]
				}
				c.R.Check(ok2, "R-C16-4", fmt.Sprintf("%s:%s.%s@%s", fn, spec.opt, fld, lastAtomName(p)), fn, c.pos(st.Pos()), fmt.Sprintf("%s ⇐ %s", fld, e),
					fmt.Sprintf("the result of %s.%s() for this RA", spec.typ, w[0]), "a deprecated prefix/route is advertised with its configured lifetime instead of the remaining one on this path")
			})
		}
		c.R.Check(n >= 1, "R-C16-4", fn+":lifetime-stores", fn, c.pos(ap.Pos()), fmt.Sprintf("%d lifetime store(s) on enumerated paths", n), ">= 1", "anchor-missing")
	}
}


// c16OnlyPluginsWriteLifetimes (R-C16-5): once a plugin has put the advertised
// lifetimes into its option (R-C16-4) nothing rewrites them: the only module
// code that stores ValidLifetime/PreferredLifetime of a PrefixInformation or
// RouteLifetime of a RouteInformation is package plugin. (A later pass over
// ra.Options, e.g. "withdraw routes while not forwarding", would make the
// advertised value differ from the remaining time and jump back up later.)
func c16OnlyPluginsWriteLifetimes(c *Ctx) {
	n := 0
	for _, fn := range c.srcFuncs() {
		for _, b := range fn.Blocks {
			for _, in := range b.Instrs {
				st, ok := in.(*ssa.Store)
				if !ok {
					continue
				}
				fa, ok := st.Addr.(*ssa.FieldAddr)
				if !ok {
					continue
				}
				pkg, typ, f := an.FieldAddrName(fa)
				if pkg != PkgNDP || !((typ == "PrefixInformation" && (f == "ValidLifetime" || f == "PreferredLifetime")) || (typ == "RouteInformation" && f == "RouteLifetime")) {
					continue
				}
				n++
				inPlugin := fn.Pkg != nil && fn.Pkg.Pkg.Path() == PkgPlugin || (fn.Parent() != nil && fn.Parent().Pkg != nil && fn.Parent().Pkg.Pkg.Path() == PkgPlugin)
				c.R.Check(inPlugin, "R-C16-5", fmt.Sprintf("%s:writes:%s.%s", c.fname(fn), typ, f), c.fname(fn), c.pos(st.Pos()), "written in "+c.fname(fn),
					"advertised lifetimes are written by the plugin that owns the option and by nothing else", "the lifetime on the wire is not the remaining time computed by the plugin (and may increase again later)")
			}
		}
	}
	c.R.Check(n >= 3, "R-C16-5", "module:lifetime-writers", "", "", fmt.Sprintf("%d store(s) to advertised lifetime fields", n), ">= 3 (valid, preferred, route)", "anchor-missing")
}


// c16DeprecatedWriters (R-C16-6): whether a prefix or route counts down is
// decided by the configuration alone: only the parser (package config) writes
// Prefix.Deprecated / Route.Deprecated. A plugin that flags itself deprecated
// at run time makes a non-deprecated stanza advertise decreasing lifetimes.
func c16DeprecatedWriters(c *Ctx) {
	n := 0
	for _, typ := range []string{"Prefix", "Route"} {
		for _, fs := range an.FindFieldStores(c.srcFuncs(), PkgPlugin, typ, "Deprecated") {
			n++
			inConfig := fs.Fn.Pkg != nil && fs.Fn.Pkg.Pkg.Path() == PkgConfig
			c.R.Check(inConfig, "R-C16-6", fmt.Sprintf("%s:writes:%s.Deprecated", c.fname(fs.Fn), typ), c.fname(fs.Fn), c.pos(fs.Store.Pos()), "written in "+c.fname(fs.Fn),
				"only the configuration parser sets Deprecated", "a stanza configured as not deprecated starts counting its lifetimes down")
		}
	}
	c.R.Check(n >= 2, "R-C16-6", "plugin:deprecated-writers", "", "", fmt.Sprintf("%d store(s) to Deprecated", n), ">= 2 (parsePrefix, parseRoute)", "anchor-missing")
}
