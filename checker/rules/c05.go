package rules

import (
	"fmt"
	"go/token"
	"math/big"
	"strings"

	"crverif/internal/an"

	"golang.org/x/tools/go/ssa"
)

func init() {
	register(&RuleSet{
		Property: "C05",
		Explanation: "VSA/PATH/STRUCT rules: R-C05-1 entry contract (arguments of multicastDelay are the loop counter, cfg.MinInterval, cfg.MaxInterval in that order; config guarantees 2s <= min <= max on every accepted path of parseMinInterval); " +
			"R-C05-2 rand.Int63n is called only on the min != max branch with argument max-min (> 0 under the contract); R-C05-3 the wait is Round1s(max) or Round1s(min + [0, max-min-1]) for all symbolic min,max and all draws; " +
			"R-C05-4 the only lowering is the constant 16s under i < 3 ∧ d > 16s (RFC constants checked); R-C05-5 the multicast loop has no exit but ctx.Done(), requests exactly one all-nodes RA per iteration, waits in a cancelable select on time.After(multicastDelay(i,…)) with i counting 0,1,2,…, and runs only when !UnicastOnly",
		Assumptions: []string{
			"Go type checker and go/ssa construction are correct",
			"time.Duration.Round(1s) is monotone and maps x to a multiple of 1s within 0.5s of x",
			"rand.Int63n(n) returns a value in [0,n) and panics iff n <= 0",
			"float64 arithmetic in parseMinInterval is treated as exact rational arithmetic",
		},
		NotCovered: []string{"liveness in real time (goroutine scheduling, channel consumer keeping up)", "loop counter overflow after 2^63 iterations"},
		Run:        runC05,
	})
}

func runC05(c *Ctx) {
	// "for any min/max pair the configuration accepts": the pair stored in the Interface is the pair that
	// parseMinInterval validated (same max value, not a later rounding of it)
	configGlue(c, "R-C05-5")
	md := c.needFunc("R-C05-3", "internal/corerad", "multicastDelay")
	if md == nil {
		return
	}
	fn := c.fname(md)
	scope := c.P.TypesPkg("internal/corerad").Types.Scope()
	if k := scope.Lookup("maxInitialAdv"); k != nil {
		c.R.Check(constVal(k) == 3, "R-C05-4", "corerad.maxInitialAdv", "", c.pos(k.Pos()), fmt.Sprintf("maxInitialAdv = %d", constVal(k)), "3 (MAX_INITIAL_RTR_ADVERTISEMENTS)", "number of initial advertisements differs from RFC 4861")
	} else {
		c.R.Fail("R-C05-4", "corerad.maxInitialAdv", "", "", "constant missing", "", "anchor-missing")
	}
	if k := scope.Lookup("maxInitialAdvInterval"); k != nil {
		c.R.Check(constVal(k) == 16000000000, "R-C05-4", "corerad.maxInitialAdvInterval", "", c.pos(k.Pos()), fmt.Sprintf("maxInitialAdvInterval = %dns", constVal(k)), "16s (MAX_INITIAL_RTR_ADVERT_INTERVAL)", "initial advertisement interval differs from RFC 4861")
	} else {
		c.R.Fail("R-C05-4", "corerad.maxInitialAdvInterval", "", "", "constant missing", "", "anchor-missing")
	}

	// loop-free helpers factored out of multicastDelay are enumerated in line
	ps := c.pathsO("R-C05-3", md, an.PathOpts{InlinePaths: func(f *ssa.Function) bool { return (f.Pkg == md.Pkg && inlineLoopFree(f)) || c.helperInline(md)(f) }})
	pmin, pmax := "$"+md.Params[2].Name(), "$"+md.Params[3].Name()
	pi := "$" + md.Params[1].Name()
	for _, p := range ps {
		if p.Ret == nil {
			c.R.Fail("R-C05-2", fn+":exit@"+pathShape(p), fn, c.pos(md.Pos()), "path ends in "+pathKind(p), "multicastDelay always returns", "choosing the wait can fail")
			continue
		}
		equal, eqTested := false, false
		early, clamp := "untested", "untested"
		var clampCmp *an.Expr
		for _, a := range p.Atoms {
			x, y, op, ok := effCmp(a)
			if !ok {
				continue
			}
			xs, ys := x.String(), y.String()
			if (xs == pmin && ys == pmax) || (xs == pmax && ys == pmin) {
				if op == token.EQL || op == token.NEQ {
					equal, eqTested = op == token.EQL, true
				}
				continue
			}
			if xs == pi {
				if k, isC := y.ConstInt(); isC && k == 3 {
					early = fmt.Sprint(op == token.LSS)
					if op != token.LSS && op != token.GEQ {
						early = "bad-op:" + op.String()
					}
				} else {
					early = "bad-bound:" + ys
				}
				continue
			}
			if k, isC := y.ConstInt(); isC && k == 16000000000 {
				clamp = fmt.Sprint(op == token.GTR)
				if op != token.GTR && op != token.LEQ {
					clamp = "bad-op:" + op.String()
				}
				clampCmp = x
			}
		}
		key := fmt.Sprintf("%s:wait@min==max:%s,i<3:%s,d>16s:%s", fn, tri(equal, eqTested), early, clamp)
		// The unclamped value d on this path
		res := p.Results[0]
		d := res
		clamped := false
		if k, isC := res.ConstInt(); isC {
			clamped = true
			if k != 16000000000 {
				c.R.Fail("R-C05-4", key, fn, c.pos(p.Ret.Pos()), fmt.Sprintf("returns constant %d", k), "the only constant wait is 16s", "wait replaced by a constant other than MAX_INITIAL_RTR_ADVERT_INTERVAL")
				continue
			}
			d = clampCmp
		}
		// R-C05-4 clamp discipline
		okClamp := true
		if clamped {
			okClamp = early == "true" && clamp == "true" && d != nil
		} else {
			// not clamped: not early, or d <= 16s (the two tests in either order: the second one is not
			// evaluated when the first already fails)
			okClamp = early == "false" || clamp == "false"
			if strings.HasPrefix(early, "bad-") || strings.HasPrefix(clamp, "bad-") {
				okClamp = false
			}
			if okClamp && clampCmp != nil && !sameValue(clampCmp, res) {
				okClamp = false
			}
		}
		c.R.Check(okClamp, "R-C05-4", key, fn, c.pos(p.Ret.Pos()),
			fmt.Sprintf("returns %s; i<3=%s d>16s=%s", res, early, clamp),
			"the wait is lowered only to 16s, exactly when i < 3 and the chosen wait exceeds 16s; otherwise returned unchanged",
			"initial-advertisement clamp applied at the wrong index, in the wrong direction, or to the wrong value")
		if d == nil {
			continue
		}
		// R-C05-3 bounds of d
		nf, okN := an.Norm(d)
		if !okN {
			c.R.Undecided("R-C05-3", key, fn, c.pos(p.Ret.Pos()), "cannot normalise wait expression "+d.String())
			continue
		}
		okRound := nf.Mode == an.ModeRound && nf.Unit.Cmp(big.NewRat(1000000000, 1)) == 0
		if !eqTested {
			c.R.Fail("R-C05-2", key, fn, c.pos(p.Ret.Pos()), "min == max not tested on this path", "the equal case never reaches rand.Int63n", "Int63n(0) panics when min == max")
			continue
		}
		if equal {
			want := an.LinSym(pmax)
			noRand := !d.Contains(func(e *an.Expr) bool {
				return e.Op == an.OpCall && e.Fn != nil && strings.Contains(e.Fn.Name(), "Int63n")
			})
			c.R.Check(okRound && (nf.Lin.Equal(want) || nf.Lin.Equal(an.LinSym(pmin))) && noRand, "R-C05-3", key, fn, c.pos(p.Ret.Pos()), "d = "+nf.String(),
				"Round1s(max) (= Round1s(min)) with no random draw", "static interval differs from the configured one")
			continue
		}
		// min != max: d = Round1s(min + K), K = Int63n(max - min)
		var draw *an.Expr
		d.Walk(func(e *an.Expr) bool {
			if e.Op == an.OpCall && e.Fn != nil && e.Fn.Name() == "Int63n" {
				draw = e
			}
			return true
		})
		if draw == nil {
			c.R.Fail("R-C05-3", key, fn, c.pos(p.Ret.Pos()), "d = "+nf.String(), "min + random draw", "no random draw on the min != max branch")
			continue
		}
		argNF, okA := an.Norm(draw.Args[len(draw.Args)-1])
		wantArg := an.LinSym(pmax).Sub(an.LinSym(pmin))
		okArg := okA && argNF.Mode == an.ModeNone && argNF.Lin.Equal(wantArg)
		c.R.Check(okArg, "R-C05-2", key, fn, c.pos(p.Ret.Pos()),
			fmt.Sprintf("Int63n(%s)", nfString(argNF, okA)), "Int63n(max - min): with min < max (contract min <= max, branch min != max) the argument is >= 1ns, so it cannot panic",
			"random range is not max-min: Int63n can panic (n <= 0) or the draw leaves [0, max-min)")
		wantD := an.LinSym(pmin).Add(an.LinSym(draw.String()))
		c.R.Check(okRound && nf.Lin.Equal(wantD), "R-C05-3", key, fn, c.pos(p.Ret.Pos()), "d = "+nf.String(),
			"Round1s(min + K) with K ∈ [0, max-min-1]  ⇒  d ∈ [Round1s(min), Round1s(max)] and d >= Round1s(2s) > 0",
			"chosen wait can leave [MinRtrAdvInterval, MaxRtrAdvInterval]")
	}
	c.R.Floor("R-C05-3", 4)
	c.R.Floor("R-C05-4", 8)

	c05Contract(c)
	// "keeps requesting unsolicited multicast RAs until stopped": a receive error must not end the task as if it had been stopped
	listenClassifiesBeforeCancel(c, "R-C05-6")
	c05Loop(c, md)
}

func nfString(n *an.NF, ok bool) string {
	if !ok || n == nil {
		return "<not normalisable>"
	}
	return n.String()
}

// c05Contract: every success path of config.parseMinInterval returns a value
// r with lower <= r <= max for max in [4s,1800s].
func c05Contract(c *Ctx) {
	pm := c.needFunc("R-C05-1", "internal/config", "parseMinInterval")
	if pm == nil {
		return
	}
	fn := c.fname(pm)
	maxSym := "$" + pm.Params[1].Name()
	env := an.Env{maxSym: an.Rng{Lo: big.NewRat(4000000000, 1), Hi: big.NewRat(1800000000000, 1)}}
	ps := c.pathsO("R-C05-1", pm, an.PathOpts{})
	n := 0
	for _, p := range ps {
		if p.Ret == nil || len(p.Results) != 2 || !exprIsNil(p.Results[1]) {
			continue
		}
		n++
		r := p.Results[0]
		nf, ok := an.Norm(r)
		key := fn + ":min<=max@" + pathShape(p)
		if !ok {
			c.R.Undecided("R-C05-1", key, fn, c.pos(p.Ret.Pos()), "cannot normalise "+r.String())
			continue
		}
		maxNF := &an.NF{Lin: an.LinSym(maxSym)}
		penv := an.Env{}
		for k, v := range env {
			penv[k] = v
		}
		// refine max from atoms on this path (e.g. max >= 9s)
		var upper, lower *an.NF
		for _, a := range p.Atoms {
			x, y, op, okc := effCmp(a)
			if !okc {
				continue
			}
			xn, okx := an.Norm(x)
			yn, oky := an.Norm(y)
			if !okx || !oky {
				continue
			}
			if xn.Equal(maxNF) {
				if cv, isC := yn.IsConst(); isC {
					r0 := penv[maxSym]
					switch op {
					case token.GEQ:
						r0 = r0.Intersect(an.Rng{Lo: cv})
					case token.LSS:
						r0 = r0.Intersect(an.Rng{Hi: new(big.Rat).Sub(cv, big.NewRat(1, 1))})
					}
					penv[maxSym] = r0
				}
			}
			if xn.Equal(nf) { // constraint on the returned value itself
				switch op {
				case token.LEQ:
					upper = yn
				case token.GEQ:
					lower = yn
				}
			}
		}
		var le, ge an.Tri
		if len(nf.Lin.T) == 1 && nf.Lin.T[maxSym] == nil {
			// free (user) value: bounded by the path's own checks
			le, ge = an.TriUnknown, an.TriUnknown
			if upper != nil {
				le = penv.Compare(upper, token.LEQ, maxNF)
			}
			if lower != nil {
				ge = penv.Compare(lower, token.GEQ, &an.NF{Lin: an.LinConst(2000000000)})
			}
		} else {
			le = penv.Compare(nf, token.LEQ, maxNF)
			ge = penv.Compare(nf, token.GEQ, &an.NF{Lin: an.LinConst(1000000000)})
		}
		c.R.Check(le == an.TriTrue && ge == an.TriTrue, "R-C05-1", key, fn, c.pos(p.Ret.Pos()),
			fmt.Sprintf("returns %s with max ∈ %s (upper check %s, lower check %s) under %s", nf, penv[maxSym], nfString(upper, upper != nil), nfString(lower, lower != nil), atomsString(p)),
			"on every accepted path 1s <= MinInterval <= MaxInterval (so max-min >= 0, and > 0 unless equal)",
			"configuration can accept min_interval > max_interval (or non-positive): multicastDelay's random range becomes non-positive")
	}
	c.R.Check(n >= 3, "R-C05-1", fn+":success-paths", fn, c.pos(pm.Pos()), fmt.Sprintf("%d success path(s)", n), ">= 3", "anchor-missing")
}

func c05Loop(c *Ctx, md *ssa.Function) {
	mc := c.needMethod("R-C05-5", "internal/corerad", "Advertiser", "multicast")
	if mc == nil {
		return
	}
	fn := c.fname(mc)
	ps := c.pathsO("R-C05-5", mc, an.PathOpts{EmitCut: true})
	nIter := 0
	for _, p := range ps {
		if p.Panic != nil {
			continue // blocking select fallthrough is unreachable by construction
		}
		if p.Ret != nil {
			// only exit: a ctx.Done() arm
			okExit := false
			for _, a := range selectArmsOf(p) {
				if strings.Contains(a.chanExpr, "Done(") {
					okExit = true
				}
			}
			c.R.Check(okExit, "R-C05-5", fn+":exit@"+pathShape(p), fn, c.pos(p.Ret.Pos()), "returns under "+atomsString(p), "the loop ends only when ctx.Done() fires", "unsolicited advertising can stop while the advertiser is running")
			continue
		}
		// one iteration
		nIter++
		sends := sendsOn(p)
		okSend := len(sends) == 1 && isAllNodesCall(p.Of(sends[0].X))
		// wait: select arm on time.After(multicastDelay(prng, i, min, max))
		okWait, okArgs, okCancel := false, false, false
		var delayCall *an.Expr
		for _, a := range p.Atoms {
			x := a.Cond
			if x.Op == an.OpBin && len(x.Args) == 2 {
				if sel, ok := x.Args[0].V.(*ssa.Select); ok && x.Args[0].Name == "select.index" && sel.Blocking {
					for _, st := range sel.States {
						e := p.Of(st.Chan)
						if e.Op == an.OpCall && e.Fn != nil && e.Fn.String() == "time.After" {
							okWait = true
							if exprCallIs(e.Args[0], PkgCorerad, "", "multicastDelay") {
								delayCall = e.Args[0]
							}
						}
						if e.Op == an.OpCall && e.Name == "Done" {
							okCancel = true
						}
					}
				}
			}
		}
		idxFact := ""
		if delayCall != nil && len(delayCall.Args) == 4 {
			i, mn, mx := delayCall.Args[1], delayCall.Args[2], delayCall.Args[3]
			okI := false
			if i.Op == an.OpLoop {
				if ph, ok := i.V.(*ssa.Phi); ok {
					// init 0, step +1 on this back edge
					init0 := false
					for k, pr := range ph.Block().Preds {
						if !ph.Block().Dominates(pr) {
							if cst, ok := ph.Edges[k].(*ssa.Const); ok && cst.Int64() == 0 {
								init0 = true
							}
						}
					}
					if dv := p.BackEdgeValue(ph); dv != nil {
						if dl, ok := deltaOf(ph, dv); ok && dl.Cmp(big.NewRat(1, 1)) == 0 && init0 {
							okI = true
						}
					}
				}
			}
			okMin := mn.IsField("MinInterval") && len(mn.Args) == 1 && mn.Args[0].IsField("cfg")
			okMax := mx.IsField("MaxInterval") && len(mx.Args) == 1 && mx.Args[0].IsField("cfg")
			okArgs = okI && okMin && okMax
			idxFact = fmt.Sprintf("multicastDelay(_, %s, %s, %s)", i, mn, mx)
		}
		c.R.Check(okSend && okWait && okArgs && okCancel, "R-C05-5", fn+":iteration@"+pathShape(p), fn, c.pos(mc.Pos()),
			fmt.Sprintf("%d request(s) (all-nodes=%v); cancelable wait on time.After=%v; %s", len(sends), okSend, okWait && okCancel, idxFact),
			"each iteration requests exactly one all-nodes RA, then waits in a select on ctx.Done() and time.After(multicastDelay(prng, i, cfg.MinInterval, cfg.MaxInterval)) with i = 0,1,2,…",
			"periodic advertising is duplicated, skipped, uses a stale/swapped interval, or the initial-advertisement index is wrong")
	}
	c.R.Check(nIter >= 1, "R-C05-5", fn+":iterations", fn, c.pos(mc.Pos()), fmt.Sprintf("%d iteration path(s)", nIter), ">= 1", "anchor-missing")

	// started only when !UnicastOnly, under the errgroup
	for _, s := range an.FindCalls(c.srcFuncs(), func(cc *ssa.CallCommon) bool { return an.CallIs(cc, PkgCorerad, "Advertiser", "multicast") }) {
		root := s.Fn
		for root.Parent() != nil {
			root = root.Parent()
		}
		// the closure creation site in root must be guarded by !UnicastOnly
		ok := false
		if s.Fn != root {
			if site := closureSite(root, s.Fn); site != nil {
				fi := an.Info(root)
				g := fi.Guard(site.Block())
				ok = len(g) > 0
				for _, conj := range g {
					found := false
					for _, a := range conj {
						e := c.XO.Of(a.Cond)
						if e.IsField("UnicastOnly") && !a.Pos {
							found = true
						}
					}
					if !found {
						ok = false
					}
				}
			}
		}
		c.R.Check(ok, "R-C05-5", c.fname(s.Fn)+":multicast-only-when-not-unicast-only", c.fname(s.Fn), c.pos(s.Pos()), fmt.Sprintf("guarded by !cfg.UnicastOnly=%v", ok),
			"the multicast loop runs iff the interface is not unicast-only", "unsolicited multicast loop missing, or running in unicast-only mode")
	}
}

// closureSite returns the MakeClosure instruction in outer creating fn (or an ancestor of fn).
func closureSite(outer, fn *ssa.Function) ssa.Instruction {
	child := fn
	for child != nil && child.Parent() != outer {
		child = child.Parent()
	}
	if child == nil {
		return nil
	}
	for _, b := range outer.Blocks {
		for _, in := range b.Instrs {
			if mc, ok := in.(*ssa.MakeClosure); ok && mc.Fn == child {
				return mc
			}
		}
	}
	return nil
}
