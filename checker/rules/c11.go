package rules

import (
	"go/constant"
	"fmt"
	"go/token"
	"strings"

	"crverif/internal/an"

	"golang.org/x/tools/go/ssa"
)

func init() {
	register(&RuleSet{
		Property: "C11",
		Explanation: "PATH/typestate rules on system.Dialer: R-C11-1 after every fn(ctx,dctx) the cleanup closure of the same DialContext runs exactly once before the next init or any return and its error is returned; " +
			"R-C11-2 every socket obtained from ndp.Listen/dialNDP/rtnetlink.Dial is, on every return path, returned, captured by the returned cleanup closure, closed or deferred-closed; " +
			"R-C11-3 the cleanup closure leaves the group, closes, then restores autoconf on every path; R-C11-4 autoconf get precedes disable, restore writes the value read, restore closure returned iff disable did not fail fatally, tolerated-error table; " +
			"R-C11-5 who may call State.SetIPv6Autoconf / write DialContext.done R-C11-6 the sysctl helpers return the os error as is or %w-wrapped, so the restore closure's tolerance tests can see it, and they fail only because a call into package os (or another sysctl helper) failed; R-C11-7 (linux) the autoconf getter and setter address exactly the \"autoconf\" sysctl key and return the helper's result untouched.",
		Assumptions: []string{
			"Go type checker and go/ssa construction are correct",
			"(*ndp.Conn).Close releases the socket and its multicast memberships",
			"paths are enumerated per function with callees opaque; each loop body is analysed for an arbitrary iteration",
		},
		NotCovered: []string{"kernel-side effects of Close", "a crash (SIGKILL) between disable and restore"},
		Run:        runC11,
	})
}

func isParamCall(cc *ssa.CallCommon, fn *ssa.Function, name string) bool {
	if cc.IsInvoke() {
		return false
	}
	p, ok := cc.Value.(*ssa.Parameter)
	return ok && p.Parent() == fn && p.Name() == name
}

// fieldLoadCall reports whether cc calls through a func-typed struct field
// pkg.typ.field and returns the FieldAddr.
func fieldLoadCall(cc *ssa.CallCommon, pkg, typ, field string) (*ssa.FieldAddr, bool) {
	if cc.IsInvoke() {
		return nil, false
	}
	u, ok := cc.Value.(*ssa.UnOp)
	if !ok || u.Op != token.MUL {
		return nil, false
	}
	fa, ok := u.X.(*ssa.FieldAddr)
	if !ok || !an.FieldAddrIs(fa, pkg, typ, field) {
		return nil, false
	}
	return fa, true
}

func runC11(c *Ctx) {
	c11Dial(c)
	c11Typestate(c)
	c11Done(c)
	c11Autoconf(c)
	c11WhoMay(c)
	c11SysctlCause(c)
	c11AutoconfKey(c)
}

// c11SysctlCause (R-C11-6): the restore closure tolerates permission-denied
// and vanished-interface failures by errors.Is on the error it gets from
// State.SetIPv6Autoconf. On linux that error comes from os.WriteFile/ReadFile
// through the sysctl helpers: they return it as is or wrapped with %w, never
// flattened into text.
func c11SysctlCause(c *Ctx) { sysctlCause(c, "R-C11-6") }

var sysctlHelpers = map[string]bool{"sysctlEnable": true, "sysctlBool": true, "setIPv6Autoconf": true, "getIPv6Autoconf": true, "getIPv6Forwarding": true}

func sysctlCause(c *Ctx, rule string) {
	n := 0
	for _, name := range []string{"sysctlEnable", "sysctlBool", "setIPv6Autoconf", "getIPv6Autoconf", "getIPv6Forwarding"} {
		f := c.P.Func("internal/system", name)
		if f == nil {
			continue // linux only
		}
		fn := c.fname(f)
		for _, p := range c.pathsO(rule, f, an.PathOpts{}) {
			if p.Ret == nil {
				continue
			}
			res := p.Results[len(p.Results)-1]
			if exprIsNil(res) {
				continue
			}
			// the failing os call or helper on this path
			var cause *an.Expr
			for _, a := range p.Atoms {
				x, y, op, ok := effCmp(a)
				if ok && exprIsNil(y) && op == token.NEQ && x.Typ != nil && typeStr(x.Typ) == "error" {
					cause = x
				}
			}
			okRes := false
			if cause != nil {
				cz := cause
				okRes = wrapsCause(res, func(e *an.Expr) bool { return sameValue(e, cz) })
			} else {
				// returned directly: an os call or a sysctl helper result, or %w around one
				okRes = wrapsCause(res, func(e *an.Expr) bool {
					b, _ := stripExtract(e)
					return (e.Op == an.OpCall || e.Op == an.OpExtract) && b != nil && b.Op == an.OpCall && b.Fn != nil && !(b.Fn.String() == "fmt.Errorf") && !strings.HasPrefix(b.Fn.String(), "errors.")
				})
			}
			// the failure comes from the file system (package os) or from one of the sysctl helpers: the restore
			// closure can classify nothing else (a name lookup, a netlink query, … fails with errors of its own
			// for a vanished interface, and the tolerated failure becomes fatal)
			if cause != nil {
				b, _ := stripExtract(cause)
				fromOS := false
				if b != nil && b.Op == an.OpCall && b.Fn != nil {
					if fo := an.FuncObj(b.Fn); fo != nil && fo.Pkg() != nil && (fo.Pkg().Path() == "os" || (fo.Pkg().Path() == f.Pkg.Pkg.Path() && sysctlHelpers[fo.Name()])) {
						fromOS = true
					}
				}
				c.R.Check(fromOS, rule, fn+":failure-source@"+shortElem(cause), fn, c.pos(p.Ret.Pos()), "fails because of "+cause.String(),
					"the sysctl helpers fail only when the read or write of the /proc/sys file fails", "a failure of another kind (interface lookup, netlink) is not one the restore closure tolerates: restoring autoconf on a vanished interface becomes a fatal error and the task ends instead of re-dialling")
			}
			n++
			c.R.Check(okRes, rule, fn+":cause-kept-in-chain", fn, c.pos(p.Ret.Pos()), "returns "+res.String(),
				"the os error is returned as is or wrapped with %w", "permission-denied / vanished-interface failures are no longer recognised: a tolerated restore failure becomes fatal")
		}
	}
	if c.P.Cfg.GOOS == "linux" {
		c.R.Check(n >= 3, rule, "system:sysctl-error-returns", "", "", fmt.Sprintf("%d failing return path(s)", n), ">= 3", "anchor-missing")
	}
}

func c11Dial(c *Ctx) {
	dial := c.needMethod("R-C11-1", "internal/system", "Dialer", "Dial")
	if dial == nil {
		return
	}
	fn := c.fname(dial)
	ps := c.pathsO("R-C11-1", dial, an.PathOpts{EmitCut: true})
	nFn := 0
	for _, p := range ps {
		var fnCall ssa.CallInstruction
		var seq []ssa.Instruction
		// calls of Dial's fn parameter, directly or through a helper that receives it
		isFn := map[ssa.Instruction]bool{}
		doneRecv := map[ssa.Instruction]*an.Expr{}
		p.Instrs(func(in ssa.Instruction) {
			seq = append(seq, in)
			if ci, ok := in.(ssa.CallInstruction); ok && !ci.Common().IsInvoke() {
				if isParamCall(ci.Common(), dial, "fn") {
					isFn[in] = true
				} else if _, isPar := ci.Common().Value.(*ssa.Parameter); isPar {
					if e := p.Of(ci.Common().Value); e.Op == an.OpParam && e.Fn == dial && e.Name == "fn" {
						isFn[in] = true
					}
				}
				if fa, ok := fieldLoadCall(ci.Common(), PkgSystem, "DialContext", "done"); ok {
					doneRecv[in] = p.Of(fa.X)
				}
			}
		})
		idxFn := -1
		for i, in := range seq {
			if ci, ok := in.(ssa.CallInstruction); ok && isFn[in] {
				if fnCall != nil {
					c.R.Fail("R-C11-1", fn+":fn-called-twice@"+pathShape(p), fn, c.pos(ci.Pos()), "fn invoked twice on one path", "one task invocation per dial", "task function invoked twice for one DialContext")
				}
				fnCall = ci
				idxFn = i
			}
		}
		if fnCall == nil {
			// No task was run: no cleanup may be attempted on a nil context; nothing else to check.
			continue
		}
		nFn++
		key := fn + ":cleanup-after-fn@" + pathKind(p) + ":" + lastAtomName(p)
		var dctxArg *an.Expr
		p.Instrs(func(in ssa.Instruction) {
			if in == ssa.Instruction(fnCall) {
				dctxArg = p.Of(fnCall.Common().Args[len(fnCall.Common().Args)-1])
			}
		})
		// dctx must be result #0 of this iteration's init call.
		b, idx := stripExtract(dctxArg)
		okFresh := idx == 0 && exprCallIs(b, PkgSystem, "Dialer", "init")
		nDone := 0
		sameCtx := true
		before := 0
		for i, in := range seq {
			ci, ok := in.(ssa.CallInstruction)
			if !ok {
				continue
			}
			if _, ok := fieldLoadCall(ci.Common(), PkgSystem, "DialContext", "done"); ok {
				if i < idxFn {
					before++
				}
				nDone++
				if !sameValue(doneRecv[in], dctxArg) {
					sameCtx = false
				}
			}
		}
		// deferred cleanups: a deferred closure that invokes a DialContext's done runs when the
		// path returns, unless the variables it captured disarm it (tested nil, and nil at the return)
		deferred := 0
		deferFact := ""
		if p.Ret != nil {
			for _, in := range seq {
				df, ok := in.(*ssa.Defer)
				if !ok {
					continue
				}
				mc, ok := df.Call.Value.(*ssa.MakeClosure)
				if !ok {
					continue
				}
				cl := mc.Fn.(*ssa.Function)
				for _, cp := range c.pathsO("R-C11-1", cl, an.PathOpts{}) {
					calls := callsOnPath(cp, func(cc *ssa.CallCommon) bool {
						_, ok := fieldLoadCall(cc, PkgSystem, "DialContext", "done")
						return ok
					})
					if len(calls) == 0 {
						continue
					}
					feasible := true
					for _, a := range cp.Atoms {
						x, y, op, ok := effCmp(a)
						if !ok || !exprIsNil(y) {
							continue
						}
						u, isLoad := x.V.(*ssa.UnOp)
						if !isLoad {
							continue
						}
						for i, fv := range cl.FreeVars {
							if u.X != ssa.Value(fv) || i >= len(mc.Bindings) {
								continue
							}
							cur := p.Load(mc.Bindings[i], p.Ret)
							// the closure path needs "captured != nil" while the variable is nil at the return
							if op == token.NEQ && cur != nil && exprIsNil(cur) {
								feasible = false
							}
						}
					}
					if feasible {
						deferred += len(calls)
						deferFact = fmt.Sprintf("; deferred %s also invokes done on this return", c.fname(cl))
					}
				}
			}
		}
		doneNil := false // path established done == nil
		doneErr := false // path has done() != nil
		for _, a := range p.Atoms {
			x, y, op, ok := effCmp(a)
			if !ok || !exprIsNil(y) {
				continue
			}
			if x.Op == an.OpField && x.Name == "done" && op == token.EQL {
				doneNil = true
			}
			if x.Op == an.OpCall && strings.HasPrefix(x.Name, "dyn:") && strings.Contains(x.Name, ".done") && op == token.NEQ {
				doneErr = true
			}
		}
		okOnce := ((nDone == 1 && !doneNil) || (nDone == 0 && doneNil)) && deferred == 0
		okErr := true
		if doneErr {
			okErr = p.Ret != nil && len(p.Results) == 1 && !exprIsNil(p.Results[0])
		}
		c.R.Check(okFresh && okOnce && sameCtx && before == 0 && okErr && p.Panic == nil, "R-C11-1", key, fn, c.pos(fnCall.Pos()),
			fmt.Sprintf("dctx=%s done-calls=%d (before fn: %d, same context: %v, done==nil on path: %v, cleanup error returned: %v) path ends in %s%s", dctxArg, nDone, before, sameCtx, doneNil, okErr, pathKind(p), deferFact),
			"after fn returns, dctx.done of the DialContext from this iteration's init is invoked exactly once (when non-nil) before re-initialising or returning, and a cleanup error is returned",
			"a connection is not cleaned up exactly once before the next dial or return")
	}
	c.R.Floor("R-C11-1", 4)
}

// lastAtomName gives a stable name for the decision that ends a path: the
// callee/field mentioned by its last atom and its polarity.
func lastAtomName(p *an.Path) string {
	if len(p.Atoms) == 0 {
		return "straight"
	}
	a := p.Atoms[len(p.Atoms)-1]
	name := ""
	a.Cond.Walk(func(e *an.Expr) bool {
		if name != "" {
			return false
		}
		switch e.Op {
		case an.OpCall:
			name = shortCallName(e)
			return false
		case an.OpField:
			name = e.Name
			return false
		}
		return true
	})
	if name == "" {
		name = a.Cond.String()
	}
	if a.Pos {
		return name + "=T"
	}
	return name + "=F"
}

func shortCallName(e *an.Expr) string {
	if e.Fn != nil {
		return e.Fn.Name()
	}
	n := e.Name
	if i := strings.LastIndexAny(n, ".$"); i >= 0 && strings.HasPrefix(n, "dyn:") {
		return "dyn" + n[i:]
	}
	return n
}

// acquisition functions whose result #0 is a socket-like resource.
func isAcquire(cc *ssa.CallCommon) (string, bool) {
	if _, ok := fieldLoadCall(cc, PkgSystem, "Dialer", "DialFunc"); ok {
		return "DialFunc", true // a dialled DialContext (connection + autoconf state)
	}
	f := an.CalleeObj(cc)
	if f == nil {
		return "", false
	}
	switch {
	case an.ObjIs(f, PkgNDP, "", "Listen"):
		return "ndp.Listen", true
	case an.ObjIs(f, PkgSystem, "", "dialNDP"):
		return "dialNDP", true
	case an.ObjIs(f, "github.com/jsimonetti/rtnetlink", "", "Dial"):
		return "rtnetlink.Dial", true
	}
	return "", false
}

func c11Typestate(c *Ctx) {
	n := 0
	for _, fn := range c.srcFuncs() {
		var acq []*ssa.Call
		for _, b := range fn.Blocks {
			for _, in := range b.Instrs {
				if call, ok := in.(*ssa.Call); ok {
					if _, ok := isAcquire(&call.Call); ok {
						acq = append(acq, call)
					}
				}
			}
		}
		if len(acq) == 0 {
			continue
		}
		fname := c.fname(fn)
		ps := c.pathsO("R-C11-2", fn, an.PathOpts{EmitCut: true})
		for _, call := range acq {
			what, _ := isAcquire(&call.Call)
			for _, p := range ps {
				if !p.Visited(call.Block()) {
					continue
				}
				res := p.Of(call)
				resource := &an.Expr{Op: an.OpExtract, Idx: 0, Args: []*an.Expr{res}}
				rs := resource.String()
				// acquisition failed on this path? (atom: call#last != nil)
				failed := false
				for _, a := range p.Atoms {
					x, y, op, ok := effCmp(a)
					if ok && exprIsNil(y) && op == token.NEQ {
						if b, idx := stripExtract(x); idx > 0 && sameValue(b, res) {
							failed = true
						}
					}
				}
				// errors.Is/As(<its error>, …) == true also means the acquisition failed
				for _, a := range p.Atoms {
					e := a.Cond
					if a.Pos && e.Op == an.OpCall && e.Fn != nil && (e.Fn.String() == "errors.Is" || e.Fn.String() == "errors.As") && len(e.Args) >= 1 {
						if b, idx := stripExtract(e.Args[0]); idx > 0 && sameValue(b, res) {
							failed = true
						}
					}
				}
				if failed {
					continue
				}
				n++
				released, deferred := false, false
				p.Instrs(func(in ssa.Instruction) {
					ci, ok := in.(ssa.CallInstruction)
					if !ok {
						return
					}
					cc := ci.Common()
					if fa, ok := fieldLoadCall(cc, PkgSystem, "DialContext", "done"); ok && p.Of(fa.X).String() == rs {
						released = true
						return
					}
					f := an.CalleeObj(cc)
					if f == nil || f.Name() != "Close" {
						return
					}
					var recv ssa.Value
					if cc.IsInvoke() {
						recv = cc.Value
					} else if len(cc.Args) > 0 {
						recv = cc.Args[0]
					}
					if recv != nil && p.Of(recv).String() == rs {
						if _, isDefer := in.(*ssa.Defer); isDefer {
							deferred = true
						} else {
							released = true
						}
					}
				})
				handedOver := false
				if p.Ret != nil {
					for _, r := range p.Results {
						if handsOver(r, rs) {
							handedOver = true
						}
					}
				}
				if p.Cut {
					// looping with the resource still open is fine only if deferred-closed
					handedOver = false
				}
				key := fmt.Sprintf("%s:%s-resource@%s:%s", fname, what, pathKind(p), lastAtomName(p))
				c.R.Check(released || deferred || handedOver || p.Panic != nil, "R-C11-2", key, fname, c.pos(call.Pos()),
					fmt.Sprintf("socket %s: closed=%v deferred-close=%v returned/captured=%v; path %s ends in %s", rs, released, deferred, handedOver, atomsString(p), pathKind(p)),
					"on every path after a successful acquisition the socket is closed, deferred-closed, returned, or captured by the returned cleanup closure",
					"socket leaked on this path: the next dial opens a new one while this one stays open (and joined to all-routers)")
			}
		}
	}
	if c.P.Cfg.GOOS == "linux" {
		c.R.Floor("R-C11-2", 8) // + rtnlExecute, osWatch
	} else {
		c.R.Floor("R-C11-2", 6)
	}
}

func c11Done(c *Ctx) {
	dial := c.needMethod("R-C11-3", "internal/system", "Dialer", "dial")
	if dial == nil {
		return
	}
	// The cleanup closure: the value stored into DialContext.done in dial.
	var closure *ssa.Function
	for _, fs := range an.FindFieldStores([]*ssa.Function{dial}, PkgSystem, "DialContext", "done") {
		e := c.XO.Of(fs.Store.Val)
		for _, a := range e.Alts() {
			if a.Op == an.OpClosure {
				closure = a.Fn
			}
		}
	}
	if closure == nil {
		c.R.Fail("R-C11-3", c.fname(dial)+":done-closure", c.fname(dial), c.pos(dial.Pos()), "no closure stored to DialContext.done", "dial stores a cleanup closure", "anchor-missing")
		return
	}
	fn := c.fname(closure)
	ps := c.pathsO("R-C11-3", closure, an.PathOpts{EmitCut: true})
	for _, p := range ps {
		var order []string
		var restoreCall ssa.CallInstruction
		var restoreVal *an.Expr
		p.Instrs(func(in ssa.Instruction) {
			ci, ok := in.(ssa.CallInstruction)
			if !ok {
				return
			}
			cc := ci.Common()
			if f := an.CalleeObj(cc); f != nil {
				switch {
				case an.ObjIs(f, PkgNDP, "Conn", "LeaveGroup"):
					order = append(order, "LeaveGroup")
				case an.ObjIs(f, PkgNDP, "Conn", "Close"):
					order = append(order, "Close")
				}
				return
			}
			if !cc.IsInvoke() {
				e := p.Of(cc.Value)
				if containsCallTo(e, PkgSystem, "Dialer", "setAutoconf") {
					order = append(order, "restore")
					restoreCall = ci
					restoreVal = e
				}
			}
		})
		restoreNonNil, restoreTested := false, false
		for _, a := range p.Atoms {
			x, y, op, ok := effCmp(a)
			if ok && exprIsNil(y) && containsCallTo(x, PkgSystem, "Dialer", "setAutoconf") && x.Op != an.OpCall {
				restoreTested = true
				restoreNonNil = op == token.NEQ
			} else if ok && exprIsNil(y) && restoreVal != nil && sameValue(x, restoreVal) {
				restoreTested = true
				restoreNonNil = op == token.NEQ
			}
		}
		want := "LeaveGroup,Close"
		if restoreNonNil {
			want = "LeaveGroup,Close,restore"
		}
		got := strings.Join(order, ",")
		okRes := true
		if restoreNonNil {
			okRes = p.Ret != nil && restoreCall != nil && len(p.Results) == 1 && sameValue(p.Results[0], p.Of(restoreCall.(ssa.Value)))
		}
		c.R.Check(got == want && restoreTested && okRes && p.Ret != nil, "R-C11-3", fn+":cleanup-sequence@"+pathShape(p), fn, c.pos(closure.Pos()),
			fmt.Sprintf("calls=[%s] restore!=nil tested=%v holds=%v result=%v", got, restoreTested, restoreNonNil, exprStrings(p.Results)),
			"every path: LeaveGroup, then Close, then (when a restore function exists) restore(), whose error is the result; earlier failures do not skip later steps",
			"cleanup closure skips a step on some path")
	}
	c.R.Floor("R-C11-3", 4)
}

func c11Autoconf(c *Ctx) {
	sa := c.needMethod("R-C11-4", "internal/system", "Dialer", "setAutoconf")
	if sa == nil {
		return
	}
	fn := c.fname(sa)
	ps := c.pathsO("R-C11-4", sa, an.PathOpts{EmitCut: true})
	var restore *ssa.Function
	for _, p := range ps {
		var getCall, setCall ssa.CallInstruction
		order := ""
		p.Instrs(func(in ssa.Instruction) {
			ci, ok := in.(ssa.CallInstruction)
			if !ok {
				return
			}
			switch {
			case an.CallIs(ci.Common(), PkgSystem, "State", "IPv6Autoconf"):
				order += "G"
				getCall = ci
			case an.CallIs(ci.Common(), PkgSystem, "State", "SetIPv6Autoconf"):
				order += "S"
				setCall = ci
			}
		})
		// classify path by atoms
		getFailed, setFailed, setPerm := false, false, false
		for _, a := range p.Atoms {
			x, y, op, ok := effCmp(a)
			if ok && exprIsNil(y) && op == token.NEQ {
				b, idx := stripExtract(x)
				if idx == 1 && exprCallIs(b, PkgSystem, "State", "IPv6Autoconf") {
					getFailed = true
				}
				if exprCallIs(x, PkgSystem, "State", "SetIPv6Autoconf") {
					setFailed = true
				}
			}
			if a.Pos && a.Cond.Op == an.OpCall && a.Cond.Fn != nil && a.Cond.Fn.String() == "errors.Is" && len(a.Cond.Args) == 2 &&
				exprCallIs(a.Cond.Args[0], PkgSystem, "State", "SetIPv6Autoconf") && a.Cond.Args[1].Op == an.OpGlobal && a.Cond.Args[1].Name == "os.ErrPermission" {
				setPerm = true
			}
		}
		key := fmt.Sprintf("%s:outcome@get-failed=%v,set-failed=%v,permission=%v", fn, getFailed, setFailed, setPerm)
		if p.Ret == nil || len(p.Results) != 2 {
			c.R.Fail("R-C11-4", key, fn, c.pos(sa.Pos()), "path ends in "+pathKind(p), "setAutoconf returns", "unexpected exit")
			continue
		}
		okOrder := true
		switch {
		case getFailed:
			okOrder = order == "G"
		default:
			okOrder = order == "GS"
		}
		okArgs := true
		if setCall != nil && getCall != nil {
			sargs, gargs := setCall.Common().Args, getCall.Common().Args
			if len(sargs) >= 2 && len(gargs) >= 1 {
				en := p.Of(sargs[len(sargs)-1])
				ifaceS, ifaceG := p.Of(sargs[len(sargs)-2]), p.Of(gargs[len(gargs)-1])
				okArgs = en.IsConst("false") && sameValue(ifaceS, ifaceG) && ifaceS.IsField("iface")
			}
		}
		wantRestore := !getFailed && (!setFailed || setPerm)
		gotRestore := p.Results[0].Op == an.OpClosure
		gotErr := !exprIsNil(p.Results[1])
		if gotRestore {
			restore = p.Results[0].Fn
		}
		c.R.Check(okOrder && okArgs && wantRestore == gotRestore && gotErr == !wantRestore, "R-C11-4", key, fn, c.pos(p.Ret.Pos()),
			fmt.Sprintf("state calls in order %q; disable args ok=%v; returns restore=%v err=%v", order, okArgs, gotRestore, gotErr),
			"get precedes disable(iface,false); a restore closure (and nil error) is returned iff get succeeded and disable succeeded or failed with permission denied; otherwise a non-nil error",
			"autoconf set/restore pairing broken on this outcome")
	}
	c.R.Floor("R-C11-4", 4)

	if restore == nil {
		c.R.Fail("R-C11-4", fn+":restore-closure", fn, c.pos(sa.Pos()), "no restore closure returned", "restore closure exists", "anchor-missing")
		return
	}
	rfn := c.fname(restore)
	rps := c.pathsO("R-C11-4", restore, an.PathOpts{EmitCut: true})
	for _, p := range rps {
		var setCall ssa.CallInstruction
		nSet := 0
		p.Instrs(func(in ssa.Instruction) {
			if ci, ok := in.(ssa.CallInstruction); ok && an.CallIs(ci.Common(), PkgSystem, "State", "SetIPv6Autoconf") {
				setCall = ci
				nSet++
			}
		})
		if setCall == nil || nSet != 1 {
			c.R.Fail("R-C11-4", rfn+":restore-writes@"+pathShape(p), rfn, c.pos(restore.Pos()), fmt.Sprintf("%d SetIPv6Autoconf calls", nSet), "exactly one SetIPv6Autoconf(iface, prev)", "restore does not write the sysctl exactly once")
			continue
		}
		args := setCall.Common().Args
		prev := p.Of(args[len(args)-1])
		iface := p.Of(args[len(args)-2])
		pb, pidx := stripExtract(prev)
		okPrev := pidx == 0 && exprCallIs(pb, PkgSystem, "State", "IPv6Autoconf")
		okIface := iface.IsField("iface")
		if okPrev && len(pb.Args) >= 2 {
			okIface = okIface && sameValue(pb.Args[len(pb.Args)-1], iface)
		}
		// classify the error outcome
		class := "other"
		for _, a := range p.Atoms {
			x, y, op, ok := effCmp(a)
			if ok && exprIsNil(y) && op == token.EQL && exprCallIs(x, PkgSystem, "State", "SetIPv6Autoconf") {
				class = "nil"
			}
			if a.Pos && a.Cond.Op == an.OpCall && a.Cond.Fn != nil && a.Cond.Fn.String() == "errors.Is" && len(a.Cond.Args) == 2 && a.Cond.Args[1].Op == an.OpGlobal {
				switch a.Cond.Args[1].Name {
				case "os.ErrPermission":
					class = "permission"
				case "os.ErrNotExist":
					class = "not-exist"
				default:
					class = "tolerates:" + a.Cond.Args[1].Name
				}
			}
		}
		// an error that is reported must have been tested against both tolerated classes on this path (a test
		// that is skipped, e.g. behind another condition, lets a tolerated error through as fatal)
		if class == "other" {
			negPerm, negNotExist := false, false
			for _, a := range p.Atoms {
				if !a.Pos && a.Cond.Op == an.OpCall && a.Cond.Fn != nil && a.Cond.Fn.String() == "errors.Is" && len(a.Cond.Args) == 2 && a.Cond.Args[1].Op == an.OpGlobal {
					switch a.Cond.Args[1].Name {
					case "os.ErrPermission":
						negPerm = true
					case "os.ErrNotExist":
						negNotExist = true
					}
				}
			}
			if !(negPerm && negNotExist) {
				class = fmt.Sprintf("other(untested: permission=%v, not-exist=%v)", !negPerm, !negNotExist)
			}
		}
		wantNil := class == "nil" || class == "permission" || class == "not-exist"
		gotNil := p.Ret != nil && len(p.Results) == 1 && exprIsNil(p.Results[0])
		okWrap := gotNil || (p.Ret != nil && p.Results[0].Contains(func(e *an.Expr) bool { return exprCallIs(e, PkgSystem, "State", "SetIPv6Autoconf") }))
		c.R.Check(okPrev && okIface && wantNil == gotNil && okWrap && !strings.HasPrefix(class, "tolerates:") && !strings.HasPrefix(class, "other("), "R-C11-4", rfn+":restore-outcome@"+class, rfn, c.pos(setCall.Pos()),
			fmt.Sprintf("SetIPv6Autoconf(%s, %s); on %s error returns nil=%v", iface, prev, class, gotNil),
			"restore writes the value read by the earlier get for the same interface; nil, permission-denied and not-exist are tolerated (nil result), any other error is returned",
			"autoconf is not restored to its previous value, or the restore error table differs")
	}
	c.R.Floor("R-C11-4", 8)

	// setAutoconf only in Advertise mode.
	for _, s := range an.FindCalls(c.srcFuncs(), func(cc *ssa.CallCommon) bool { return an.CallIs(cc, PkgSystem, "Dialer", "setAutoconf") }) {
		fi := an.Info(s.Fn)
		g := fi.Guard(s.Instr.Block())
		okAll := len(g) > 0
		for _, conj := range g {
			okc := false
			for _, a := range conj {
				e := c.XO.Of(a.Cond)
				x, y, op, ok := effCmp(an.PathAtom{Cond: e, Pos: a.Pos})
				if ok && op == token.EQL && x.IsField("mode") {
					if k, isC := y.ConstInt(); isC && k == 1 {
						okc = true
					}
				}
			}
			if !okc {
				okAll = false
			}
		}
		c.R.Check(okAll, "R-C11-4", c.fname(s.Fn)+":setAutoconf-only-when-advertising", c.fname(s.Fn), c.pos(s.Pos()),
			fmt.Sprintf("guard DNF has %d disjunct(s)", len(g)), "setAutoconf is reached only under d.mode == Advertise",
			"autoconfiguration is modified for a non-advertising (monitor) interface")
	}
}

func c11WhoMay(c *Ctx) {
	sa := c.P.Method("internal/system", "Dialer", "setAutoconf")
	n := 0
	for _, s := range an.FindCalls(c.srcFuncs(), func(cc *ssa.CallCommon) bool {
		return cc.IsInvoke() && an.CallIs(cc, PkgSystem, "State", "SetIPv6Autoconf")
	}) {
		n++
		okFrom, _ := c.reachedOnlyFrom(s.Fn, func(root *ssa.Function) bool { return root == sa })
		c.R.Check(okFrom, "R-C11-5", c.fname(s.Fn)+":calls-SetIPv6Autoconf", c.fname(s.Fn), c.pos(s.Pos()),
			"caller "+c.fname(s.Fn), "only Dialer.setAutoconf and its restore closure change the autoconf sysctl",
			"another function changes IPv6 autoconfiguration outside the set/restore pairing")
	}
	c.R.Floor("R-C11-5", 2)
	dial := c.P.Method("internal/system", "Dialer", "dial")
	for _, fs := range an.FindFieldStores(c.srcFuncs(), PkgSystem, "DialContext", "done") {
		c.R.Check(fs.Fn == dial, "R-C11-5", c.fname(fs.Fn)+":writes-DialContext.done", c.fname(fs.Fn), c.pos(fs.Store.Pos()),
			"writer "+c.fname(fs.Fn), "DialContext.done is written only by Dialer.dial", "cleanup closure replaced elsewhere")
	}
}

// handsOver reports whether result expression e transfers ownership of the
// resource rs: it is the resource, or a composite/closure/pointer holding it
// (a call argument does not count).
func handsOver(e *an.Expr, rs string) bool {
	if e == nil {
		return false
	}
	if e.String() == rs {
		return true
	}
	switch e.Op {
	case an.OpNew, an.OpAddr, an.OpStruct, an.OpClosure, an.OpPhi:
		for _, a := range e.Args {
			if handsOver(a, rs) {
				return true
			}
		}
	}
	return false
}


// c11AutoconfKey (R-C11-7, linux): the value setAutoconf saves and the value
// it writes back are the same kernel setting: getIPv6Autoconf reports exactly
// sysctlBool(sysctl(iface, "autoconf")) and setIPv6Autoconf writes exactly
// sysctlEnable(iface, "autoconf", enable); neither consults another key or
// file. (A getter that folds accept_ra into its answer makes the restore write
// back a value the setting never had.)
func c11AutoconfKey(c *Ctx) {
	if c.P.Cfg.GOOS != "linux" {
		return
	}
	for _, name := range []string{"getIPv6Autoconf", "setIPv6Autoconf"} {
		f := c.needFunc("R-C11-7", "internal/system", name)
		if f == nil {
			continue
		}
		fn := c.fname(f)
		nKey, bad := 0, ""
		isKey := func(v ssa.Value) bool {
			k, ok := v.(*ssa.Const)
			return ok && k.Value != nil && k.Value.Kind() == constant.String && constant.StringVal(k.Value) == "autoconf"
		}
		for _, g := range an.WithAnon(f) {
			for _, ci := range an.CallsIn(g) {
				cc := ci.Common()
				switch {
				case an.CallIs(cc, PkgSystem, "", "sysctl"):
					if len(cc.Args) == 2 && isKey(cc.Args[1]) {
						nKey++
					} else {
						bad = "sysctl() is asked for another key at " + c.pos(ci.Pos())
					}
				case an.CallIs(cc, PkgSystem, "", "sysctlEnable"):
					if len(cc.Args) == 3 && isKey(cc.Args[1]) {
						nKey++
					} else {
						bad = "sysctlEnable() writes another key at " + c.pos(ci.Pos())
					}
				case an.CallIs(cc, PkgSystem, "", "sysctlBool"):
					// its argument is the path built from the key above
					arg := c.XO.Of(cc.Args[0])
					if !(arg.Op == an.OpCall && arg.Fn != nil && c.fname(arg.Fn) == "system.sysctl") {
						bad = "sysctlBool() reads " + arg.String()
					}
				default:
					if fo := an.CalleeObj(cc); fo != nil && fo.Pkg() != nil && (fo.Pkg().Path() == "os" || fo.Pkg().Path() == "io/ioutil") {
						bad = "direct file access " + fo.FullName() + " at " + c.pos(ci.Pos())
					}
				}
			}
		}
		// the result is that call's result, untouched
		for _, r := range an.Returns(f) {
			for i, res := range r.Results {
				e := c.XO.Of(res)
				b, _ := stripExtract(e)
				if b == nil {
					b = e
				}
				isHelper := b.Op == an.OpCall && b.Fn != nil && (c.fname(b.Fn) == "system.sysctlBool" || c.fname(b.Fn) == "system.sysctlEnable")
				if !isHelper {
					bad = fmt.Sprintf("result #%d is %s", i, shortExpr(e))
				}
			}
		}
		c.R.Check(nKey == 1 && bad == "", "R-C11-7", fn+":autoconf-key-only", fn, c.pos(f.Pos()), fmt.Sprintf("%d use(s) of the \"autoconf\" key; %s", nKey, bad),
			"the autoconf getter and setter address net.ipv6.conf.<if>.autoconf and nothing else, and pass the helper's result through", "the value saved before disabling is not the value of the setting that is written back")
	}
}
