// Command crverif decides CoreRAD's semantic properties by static analysis of
// the source tree in /repo (or $VERIF_REPO). See /verif/DESIGN.md.
package main

import (
	"encoding/json"
	"flag"
	"fmt"
	"os"
	"path/filepath"
	"runtime/debug"
	"sort"
	"strconv"
	"strings"

	"crverif/internal/an"
	"crverif/internal/load"
	"crverif/internal/ob"
	"crverif/rules"

	"golang.org/x/tools/go/ssa"
)

func verifDir() string {
	if d := os.Getenv("VERIF_DIR"); d != "" {
		return d
	}
	exe, err := os.Executable()
	if err == nil {
		return filepath.Dir(filepath.Dir(exe))
	}
	return "/verif"
}

func main() {
	var (
		prop     = flag.String("property", "", "property id (C01..C20)")
		tier     = flag.String("tier", "", "quick|thorough (default $VERIF_TIER or quick)")
		replay   = flag.String("replay", "", "replay file: re-evaluate only the obligation it names")
		dump     = flag.String("dump", "", "debug: dump SEE of returns/calls of function pkg:name (e.g. internal/config:parseInterface)")
		evidence = flag.String("evidence", "", "evidence directory (default <verif>/evidence)")
		list     = flag.Bool("list", false, "list registered properties")
		describe = flag.Bool("describe", false, "print the registered rule sets as JSON")
		goos     = flag.String("goos", "", "debug: single GOOS")
		listFns  = flag.Bool("funcs", false, "debug: list the module's source functions")
	)
	flag.Parse()

	if *list {
		fmt.Println(strings.Join(rules.Properties(), " "))
		return
	}
	if *describe {
		out := map[string]any{}
		for _, id := range rules.Properties() {
			rs := rules.Registry[id]
			out[id] = map[string]any{"explanation": rs.Explanation, "assumptions": rs.Assumptions, "not_covered": rs.NotCovered, "technique": rs.Technique}
		}
		b, _ := json.MarshalIndent(out, "", " ")
		fmt.Println(string(b))
		return
	}
	if *tier == "" {
		*tier = os.Getenv("VERIF_TIER")
	}
	if *tier != "thorough" {
		*tier = "quick"
	}
	var seed int64
	if s := os.Getenv("VERIF_SEED"); s != "" {
		seed, _ = strconv.ParseInt(s, 10, 64)
	}
	vdir := verifDir()
	evdir := *evidence
	if evdir == "" {
		evdir = filepath.Join(vdir, "evidence")
	}

	if *dump != "" {
		doDump(*dump, *goos)
		return
	}
	if *listFns {
		p, err := load.Load(load.Config{GOOS: *goos})
		if err != nil {
			fmt.Fprintln(os.Stderr, err)
			os.Exit(2)
		}
		var names []string
		for _, fn := range p.SrcFuncs() {
			if fn.Parent() == nil {
				names = append(names, load.FuncName(fn))
			}
		}
		sort.Strings(names)
		for _, n := range names {
			fmt.Println(n)
		}
		return
	}

	var replayOb *ob.Obligation
	if *replay != "" {
		b, err := os.ReadFile(*replay)
		if err != nil {
			fmt.Fprintln(os.Stderr, "ANALYSIS-ERROR:", err)
			os.Exit(2)
		}
		var rf struct {
			Property   string        `json:"property"`
			Obligation ob.Obligation `json:"obligation"`
		}
		if err := json.Unmarshal(b, &rf); err != nil {
			fmt.Fprintln(os.Stderr, "ANALYSIS-ERROR:", err)
			os.Exit(2)
		}
		if *prop == "" {
			*prop = rf.Property
		}
		replayOb = &rf.Obligation
	}

	rs := rules.Registry[*prop]
	if rs == nil {
		fmt.Fprintf(os.Stderr, "ANALYSIS-ERROR: unknown property %q (have %s)\n", *prop, strings.Join(rules.Properties(), " "))
		os.Exit(2)
	}

	known, err := ob.LoadKnown(filepath.Join(vdir, "known_findings.json"))
	if err != nil {
		fmt.Fprintln(os.Stderr, "ANALYSIS-ERROR:", err)
		os.Exit(2)
	}

	run := ob.NewRun(*prop, *tier, seed)
	run.Explanation = rs.Explanation
	run.Assumptions = append(run.Assumptions, rs.Assumptions...)
	run.NotCovered = rs.NotCovered

	cfgs := []load.Config{{GOOS: "linux", GOARCH: "amd64"}}
	if *tier == "thorough" {
		cfgs = append(cfgs,
			load.Config{GOOS: "linux", GOARCH: "386"},
			load.Config{GOOS: "darwin", GOARCH: "amd64"},
			load.Config{GOOS: "windows", GOARCH: "amd64"},
		)
	}
	if *goos != "" {
		cfgs = []load.Config{{GOOS: *goos, GOARCH: "amd64"}}
	}
	var cfgNames []string
	pkgs, funcs := 0, 0
	for _, cfg := range cfgs {
		p, err := load.Load(cfg)
		if err != nil {
			fmt.Fprintf(os.Stderr, "ANALYSIS-ERROR: %v\n", err)
			os.Exit(2)
		}
		cfgNames = append(cfgNames, cfg.String())
		if len(p.Pkgs) > pkgs {
			pkgs = len(p.Pkgs)
		}
		funcs += len(p.SrcFuncs())
		run.SetConfig(cfg.String())
		an.ResetCache()
		func() {
			defer func() {
				if r := recover(); r != nil {
					run.Undecided("R-"+*prop+"-engine", "panic", "", "", fmt.Sprintf("checker panic: %v\n%s", r, debug.Stack()))
				}
			}()
			rs.Run(rules.NewCtx(p, run, *tier))
		}()
		p = nil
		debug.FreeOSMemory()
	}
	run.Stats["packages"] = pkgs
	run.Stats["functions_analysed"] = funcs
	run.Stats["build_configurations"] = cfgNames
	run.Stats["repo"] = load.RepoDir()

	if replayOb != nil {
		found := false
		for _, o := range run.Obs {
			if o.Rule == replayOb.Rule && o.Key == replayOb.Key {
				found = true
				fmt.Println("REPLAY", ob.Diagnose(o))
			}
		}
		if !found {
			fmt.Printf("REPLAY obligation %s|%s no longer exists in the current tree\n", replayOb.Rule, replayOb.Key)
		}
		for _, o := range run.Obs {
			if o.Rule == replayOb.Rule && o.Key == replayOb.Key && o.Status != ob.Discharged {
				os.Exit(1)
			}
		}
		return
	}

	res, err := run.Finish(evdir, known)
	if err != nil {
		fmt.Fprintln(os.Stderr, "ANALYSIS-ERROR:", err)
		os.Exit(2)
	}
	total, disch := 0, 0
	for _, o := range run.Obs {
		total++
		if o.Status == ob.Discharged {
			disch++
		}
	}
	fmt.Printf("property=%s tier=%s configs=%s obligations=%d discharged=%d\n", *prop, *tier, strings.Join(cfgNames, ","), total, disch)
	for _, f := range res.Known {
		fmt.Printf("KNOWN-FINDING: property=%s rule=%s construct=%q %s\n", f.Property, f.Rule, f.Key, f.What)
	}
	for _, f := range res.NotSeen {
		fmt.Printf("note: listed finding not re-observed (repaired?): property=%s rule=%s construct=%q\n", f.Property, f.Rule, f.Key)
	}
	for i, o := range res.Violations {
		fmt.Printf("VIOLATION property=%s replay=%s\n", *prop, res.Replays[i])
		fmt.Printf("  %s\n", ob.Diagnose(o))
	}
	if len(res.Violations) > 0 {
		os.Exit(1)
	}
}

func doDump(spec, goos string) {
	p, err := load.Load(load.Config{GOOS: goos})
	if err != nil {
		fmt.Fprintln(os.Stderr, err)
		os.Exit(2)
	}
	x := &an.Extractor{InModule: load.InModule, MaxDepth: 4, NoInline: map[*ssa.Function]bool{}}
	if os.Getenv("DUMP_OPAQUE") != "" {
		x.MaxDepth = 0
	}
	parts := strings.SplitN(spec, ":", 2)
	var fns []*ssa.Function
	for _, fn := range p.SrcFuncs() {
		if fn.Pkg != nil && strings.HasSuffix(fn.Pkg.Pkg.Path(), parts[0]) && strings.Contains(fn.String(), parts[1]) {
			fns = append(fns, fn)
		}
	}
	sort.Slice(fns, func(i, j int) bool { return fns[i].String() < fns[j].String() })
	for _, fn := range fns {
		fmt.Println("=== ", fn.String())
		fn.WriteTo(os.Stdout)
		fi := an.Info(fn)
		if os.Getenv("DUMP_PATHS") != "" {
			ps, err := x.Paths(fn, an.PathOpts{EmitCut: true, InlinePaths: func(f *ssa.Function) bool { return os.Getenv("DUMP_INLINE") != "" && load.InModule(f) }})
			fmt.Println("paths:", len(ps), err)
			for i, pp := range ps {
				kind := "return"
				if pp.Panic != nil {
					kind = "panic"
				}
				if pp.Cut {
					kind = fmt.Sprintf("cut→b%d", pp.CutTo.Index)
				}
				var as []string
				for _, a := range pp.Atoms {
					as = append(as, a.String())
				}
				fmt.Printf("#%d %s: %s\n", i, kind, strings.Join(as, " ∧ "))
				for j, r := range pp.Results {
					fmt.Printf("      res[%d] = %s\n", j, r)
				}
			}
			continue
		}
		for _, r := range an.Returns(fn) {
			fmt.Printf("-- return at %s block %d guard:\n", p.Pos(r.Pos()), r.Block().Index)
			for _, c := range fi.Guard(r.Block()) {
				var as []string
				for _, a := range c {
					s := x.Of(a.Cond).String()
					if !a.Pos {
						s = "!" + s
					}
					as = append(as, s)
				}
				fmt.Println("     ", strings.Join(as, " ∧ "))
			}
			for i, v := range r.Results {
				fmt.Printf("   res[%d] = %s\n", i, x.Of(v))
			}
		}
	}
}
